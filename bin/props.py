"""Per-property configuration of bin/check."""
import copy
import json
import os

import vlib

LOOKUP_NEG = [
    {"spec": "Lookup.tla", "cfg": "Lookup_neg_unreach.cfg", "expect": "violation", "timeout": 300},
    {"spec": "Lookup.tla", "cfg": "Lookup_neg_beta.cfg", "expect": "violation", "timeout": 300},
    {"spec": "Lookup.tla", "cfg": "Lookup_neg_spawn.cfg", "expect": "violation", "timeout": 300},
]
LOOKUP_EX = [
    {"spec": "Lookup.tla", "cfg": "Lookup_quick.cfg", "timeout": 900},
    {"spec": "Lookup.tla", "cfg": "Lookup_filter.cfg", "timeout": 900},
    {"spec": "Lookup.tla", "cfg": "Lookup_thorough.cfg", "tier": "thorough", "timeout": 3600, "heap": "24g"},
] + LOOKUP_NEG


def dht_driver(test, **kw):
    d = {"test": test, "trace_spec": "DhtTrace.tla", "trace_cfg": "DhtTrace.cfg",
         "inv_cfg": {p: "DhtTrace_%s.cfg" % p for p in ("C01", "C02", "C03", "C04", "C06", "C08")}}
    d.update(kw)
    return d


PROPS = {
    "C01": {
        "exhaustive": LOOKUP_EX,
        "drivers": [dht_driver("TestLookupGCP"),
                    # lookups whose event consumer is slow (answers queue up while the lookup blocks publishing): judged by
                    # the two-stream monitor EventsTrace.tla only
                    {"test": "TestLookupEvents", "trace_spec": "EventsTrace.tla", "trace_cfg": "EventsTrace.cfg", "inv_cfg": {"C01": "EventsTrace_C01.cfg"}}],
        "assumptions": [
            "network, dialer and clock are simulated (FakeHost + gated message sender under testing/synctest)",
            "peer ranks (XOR distance order to the key) are computed by the harness from sha256, independently of go-libp2p-kbucket / qpeerset",
            "the routing-table library's NearestPeers is cross-checked (seed event = K nearest of ListPeers) but otherwise trusted",
            "deliveries are released one at a time and the run is quiescent between them, so 'processed' = delivered while the search phase ran",
        ],
        "explanation": "TLC exhaustively checks Lookup.tla (implementation-shaped) for the C01 invariants; real GetClosestPeers runs (exhaustive delivery orders on small networks, seeded random on larger ones) are validated by TLC against DhtTrace.tla with the C01 clauses. A second driver runs lookups whose event consumer is scheduled like any other actor (several answers then wait while the lookup blocks publishing) and TLC validates them against EventsTrace.tla: every response event speaks for its own peer only, claims an answer only if one was delivered, and attributes to a peer only what that peer's answer named.",
    },
}


COMMON_ASSUME = [
    "network, dialer and clock are simulated (FakeHost + gated message sender under testing/synctest)",
    "peer ranks (XOR distance order to the key) are computed by the harness from sha256, independently of go-libp2p-kbucket / qpeerset",
    "deliveries are released one at a time and the run is quiescent between them, so 'processed' = delivered while the search phase ran",
]

PROPS["C02"] = {
    "exhaustive": [
        {"spec": "HonestNet.tla", "cfg": "HonestNet_quick.cfg", "timeout": 600},
        {"spec": "HonestNet.tla", "cfg": "HonestNet_full.cfg", "timeout": 600},
        {"spec": "HonestNet.tla", "cfg": "HonestNet_k1.cfg", "timeout": 600},
        {"spec": "HonestNet.tla", "cfg": "HonestNet_thorough.cfg", "tier": "thorough", "timeout": 3000},
        {"spec": "HonestNet.tla", "cfg": "HonestNet_thorough3.cfg", "tier": "thorough", "timeout": 3000},
        {"spec": "HonestNet.tla", "cfg": "HonestNet_neg.cfg", "expect": "violation", "timeout": 300},
        {"spec": "Lookup.tla", "cfg": "Lookup_filter.cfg", "timeout": 900},
        {"spec": "Lookup.tla", "cfg": "Lookup_neg_beta.cfg", "expect": "violation", "timeout": 300},
    ],
    "drivers": [dht_driver("TestLookupHonest"), dht_driver("TestLookupGCP")],
    "assumptions": COMMON_ASSUME + ["the honest / k-bucket-complete assumption of clauses (a)(b) is enforced by the scenario generator (tables built from the real sha256 ids)"],
    "explanation": "HonestNet.tla is model-checked for convergence on every k-bucket-complete network over a 3-bit (thorough: 4-bit) id space; real GetClosestPeers runs on generated honest networks and on arbitrary faulty ones are validated against DhtTrace.tla clauses C02 a-d.",
}
PROPS["C03"] = {
    "exhaustive": [
        {"spec": "Lookup.tla", "cfg": "Lookup_quick.cfg", "timeout": 900},
        {"spec": "Lookup.tla", "cfg": "Lookup_neg_spawn.cfg", "expect": "violation", "timeout": 300},
        {"spec": "PutProvide.tla", "cfg": "PutProvide_quick.cfg"},
        {"spec": "PutProvide.tla", "cfg": "PutProvide_deadline.cfg"},
        {"spec": "PutProvide.tla", "cfg": "PutProvide_deadline5.cfg"},
        {"spec": "ValueSearch.tla", "cfg": "ValueSearch_q1.cfg"},
        {"spec": "FindProviders.tla", "cfg": "FindProviders_c1.cfg"},
    ] + [{"spec": "OptProvide.tla", "cfg": c} for c in ("OptProvide_R0_T2_P2_0.cfg", "OptProvide_R1_T2_P2_0.cfg", "OptProvide_R2_T2_P2_2.cfg",
         "OptProvide_R3_T2_P1_0.cfg", "OptProvide_R4_T2_P0_0.cfg", "OptProvide_R4_T3_P1_1.cfg", "OptProvide_R5_T2_P2_0.cfg")] + [
        {"spec": "OptProvide.tla", "cfg": "OptProvide_neg_R0.cfg", "expect": "violation"},
        {"spec": "QueryRun.tla", "cfg": "QueryRun_quick.cfg"},
        {"spec": "QueryRun.tla", "cfg": "QueryRun_alpha3.cfg"},
        {"spec": "QueryRun.tla", "cfg": "QueryRun_thorough.cfg", "tier": "thorough"},
        {"spec": "QueryRun.tla", "cfg": "QueryRun_thorough4.cfg", "tier": "thorough"},
        {"spec": "QueryRun.tla", "cfg": "QueryRun_neg_cap.cfg", "expect": "violation"},
        {"spec": "QueryRun.tla", "cfg": "QueryRun_neg_cap_hangs.cfg", "expect": "violation"},
        {"spec": "QueryRun.tla", "cfg": "QueryRun_neg_spawn.cfg", "expect": "violation"},
        {"spec": "QueryRun.tla", "cfg": "QueryRun_neg_nowait.cfg", "expect": "violation"},
    ],
    "drivers": [dht_driver("TestOpsAll"), dht_driver("TestOpsOptProvide")],
    "assumptions": COMMON_ASSUME + ["'promptly' and 'bounded time' are judged in virtual time; background work is judged by a goroutine census of the synctest bubble 3 virtual minutes after the operation returned and again after Close"],
    "explanation": "Deadlock freedom and termination of the lookup protocol are model-checked (Lookup.tla with fairness); QueryRun.tla models how one lookup ends - the loop, its workers, the never-closed channel of capacity alpha and the wait group - with the invariants that every worker in flight can finish its send with nobody reading and that no worker outlives the returned lookup, and the liveness property that a cancelled lookup returns (four negative controls: smaller channel, spawning past alpha, returning without waiting); every public routing operation of the real IpfsDHT is driven through failing / silent / lying peers, all delivery orders and cancellation points (small scopes) and validated against the C03 clauses of DhtTrace.tla (return, prompt cancel, channel closed, no panic, no background work left).",
}
PROPS["C04"] = {
    "exhaustive": [
        {"spec": "ValueSearch.tla", "cfg": "ValueSearch_q0.cfg"},
        {"spec": "ValueSearch.tla", "cfg": "ValueSearch_q1.cfg"},
        {"spec": "ValueSearch.tla", "cfg": "ValueSearch_q2.cfg"},
        {"spec": "ValueSearch.tla", "cfg": "ValueSearch_thorough.cfg", "tier": "thorough", "timeout": 3000},
        {"spec": "ValueSearch.tla", "cfg": "ValueSearch_neg_emit.cfg", "expect": "violation"},
        {"spec": "ValueSearch.tla", "cfg": "ValueSearch_neg_validate.cfg", "expect": "violation"},
    ],
    "drivers": [dht_driver("TestOpsValue"),
                {"test": "TestLocalValue", "trace_spec": "LocalValueTrace.tla", "trace_cfg": "LocalValueTrace.cfg", "inv_cfg": {"C04": "LocalValueTrace_C04.cfg"}}],
    "assumptions": COMMON_ASSUME + ["values are abstracted to (validity class, rank) by the harness validator"],
    "explanation": "GetValue / SearchValue of the real IpfsDHT with valid, stale, invalid and mis-keyed records at responders and in the local store, every quorum, validated against C04 clauses.",
}
PROPS["C06"] = {
    "exhaustive": [
        {"spec": "PutProvide.tla", "cfg": "PutProvide_quick.cfg"},
        {"spec": "PutProvide.tla", "cfg": "PutProvide_deadline.cfg"},
        {"spec": "PutProvide.tla", "cfg": "PutProvide_deadline5.cfg"},
        {"spec": "PutProvide.tla", "cfg": "PutProvide_neg_abort.cfg", "expect": "violation"},
        {"spec": "PutProvide.tla", "cfg": "PutProvide_neg_store.cfg", "expect": "violation"},
        {"spec": "ValueSearch.tla", "cfg": "ValueSearch_q0.cfg"},
        {"spec": "OptProvide.tla", "cfg": "OptProvide_R5_T2_P2_0.cfg"},
    ],
    "drivers": [dht_driver("TestOpsPut"), dht_driver("TestOpsValue"), dht_driver("TestOpsOptProvide")],
    "assumptions": COMMON_ASSUME,
    "explanation": "PutValue / Provide / corrective puts of the real IpfsDHT; recipients and message content compared with the lookup result reconstructed by the trace spec. Recipients of store requests may also hang (never answer nor fail) until the sender gives up.",
}
PROPS["C08"] = {
    "exhaustive": [
        {"spec": "FindProviders.tla", "cfg": "FindProviders_c1.cfg"},
        {"spec": "FindProviders.tla", "cfg": "FindProviders_c0.cfg"},
        {"spec": "FindProviders.tla", "cfg": "FindProviders_c2.cfg"},
        {"spec": "FindProviders.tla", "cfg": "FindProviders_thorough.cfg", "tier": "thorough", "timeout": 3000},
        {"spec": "FindProviders.tla", "cfg": "FindProviders_neg_cap.cfg", "expect": "violation"},
        {"spec": "FindProviders.tla", "cfg": "FindProviders_neg_zero.cfg", "expect": "violation"},
    ],
    "drivers": [dht_driver("TestOpsProviders")],
    "assumptions": COMMON_ASSUME,
    "explanation": "FindProvidersAsync of the real IpfsDHT; yielded peers vs GET_PROVIDERS answers delivered, count cap, early stop, channel closure.",
}


PROPS["C12"] = {
    "exhaustive": [
        {"spec": "RTMembership.tla", "cfg": "RTMembership_quick.cfg"},
        {"spec": "RTMembership.tla", "cfg": "RTMembership_filter.cfg"},
        {"spec": "RTMembership.tla", "cfg": "RTMembership_thorough.cfg", "tier": "thorough", "timeout": 3000},
        {"spec": "RTMembership.tla", "cfg": "RTMembership_neg_add.cfg", "expect": "violation"},
        {"spec": "RTMembership.tla", "cfg": "RTMembership_neg_cancel.cfg", "expect": "violation"},
        {"spec": "RTMembership.tla", "cfg": "RTMembership_neg_drop.cfg", "expect": "violation"},
    ],
    "drivers": [{"test": "TestRTMembership", "trace_spec": "RTTrace.tla", "trace_cfg": "RTTrace.cfg", "inv_cfg": {"C12": "RTTrace_C12.cfg"}}],
    "assumptions": COMMON_ASSUME[:1] + [
        "identify / protocol events are emitted on the real event bus with the peerstore protocols set accordingly",
        "capacity-driven replacement inside go-libp2p-kbucket is outside the property: only 'member => answered' and 'failed => leaves' are judged",
        "eviction is required for failures delivered while a user lookup is in its search phase and uncancelled, for failed liveness pings of members, and for protocol withdrawal; failures inside the refresh's own lookups are not judged (their phase is not observable)",
    ],
    "explanation": "RTMembership.tla (admission, eviction, refresh request/answer handshake incl. shutdown) is model-checked with fairness; the real IpfsDHT is driven through identify/protocol events, probes, lookups with failing peers, cancellations, refreshes, clock advances and Close at arbitrary points; the routing table is logged at every quiescent point and validated against RTTrace.tla. Some lookups are ended by the caller's deadline instead of a cancel; probes are attributed from the table at the instant they leave, in-flight pings and admission probes are counted per peer; what the refresh draws from crypto/rand is a seeded stream so that replays repeat.",
}


PROPS["C05"] = {
    "exhaustive": [
        {"spec": "MC_ValueStore_quick.tla", "cfg": "MC_ValueStore_quick.cfg"},
        {"spec": "MC_ValueStore_corrupt.tla", "cfg": "MC_ValueStore_corrupt.cfg"},
        {"spec": "MC_ValueStore_thorough.tla", "cfg": "MC_ValueStore_thorough.cfg", "tier": "thorough", "timeout": 3000},
        {"spec": "MC_ValueStore_neg_nolock.tla", "cfg": "MC_ValueStore_neg_nolock.cfg", "expect": "violation"},
        {"spec": "MC_ValueStore_neg_nocompare.tla", "cfg": "MC_ValueStore_neg_nocompare.cfg", "expect": "violation"},
        {"spec": "MC_ValueStore_neg_select.tla", "cfg": "MC_ValueStore_neg_select.cfg", "expect": "violation"},
    ],
    "drivers": [{"test": "TestValueStore", "trace_spec": "ValueStoreTrace.tla", "trace_cfg": "ValueStoreTrace.cfg", "inv_cfg": {"C05": "ValueStoreTrace_C05.cfg"}}],
    "assumptions": [
        "the datastore is linearizable per operation (mutex-wrapped map datastore behind a gate); the interleaving of datastore accesses of concurrent store users is the explored schedule",
        "actors are settled by a goroutine-state probe (parked at the gate / blocked on the stripe mutex / finished), the clock is the synctest bubble clock",
        "the stored-key-match clause is judged on the node's write paths (PUT_VALUE handler, PutValue), see DESIGN 4.x",
        "two keys sharing a stripe lock are chosen by construction (same last byte)",
    ],
    "explanation": "ValueStore.tla (datastore accesses and stripe-lock operations as atomic steps, sweeper, clock) is model-checked with three negative controls (no lock, no compare-before-delete, swapped select); the real node (PutValue, PUT_VALUE / GET_VALUE handlers over fake streams, offline GetValue, value GC) runs over a gated datastore with all interleavings of datastore accesses (capped DFS) and sequential histories with clock advances; TLC validates the datastore write log and every read result against ValueStoreTrace.tla. Remote PUT_VALUE records carry a receive time chosen by the sender in some cases (far future, long ago, not a time); every stored record must be stamped between the start of its call and the write.",
}


PROPS["C07"] = {
    "exhaustive": [
        {"spec": "ProviderStore.tla", "cfg": "ProviderStore_quick.cfg"},
        {"spec": "ProviderStore.tla", "cfg": "ProviderStore_two.cfg"},
        {"spec": "ProviderStore.tla", "cfg": "ProviderStore_thorough.cfg", "tier": "thorough", "timeout": 3000, "heap": "20g"},
        {"spec": "ProviderStore.tla", "cfg": "ProviderStore_neg_cache.cfg", "expect": "violation"},
        {"spec": "ProviderStore.tla", "cfg": "ProviderStore_neg_boundary.cfg", "expect": "violation"},
        {"spec": "ProviderStore.tla", "cfg": "ProviderStore_neg_serve.cfg", "expect": "violation"},
    ],
    "drivers": [{"test": "TestProviderStore", "trace_spec": "ProviderTrace.tla", "trace_cfg": "ProviderTrace.cfg", "inv_cfg": {"C07": "ProviderTrace_C07.cfg"}}],
    "assumptions": [
        "the datastore is a mutex-wrapped map datastore behind a gate; only the background GC's accesses are scheduled (foreground calls are serialised by the store's own mutex, so they are issued one at a time)",
        "virtual clock (testing/synctest); validity 2 h, GC interval 1 h, LRU capacity 1-3 (public option) so that eviction happens",
        "the documented exception (re-addition racing with the sweep of the same expired record) is recognised from the sweeper's own snapshot time",
    ],
    "explanation": "ProviderStore.tla (disk, LRU cache, lazy expiry, entry-by-entry sweep from a snapshot, restart) is model-checked for served-iff-fresh with three negative controls; the real ProviderManager runs histories of add/get/tick/restart/close with the GC's datastore accesses placed at every possible point between foreground calls, and TLC validates every GetProviders result and every datastore delete against ProviderTrace.tla.",
}


OVERLAYS = {
    "queue": {"/repo/provider/internal/queue/zz_verif_driver_test.go": "/verif/overlay/queue/driver_test.go"},
    "keyspace": {"/repo/provider/internal/keyspace/zz_verif_driver_test.go": "/verif/overlay/keyspace/driver_test.go"},
}

PROPS["C19"] = {
    "exhaustive": [
        {"spec": "PQueue.tla", "cfg": "PQueue_quick.cfg"},
        {"spec": "PQueue.tla", "cfg": "PQueue_thorough.cfg", "tier": "thorough", "timeout": 3000, "heap": "20g"},
        {"spec": "PQueue.tla", "cfg": "PQueue_neg_absorb.cfg", "expect": "violation"},
        {"spec": "PQueue.tla", "cfg": "PQueue_neg_empty.cfg", "expect": "violation"},
    ],
    "drivers": [{"test": "TestVerifQueues", "pkg": "./provider/internal/queue", "overlay": "queue", "cwd": "/repo",
                 "trace_spec": "PQueueTrace.tla", "trace_cfg": "PQueueTrace.cfg", "inv_cfg": {"C19": "PQueueTrace_C19.cfg"}}],
    "assumptions": [
        "the driver is compiled into package queue with go test -overlay (add-only file) and projects the queue state from the unexported deque / tries; if it stops compiling the check is inconclusive, not a violation",
        "keys are abstracted to the first 5 bits of their Kademlia identifier (one real multihash per value), prefixes have length 0..3 (the empty prefix included)",
        "persist/drain uses an in-memory map datastore; crash points inside Persist are not explored (Persist runs at Close)",
    ],
    "explanation": "PQueueOps.tla defines the queue operations as functions on (prefix order, key set); PQueue.tla checks NoOverlap, EachPrefixHasKeys, EachKeyCoveredOnce and AbsorptionPosition over all histories on a 3-bit keyspace; the real ProvideQueue/ReprovideQueue run thousands of random histories logging the full projected state after every operation, and TLC recomputes every post-state and result with the same operators (PQueueTrace.tla).",
}


PROPS["C18"] = {
    "exhaustive": [
        {"spec": "KeyspaceTheorems.tla", "cfg": "KeyspaceTheorems_quick.cfg"},
        # 3-bit space in two parts (the theorems about tries do not mention the peer set and vice versa; the cross
        # product of 677 tries x 15 targets x 256 peer sets does not finish): every (trie, target), every peer set
        {"spec": "KeyspaceTheorems.tla", "cfg": "KeyspaceTheorems_thorough_trie.cfg", "tier": "thorough", "timeout": 1200},
        {"spec": "KeyspaceTheorems.tla", "cfg": "KeyspaceTheorems_thorough_peers.cfg", "tier": "thorough", "timeout": 1200},
        {"spec": "KeyspaceTheorems.tla", "cfg": "KeyspaceTheorems_neg.cfg", "expect": "violation"},
    ],
    "drivers": [{"test": "TestVerifKeyspace", "pkg": "./provider/internal/keyspace", "overlay": "keyspace", "cwd": "/repo",
                 "trace_spec": "KeyspaceTrace.tla", "trace_cfg": "KeyspaceTrace.cfg", "inv_cfg": {"C18": "KeyspaceTrace_C18.cfg"},
                 "val_timeout": 3000}],
    "assumptions": [
        "the driver is compiled into package keyspace with go test -overlay (add-only file)",
        "generic trie functions are exercised on bit-string tries directly; peer ids / multihashes are real values chosen one per 4-bit identifier prefix, so their XOR order is decided within the projected bits",
        "NextNonEmptyLeaf is only called with a key of the trie or a key overlapping none of them (its callers' precondition; a proper prefix of a trie key panics and is not passed)",
        "ShortestCoveredPrefix: when every peer matches the whole target the function reports nothing covered (documented edge, encoded in the definition)",
    ],
    "explanation": "Keyspace.tla gives the set-theoretic definitions (k-nearest allocation, minimal region partition, key assignment, gaps, subtraction, coalescing, cyclic next, prune, prefix / subtrie lookup, coverage, shortest covered prefix); KeyspaceTheorems.tla checks sanity theorems of the definitions by enumeration; the real functions are called on every prefix-free set / key subset of a 2-bit (thorough: 3-bit) space and on random 4-bit instances, and TLC evaluates the definitions on every recorded call.",
}


PROPS["C20"] = {
    "exhaustive": [
        {"spec": "Keystore.tla", "cfg": "Keystore_quick.cfg"},
        {"spec": "Keystore.tla", "cfg": "Keystore_thorough.cfg"},
        {"spec": "Keystore.tla", "cfg": "Keystore_neg_sync.cfg", "expect": "violation"},
        {"spec": "Keystore.tla", "cfg": "Keystore_neg_drain.cfg", "expect": "violation"},
        {"spec": "Keystore.tla", "cfg": "Keystore_neg_teardown.cfg", "expect": "violation"},
    ],
    "drivers": [{"test": "TestKeystore", "trace_spec": "KeystoreTrace.tla", "trace_cfg": "KeystoreTrace.cfg", "inv_cfg": {"C20": "KeystoreTrace_C20.cfg"}}],
    "assumptions": [
        "datastores are journalled in-memory stores; a batch commit is atomic; a crash keeps, per physical store, everything up to its last Sync and a chosen prefix of its later writes (shared mode = one store, factory mode = meta + one store per slot)",
        "concurrent Puts are issued once the reset has demonstrably started (its first key was taken); a Put racing with the very start of ResetCids may be ordered before the reset",
        "concurrent Delete/Empty during a reset are outside the property and not generated",
        "the library's own select statements choose among ready cases at random, so a breach is reproduced by re-running its scenario under its recorded schedule and 300 further seeded schedules",
    ],
    "explanation": "Keystore.tla models the atomic reset in factory mode (per-store durable/unsynced content, phases, buffered concurrent puts, marker flip, teardown, crash at any step) and is model-checked for reset atomicity with three negative controls; the real Keystore and ResettableKeystore (shared and factory mode) run random histories with clean restarts and crashes at chosen journal cuts, and resets whose every datastore access is interleaved with fed keys, concurrent puts, cancellation, Close and crash; TLC validates results, contents after every reopen and sizes against KeystoreTrace.tla. The first of the puts issued during a reset carries one, three or five keys (more than twice the reset buffer's capacity in some scenarios).",
}

PROPS["C09"] = {
    "exhaustive": [
        {"spec": "Server.tla", "cfg": "Server_quick.cfg"},
        {"spec": "Server.tla", "cfg": "Server_thorough.cfg", "tier": "thorough"},
        {"spec": "Server.tla", "cfg": "Server_neg_requester.cfg", "expect": "violation"},
        {"spec": "Server.tla", "cfg": "Server_neg_client.cfg", "expect": "violation"},
        {"spec": "Server.tla", "cfg": "Server_neg_echo.cfg", "expect": "violation"},
    ],
    "drivers": [{"test": "TestServer", "trace_spec": "ServerTrace.tla", "trace_cfg": "ServerTrace.cfg", "inv_cfg": {"C09": "ServerTrace_C09.cfg"}}],
    "assumptions": [
        "requests arrive as framed bytes on an in-memory stream of a hand-written host; the response bytes are decoded by the harness with the repository's protobuf types",
        "the routing table a request is judged against is the table the node reports (RoutingTable().ListPeers()) just before the request, since buckets may refuse peers",
        "one request per stream per case plus one PING from a third peer to establish that the node still serves others",
    ],
    "explanation": "Server.tla states the handler as a function from (node configuration, request class) to response class and TLC enumerates the whole class space against the C09 clauses with three negative controls; the real stream handler of a real DHT is fed random well-formed, malformed, oversized, stuffed and unsupported requests of every type in server and client mode with enabled/disabled value and provider subsystems, and TLC evaluates the same clauses (ServerTrace.tla) on every recorded response, reset, stored record and stored provider. Undefined message types include negative values; a third of the PUT_VALUE cases meet a better record the node already holds (the refusal path).",
}

PROPS["C10"] = {
    "exhaustive": [
        {"spec": "Client.tla", "cfg": "Client_quick.cfg"},
        {"spec": "Client.tla", "cfg": "Client_thorough.cfg", "tier": "thorough"},
        {"spec": "Client.tla", "cfg": "Client_neg_deref.cfg", "expect": "violation"},
        {"spec": "Client.tla", "cfg": "Client_neg_keycheck.cfg", "expect": "violation"},
        {"spec": "Client.tla", "cfg": "Client_neg_cap.cfg", "expect": "violation"},
        {"spec": "Client.tla", "cfg": "Client_neg_timeout.cfg", "expect": "violation"},
    ],
    "drivers": [{"test": "TestClient", "trace_spec": "ClientTrace.tla", "trace_cfg": "ClientTrace.cfg", "inv_cfg": {"C10": "ClientTrace_C10.cfg"}}],
    "assumptions": [
        "the node runs the repository's own message sender over in-memory streams of a hand-written host that, like the libp2p swarm, refuses to dial an empty peer id or itself",
        "each case runs in a child process because a panic in one of the library's goroutines cannot be recovered; a dead child is attributed to the case it was working on and reproduced from that case alone",
        "'permanently blocked' is decided in virtual time: an operation that has not returned after 6 hours, or a bubble in which every goroutine is blocked for ever",
        "the 8 KiB cut is computed independently with proto.Size on copies of the offered records",
    ],
    "explanation": "Client.tla models one RPC step by step (write, wait bounded by timeout and context, one retry on a fresh stream, decode, per-type field checks, cap on what enters the lookup) against a remote that may send any reply of the message space, any transport fault or nothing, and is model-checked for no-panic, error-or-result, foreign-record rejection, the 2K cap and eventual return (liveness) with four negative controls; a real client with the real message sender performs every public operation against scripted peers whose replies are generated over the response schema (every field present/absent/mismatched/oversized, unknown fields and enum values, huge and undecodable peer records, garbage, truncated/oversized/empty frames, reset, EOF, silence, refused streams), and TLC evaluates the clauses of ClientTrace.tla on every outcome, contacted peer, lookup event and peerstore content.",
}

PROPS["C13"] = {
    "exhaustive": [
        {"spec": "Modes.tla", "cfg": "Modes_quick.cfg"},
        {"spec": "Modes.tla", "cfg": "Modes_thorough.cfg", "tier": "thorough", "timeout": 3000},
        {"spec": "Modes.tla", "cfg": "Modes_neg_noreset.cfg", "expect": "violation"},
        {"spec": "Modes.tla", "cfg": "Modes_neg_nomsgcheck.cfg", "expect": "violation"},
        {"spec": "Modes.tla", "cfg": "Modes_neg_noreset_answer.cfg", "expect": "violation"},
        {"spec": "Modes.tla", "cfg": "Modes_neg_nomsgcheck_answer.cfg", "expect": "violation"},
        {"spec": "Modes.tla", "cfg": "Modes_neg_unknown.cfg", "expect": "violation"},
        {"spec": "Modes.tla", "cfg": "Modes_neg_fixed.cfg", "expect": "violation"},
    ],
    "drivers": [{"test": "TestModes", "trace_spec": "ModesTrace.tla", "trace_cfg": "ModesTrace.cfg", "inv_cfg": {"C13": "ModesTrace_C13.cfg"}}],
    "assumptions": [
        "the host delivers an inbound stream in three steps (handler lookup; protocol set on the stream; handler invoked), as go-libp2p's basic host does, and refuses a stream when no handler is registered",
        "the point where a mode switch becomes visible is the library's call to SetStreamHandler / RemoveStreamHandler (made under its mode lock right after the mode variable changes); it is observed there by the hand-written host without any hook in the library",
        "'client mode' for the no-answer clause means settled in client mode: no reachability event in flight and nothing parked; requests racing with a switch may go either way",
        "quiescence while a parked switch holds the mode lock is detected from goroutine states (synctest.Wait cannot be used while goroutines wait for a mutex)",
    ],
    "explanation": "Modes.tla models mode switching step by step (event queue, set-mode / handler (de)registration / snapshot / per-stream reset under the mode lock, the host's three-step stream delivery, the handler's check-read-handle-write loop) and is model-checked for: no request that reaches a node settled in client mode is answered, no inbound stream is still served once settled in client mode, handlers follow the mode, the mode follows the last reachability event and fixed modes never change, with six negative controls; a real DHT node receives reachability events over the host's event bus and inbound streams/requests from a scripted host while its steps towards the host and the datastore are parked and released in chooser-picked order (systematic scenarios explored by DFS over the choice tree, random scenarios under seeded schedules); TLC validates every trace against ModesTrace.tla.",
}

PROPS["C11"] = {
    "exhaustive": [
        {"spec": "Sender.tla", "cfg": "Sender_quick.cfg"},
        {"spec": "Sender.tla", "cfg": "Sender_thorough.cfg", "tier": "thorough", "timeout": 3000, "heap": "24g"},
        {"spec": "Sender.tla", "cfg": "Sender_neg_timeout.cfg", "expect": "violation"},
        {"spec": "Sender.tla", "cfg": "Sender_neg_nolock.cfg", "expect": "violation"},
        {"spec": "Sender.tla", "cfg": "Sender_neg_cancel.cfg", "expect": "violation"},
    ],
    "drivers": [{"test": "TestSender", "trace_spec": "SenderTrace.tla", "trace_cfg": "SenderTrace.cfg", "inv_cfg": {"C11": "SenderTrace_C11.cfg"}}],
    "assumptions": [
        "the sender under test is the object returned by IpfsDHT.MessageSender() of a node built with default options (internal/net); streams are in-memory streams of a hand-written host whose NewStream blocks until the schedule grants or refuses it",
        "the remote is honest about request ids (a reply names the request it answers) but free in timing: now, after the read timeout, never; it may also send garbage, reset or half-close at any point",
        "time is virtual; the read timeout passes only when the schedule advances the clock",
        "the one-stream clause is applied to streams opened by calls that started after the last disconnect notification for that peer (a notification replaces the sender object while an exchange of the old one may still be running)",
    ],
    "explanation": "Sender.tla models concurrent exchanges with one peer (map lookup, context-aware lock, stream creation, write, read bounded by timeout/context, reset-and-drop on any failure, single retry, disconnect replacing the sender object and invalidating the old one) against a remote that answers any outstanding request at any later time or never, and is model-checked for own-reply, serialization and at most one outstanding request per live stream with three negative controls; the real sender is driven by concurrent SendRequest/SendMessage/OnDisconnect calls with every environment step chosen by DFS (small scenarios) or a seeded chooser; TLC validates the wire-level traces against SenderTrace.tla. Every other caller brings a deadline of its own far beyond the read timeout.",
}

PROPS["C16"] = {
    "exhaustive": [
        {"spec": "FullRTSwap.tla", "cfg": "FullRTSwap_fixed.cfg"},
        {"spec": "FullRTSwap.tla", "cfg": "FullRTSwap_neg_sequential.cfg", "expect": "violation"},
        {"spec": "Crawler.tla", "cfg": "Crawler_quick.cfg"},
        {"spec": "Crawler.tla", "cfg": "Crawler_thorough.cfg", "tier": "thorough", "timeout": 3000, "heap": "20g"},
        {"spec": "Crawler.tla", "cfg": "Crawler_neg_dupseed.cfg", "expect": "violation"},
        {"spec": "Crawler.tla", "cfg": "Crawler_neg_seenearly.cfg", "expect": "violation"},
    ],
    "drivers": [{"test": "TestFullRT", "trace_spec": "FullRTTrace.tla", "trace_cfg": "FullRTTrace.cfg", "inv_cfg": {"C16": "FullRTTrace_C16.cfg"}}],
    "assumptions": [
        "the crawl result is installed through the public WithCrawler option by a scripted crawler; the crawled set the result is judged against is what the client reports as its table (Stat), which must contain every scripted peer",
        "IP groups are IPv4 /16 groups assigned by construction (5.g.x.y), never legacy class-A ranges; IPv6/ASN grouping is not exercised",
        "reader/swap interleavings are driven through the verif hook points in fullrt/dht.go (build tag verif)",
        "the crawler runs over a scripted message sender and dialer; every reply order is a choice; the crawler's own stream handling is not part of this check",
        "an operation counts as hung when it has not returned after 2 virtual hours, or when the child process makes no progress for 30 s of real time (a busy loop holds the runtime's clock)",
    ],
    "explanation": "FullRTSwap.tla models the three-lock snapshot (reader and swap lock steps) and Crawler.tla the crawl work list (seeding, dispatch, one result per job, new peers appended) over all small graphs, failing sets and seed lists with repetitions; both are model-checked with negative controls; the real FullRT answers closest-peers queries for random crawled sets with IP groups, K and diversity limits and TLC compares every result with the set-theoretic definition (FullRTTrace.tla); a reader is raced against the installation of a second crawl result under every interleaving of their lock steps; the real DefaultCrawler crawls scripted graphs with failing peers, repeated seeds and any reply order; every public operation runs on an empty or tiny table with construction options missing. Provider searches and value searches of the accelerated client are answered by every peer of its table with scripted providers / records (different records of equal rank included) in every scheduled arrival order, with a slow caller in half of the runs: no provider twice, at most count, only reported ones; the value stream strictly improving, valid, from some peer.",
}

PROPS["C15"] = {
    "exhaustive": [
        {"spec": "Dual.tla", "cfg": "Dual_quick.cfg"},
        {"spec": "Dual.tla", "cfg": "Dual_neg_dedup.cfg", "expect": "violation"},
        {"spec": "Dual.tla", "cfg": "Dual_neg_count.cfg", "expect": "violation"},
        {"spec": "Dual.tla", "cfg": "Dual_neg_writes.cfg", "expect": "violation"},
        {"spec": "Dual.tla", "cfg": "Dual_neg_prefer.cfg", "expect": "violation"},
    ],
    "drivers": [{"test": "TestDual", "trace_spec": "DualTrace.tla", "trace_cfg": "DualTrace.cfg", "inv_cfg": {"C15": "DualTrace_C15.cfg"}}],
    "assumptions": [
        "one hand-written host carries both halves; each half gets its own gated message sender through the public option, which is how an RPC is attributed to a half",
        "addresses are literal representatives of the classes public4, public6, private4, ula6, loopback, relay over a public address, relay over a private address; DNS addresses are not judged",
        "routing tables are filled directly (TryAddPeer) with connected peers; 'WAN active' is read as the WAN table size the harness observes before the call",
        "GetValue: a half's lookup counts as successful when a valid record was delivered to it; which record is the best one is C04's subject",
        "FindPeer: the union is judged as 'everything the shared peerstore holds for the peer when the later half has finished', required exactly when both halves reached the peer themselves",
    ],
    "explanation": "Dual.tla models the provider merge loop step by step (two streams without repetition, found-set, countdown, every arrival order of items and stream ends) and states write routing, value preference and the address-class filters as functions; TLC checks once-per-provider, the count cap and the functions with four negative controls; a real dual.DHT performs provide, put, get, find-peer and find-providers against scripted WAN and LAN peers whose referrals carry every mix of address classes, under every (DFS, provider merge) or seeded arrival order; TLC validates which half sent what to whom, ADD_PROVIDER payloads, results and peerstore content against DualTrace.tla. A third of the provider searches have a caller that reads nothing, cancels once every reply has been delivered and only then looks at the channel; after every other operation has returned the replies still outstanding are delivered, three virtual minutes pass with the caller's context alive and blocked goroutines are counted; in further runs both halves are servers and receive ADD_PROVIDER messages from peers announcing themselves with every address class alone and in random mixtures, and the peerstore is read afterwards.",
}

PROPS["C17"] = {
    "exhaustive": [
        {"spec": "BufferedOps.tla", "cfg": "BufferedOps_quick.cfg"},
        {"spec": "BufferedOps.tla", "cfg": "BufferedOps_thorough.cfg", "tier": "thorough", "timeout": 3000},
        {"spec": "BufferedOps.tla", "cfg": "BufferedOps_neg_once.cfg", "expect": "violation"},
        {"spec": "BufferedOps.tla", "cfg": "BufferedOps_neg_stop.cfg", "expect": "violation"},
        # the reprovide schedule when scheduled prefixes are replaced by a shorter one: as coded (single-key reprovides
        # never widen, a started key may merge) the hard bound of two cycles holds ...
        {"spec": "ScheduleMerge.tla", "cfg": "ScheduleMerge_ascoded.cfg"},
        # ... the documented bound interval + delay does not (known finding D23; must be refuted) ...
        {"spec": "ScheduleMerge.tla", "cfg": "ScheduleMerge_d23.cfg", "expect": "violation"},
        # ... nor did it while single-key reprovides adopted a wider covered prefix (D19, repaired; must be refuted) ...
        {"spec": "ScheduleMerge.tla", "cfg": "ScheduleMerge_d19.cfg", "expect": "violation"},
        # ... it holds without the merge on start, and with both merges if the merged prefix inherited the earliest due time
        {"spec": "ScheduleMerge.tla", "cfg": "ScheduleMerge_nomerge.cfg"},
        {"spec": "ScheduleMerge.tla", "cfg": "ScheduleMerge_inherit.cfg"},
        # where a key handed over *is* until it has been advertised (provide queue, attempts, keystore, Close / restart):
        # nothing owed is ever lost, everything owed is advertised once delivery works (liveness under fairness);
        # the two defects the checks found in the code (D22, D24) are switches of the model and must be refuted
        {"spec": "ProvideWork.tla", "cfg": "ProvideWork_fixed.cfg"},
        {"spec": "ProvideWork.tla", "cfg": "ProvideWork_neg_d22.cfg", "expect": "violation"},
        {"spec": "ProvideWork.tla", "cfg": "ProvideWork_neg_d24.cfg", "expect": "violation"},
    ],
    "drivers": [{"test": "TestSweep", "trace_spec": "SweepTrace.tla", "trace_cfg": "SweepTrace.cfg", "inv_cfg": {"C17": "SweepTrace_C17.cfg"}}],
    "assumptions": [
        "the closest-peers router answers from the simulated swarm with the replication-factor many nearest peers of any key (the DHT lookup the provider is built on returns bucket-size = replication-factor peers), or fails while the node is offline",
        "the network is instantaneous: all work triggered at one virtual instant completes in it; swarm changes, outages and restarts happen at quiescent points; the ADD_PROVIDERs of one key at one instant are one advertisement",
        "after connectivity returns, after delivery works again and after a call the node is given 10 virtual minutes before obligations are checked; the reprovide bound is interval + max delay + 1 minute; after a restart only recipients, addresses and silence after stop are judged",
        "delivery outages are total and end by replacing the unreachable swarm with a disjoint reachable one in one instant, so that no advertisement is half delivered (what the library owes after a partly delivered advertisement is not defined by the property); an undeliverable record costs 10 virtual seconds",
        "a provide-once issued while the provider reports itself offline is not owed (the library's tests pin that it is dropped without error), nor one that was still queued when the provider declared itself offline (the queue is emptied); a key started or left unadvertised in that state is owed its regular slot",
        "where the library ends a swarm exploration early and where it replaces scheduled prefixes by a shorter one is taken from two verif hook points (explore:gaveup, schedule:subsume), so that the two known findings are attributed exactly and every other late or misdirected advertisement is a violation",
        "the provider's random keys (network size estimation) are drawn from a scenario-seeded stream substituted for crypto/rand.Reader so that runs can be repeated; remaining scheduling differences are covered by running a replay four times",
        "the node's address set changes at quiescent points in some runs (one to three addresses); every record is compared byte for byte with the addresses current at the instant it is sent",
        "replication factors 2-5 with swarms of 4-90 peers; behind the buffered wrapper (a quarter of the runs; its queue store survives restarts like the other stores) the same clauses are judged; the dual wrapper is not exercised",
    ],
    "explanation": "BufferedOps.tla models the buffered wrapper's coalescing of a batch of start / forced start / provide-once / stop operations against applying them one by one (same kept set, every advertisement asked for last is queued) for all batches up to length 6 over 2 keys, with two negative controls; a real SweepingProvider (optionally behind the buffered wrapper) runs histories of start/once/stop calls, swarm growth and shrinkage, outages, restarts over several reprovide cycles of virtual time against a router and message sender that answer from a simulated swarm; TLC validates every advertisement (exactly the r nearest peers, current addresses), first advertisement and the reprovide deadline also after connectivity and delivery outages (missed work caught up within ten minutes), and silence after stop against SweepTrace.tla; ScheduleMerge.tla models the reprovide schedule under the two ways scheduled prefixes are replaced by a shorter one; ProvideWork.tla models where a handed-over key is until it has been advertised (provide queue, attempts in flight, keystore, failed attempts, Close with the persisted queue, restart) with the invariant that nothing owed is lost and the liveness property that everything owed is advertised once delivery works, the defects D22 and D24 being switches that TLC refutes.",
}

PROPS["C14"] = {
    "exhaustive": [
        {"spec": "Lifecycle.tla", "cfg": "Lifecycle_quick.cfg"},
        {"spec": "Lifecycle.tla", "cfg": "Lifecycle_neg_nowait.cfg", "expect": "violation"},
        {"spec": "Lifecycle.tla", "cfg": "Lifecycle_neg_ignores.cfg", "expect": "violation"},
        {"spec": "Lifecycle.tla", "cfg": "Lifecycle_neg_second.cfg", "expect": "violation"},
    ],
    "drivers": [{"test": "TestLifecycle", "trace_spec": "LifecycleTrace.tla", "trace_cfg": "LifecycleTrace.cfg", "inv_cfg": {"C14": "LifecycleTrace_C14.cfg"}},
                # Close of the sweeping provider during its network-size measurement: unreachable under virtual time
                # (Close waits on a mutex while the measurement's retry sleeps), run in real time, judged on return only
                {"test": "TestLifecycleRT", "trace_spec": "LifecycleTrace.tla", "trace_cfg": "LifecycleTrace.cfg", "inv_cfg": {"C14": "LifecycleTrace_C14.cfg"}}],
    "assumptions": [
        "a goroutine counts as started by the instance when it is in the bubble after Close, was not there before the instance was built, and is not one of the harness's own (operation and Close callers, scripted host)",
        "operations in flight wait at gated message senders / datastores; the environment eventually answers every parked request (with an error once Close has been called), so an operation that is still running at the end is blocked by the library itself",
        "virtual time: Close or an operation that has not returned after 200 virtual minutes of answered requests counts as hung; a child process that makes no progress for 30 s of real time counts as wedged",
        "constructor failures are provoked through public options only (invalid mode after the stores were started, invalid validator combination, invalid LAN mode in the dual client, failing provider-manager option in the accelerated client, invalid replication factor in the sweeping provider)",
        "the dual provider wrapper and the refresh manager on its own are not exercised (the refresh manager is covered inside the standard client)",
    ],
    "explanation": "Lifecycle.tla models the shutdown protocol the components share (signal, wait for every background goroutine, close what is owned, return; goroutines leave when signalled; operations in flight end; one or two Close calls) and is model-checked for 'nothing runs after Close returned', 'every Close returns' and 'every operation ends' (liveness) with three negative controls; the real standard client (five configurations), dual client, accelerated client, provider manager, value store, keystore, resettable keystore, sweeping provider and buffered wrapper are built, given operations that wait at gated senders and datastores, and closed one to three times at chooser-picked instants; failed constructions are provoked through public options; TLC validates returns, panics and the goroutine census against LifecycleTrace.tla. A keystore's datastore is closed by the harness, as its owner may, once Close has returned (runs without operations): later Close calls must not go back to it. TestLifecycleRT closes the sweeping provider (and the buffered wrapper) in real time while the lookups of its network-size measurement are in flight or in their retry sleep - a window that cannot be entered under virtual time - and is judged only on whether Close returns within 30 s.",
}


def overlay_file(scratch, name):
    """Writes the -overlay json for an internal-package driver (add-only mappings)."""
    p = scratch.path("overlay-%s.json" % name)
    with open(p, "w") as f:
        json.dump({"Replace": OVERLAYS[name]}, f)
    return p


# --------------------------------------------------------------------------
# self-test mutations: corrupt accepted runs so that the property is breached
# --------------------------------------------------------------------------
def read_runs(path, limit_lines=400000):
    runs, cur = [], None
    n = 0
    with open(path) as f:
        for line in f:
            n += 1
            if n > limit_lines:
                break
            ev = json.loads(line)
            if ev.get("e") == "Reset":
                cur = []
                runs.append(cur)
            if cur is not None:
                cur.append(ev)
    return runs


def _find(run, name):
    for i, ev in enumerate(run):
        if ev["e"] == name:
            return i
    return -1


def mut_c01_unsorted(run):
    i = _find(run, "Return")
    if i < 0 or len(run[i].get("peers", [])) < 2 or run[0].get("op") != "gcp":
        return None
    r = copy.deepcopy(run)
    p = r[i]["peers"]
    p[0], p[1] = p[1], p[0]
    return r


def mut_c01_drop_nearest(run):
    i = _find(run, "Return")
    if i < 0 or len(run[i].get("peers", [])) < 1 or run[0].get("op") != "gcp":
        return None
    r = copy.deepcopy(run)
    r[i]["peers"] = r[i]["peers"][1:]
    return r


def mut_c01_resp_event(run):
    """Corrupt a published Response event (one heard peer dropped)."""
    for i, ev in enumerate(run):
        if ev["e"] == "Resp" and ev.get("cause", 0) != 0 and len(ev.get("heard", [])) >= 1:
            r = copy.deepcopy(run)
            r[i]["heard"] = r[i]["heard"][1:]
            return r
    return None


def mut_c02_unasked(run):
    """Remove every Sent line of one returned peer."""
    i = _find(run, "Return")
    if i < 0 or run[0].get("op") != "gcp" or run[i].get("err") != "" or not run[i].get("peers"):
        return None
    if any(ev["e"] == "Cancel" for ev in run):
        return None
    victim = run[i]["peers"][-1]
    r = [copy.deepcopy(ev) for ev in run if not (ev["e"] == "Sent" and ev.get("p") == victim and ev.get("kind") == "req")]
    return r


def mut_c03_noreturn(run):
    i = _find(run, "Return")
    if i < 0:
        return None
    return [copy.deepcopy(ev) for j, ev in enumerate(run) if j != i]


def mut_c03_late_after_cancel(run):
    ic, ir = _find(run, "Cancel"), _find(run, "Return")
    if ic < 0 or ir < 0:
        return None
    r = copy.deepcopy(run)
    r[ir]["ts"] = r[ic]["ts"] + 5000
    return r


def _op(run, *ops):
    return run[0].get("op") in ops


def mut_c04_invalid_emit(run):
    if not _op(run, "searchvalue"):
        return None
    i = _find(run, "Emit")
    if i < 0:
        return None
    r = copy.deepcopy(run)
    r[i]["valid"] = False
    return r


def mut_c04_worse_final(run):
    if not _op(run, "getvalue", "searchvalue") or any(ev["e"] == "Cancel" for ev in run):
        return None
    i = _find(run, "Return")
    if i < 0 or run[i].get("err") != "" or run[i].get("rank", -1) < 1:
        return None
    r = copy.deepcopy(run)
    r[i]["rank"] = 0
    for ev in r:
        if ev["e"] == "Emit":
            ev["rank"] = min(ev["rank"], 0)
    return r


def mut_c06_missing_recipient(run):
    if not _op(run, "putvalue", "provide") or any(ev["e"] == "Cancel" for ev in run):
        return None
    i = _find(run, "Return")
    if i < 0 or run[i].get("err") != "":
        return None
    typ = "PUT_VALUE" if _op(run, "putvalue") else "ADD_PROVIDER"
    victims = [ev["p"] for ev in run if ev["e"] == "Sent" and ev.get("typ") == typ]
    if not victims:
        return None
    return [copy.deepcopy(ev) for ev in run if not (ev["e"] in ("Sent", "Deliver") and ev.get("typ") == typ and ev.get("p") == victims[0])]


def mut_c06_foreign_provider(run):
    if not _op(run, "provide"):
        return None
    for i, ev in enumerate(run):
        if ev["e"] == "Sent" and ev.get("typ") == "ADD_PROVIDER":
            r = copy.deepcopy(run)
            r[i]["provs"] = [0, 3]
            return r
    return None


def mut_c08_unnamed(run):
    if not _op(run, "findprov"):
        return None
    i = _find(run, "Emit")
    if i < 0:
        return None
    r = copy.deepcopy(run)
    r[i]["p"] = 9999
    return r


def mut_c08_dup(run):
    if not _op(run, "findprov"):
        return None
    i = _find(run, "Emit")
    if i < 0:
        return None
    r = copy.deepcopy(run)
    r.insert(i + 1, copy.deepcopy(r[i]))
    return r


def mut_c03_bg(run):
    i = _find(run, "Bg")
    if i < 0:
        return None
    r = copy.deepcopy(run)
    r[i]["n"] = 1
    return r


def mut_c12_stranger(run):
    if "filterno" not in run[0]:
        return None
    n = run[0]["N"]
    qs = [i for i, ev in enumerate(run) if ev["e"] == "Q"]
    if len(qs) < 3:
        return None
    known = set(run[0]["rt"])
    for ev in run:
        if ev["e"] == "Deliver" and ev.get("out") == "ok":
            known.add(ev["p"])
    cand = [p for p in range(1, n + 1) if p not in known]
    if not cand:
        return None
    r = copy.deepcopy(run)
    for i in qs[2:]:
        r[i]["rt"] = sorted(set(r[i]["rt"]) | {cand[0]})
    return r


def mut_c12_self(run):
    if "filterno" not in run[0]:
        return None
    i = _find(run, "Q")
    r = copy.deepcopy(run)
    r[i]["rt"] = [0] + r[i]["rt"]
    return r


def mut_c12_noevict(run):
    """Keep in the table a member that failed a request of a live, uncancelled user lookup."""
    if "filterno" not in run[0]:
        return None
    live = False
    closed = False
    last_q = None
    for i, ev in enumerate(run):
        e = ev["e"]
        if e == "Ext":
            if ev["kind"] == "lookup":
                live = True
            elif ev["kind"] == "cancel":
                live = False
            elif ev["kind"] == "close":
                closed = True
        elif e in ("LTerm", "LookupEnd"):
            live = False
        elif e == "Q":
            last_q = i
        elif e == "Deliver" and live and not closed and ev.get("out") == "fail" and ev.get("cls") == "lookup" \
                and last_q is not None and ev["p"] in run[last_q]["rt"]:
            nq = next((j for j in range(i + 1, len(run)) if run[j]["e"] == "Q"), None)
            if nq is None or ev["p"] in run[nq]["rt"]:
                return None
            r = copy.deepcopy(run)
            r[nq]["rt"] = sorted(set(r[nq]["rt"]) | {ev["p"]})
            return r
    return None


def mut_c12_lost_refresh(run):
    if "filterno" not in run[0]:
        return None
    i = _find(run, "RefreshAns")
    if i < 0:
        return None
    return [copy.deepcopy(ev) for j, ev in enumerate(run) if j != i]


def mut_c05_downgrade(run):
    if "nkeys" not in run[0]:
        return None
    for i, ev in enumerate(run):
        if ev["e"] == "DS" and ev["op"] == "put" and ev.get("class") == "valid" and ev["rank"] >= 1:
            prev = [x for x in run[:i] if x["e"] == "DS" and x["op"] == "put" and x["k"] == ev["k"]]
            r = copy.deepcopy(run)
            r.insert(i + 1, dict(r[i], rank=0))
            r = [x for x in r if x["e"] != "Final"]
            return r
    return None


def mut_c05_invalid_stored(run):
    if "nkeys" not in run[0]:
        return None
    for i, ev in enumerate(run):
        if ev["e"] == "DS" and ev["op"] == "put":
            r = copy.deepcopy(run)
            r[i]["class"] = "invalid"
            return [x for x in r if x["e"] != "Final"]
    return None


def mut_c05_fresh_deleted(run):
    if "nkeys" not in run[0]:
        return None
    for i, ev in enumerate(run):
        if ev["e"] == "DS" and ev["op"] == "put" and ev.get("class") == "valid":
            r = copy.deepcopy(run)
            r.insert(i + 1, dict(r[i], op="delete", found=True))
            return [x for x in r if x["e"] != "Final"]
    return None


def mut_c05_stale_read(run):
    if "nkeys" not in run[0]:
        return None
    for i, ev in enumerate(run):
        if ev["e"] == "Ret" and ev["op"] == "get" and ev.get("class") == "valid":
            r = copy.deepcopy(run)
            r[i]["rank"] = r[i]["rank"] + 7
            return r
    return None


def mut_c07_missing(run):
    """Drop a provider from a query result that no concurrent operation or sweep could excuse."""
    if "cachecap" not in run[0]:
        return None
    if any(ev["e"] in ("AddStart", "GetStart") for ev in run) or any(ev["e"] == "DS" and ev.get("actor") == "gc" and ev.get("op") == "delete" for ev in run):
        return None
    for i, ev in enumerate(run):
        if ev["e"] == "Get" and ev["provs"] and not ev["closed"]:
            r = copy.deepcopy(run)
            r[i]["provs"] = r[i]["provs"][1:]
            return r
    return None


def mut_c07_stranger(run):
    if "cachecap" not in run[0]:
        return None
    for i, ev in enumerate(run):
        if ev["e"] == "Get" and not ev["closed"] and len(ev["provs"]) < run[0]["np"]:
            r = copy.deepcopy(run)
            missing = [p for p in range(run[0]["np"]) if p not in ev["provs"]]
            r[i]["provs"] = sorted(r[i]["provs"] + missing[:1])
            return r
    return None


def mut_c07_afterclose(run):
    if "cachecap" not in run[0]:
        return None
    i = _find(run, "End")
    r = copy.deepcopy(run)
    r.insert(i, {"e": "DS", "actor": "gc", "op": "query", "k": -1, "p": -1, "afterclose": True, "ts": r[i]["ts"]})
    return r


def mut_c19_order(run):
    if run[0].get("bits") is None:
        return None
    for i, ev in enumerate(run):
        if ev["e"] == "Op" and len(ev["order"]) >= 2:
            r = copy.deepcopy(run)
            r[i]["order"] = [r[i]["order"][1], r[i]["order"][0]] + r[i]["order"][2:]
            return r
    return None


def mut_c19_lostkey(run):
    if run[0].get("bits") is None:
        return None
    for i, ev in enumerate(run):
        if ev["e"] == "Op" and ev["op"] == "enq" and len(ev["qkeys"]) >= 1:
            r = copy.deepcopy(run)
            r[i]["qkeys"] = r[i]["qkeys"][1:]
            r[i]["size"] = len(r[i]["qkeys"])
            return r
    return None


def mut_c19_deq(run):
    if run[0].get("bits") is None:
        return None
    for i, ev in enumerate(run):
        if ev["e"] == "Op" and ev["op"] == "deq" and ev["retok"] and len(ev["retkeys"]) >= 1:
            r = copy.deepcopy(run)
            r[i]["retkeys"] = r[i]["retkeys"][1:]
            return r
    return None


def mut_c19_reprov(run):
    if run[0].get("bits") is None:
        return None
    for i, ev in enumerate(run):
        if ev["e"] == "Op" and len(ev["rorder"]) >= 2:
            r = copy.deepcopy(run)
            r[i]["rorder"] = list(reversed(r[i]["rorder"]))
            return r
    return None


def _ks(run, f):
    return len(run) > 1 and run[1].get("f") == f


def mut_c18_alloc(run):
    if not _ks(run, "alloc"):
        return None
    r = copy.deepcopy(run)
    for o in r[1]["out"]:
        if o["items"]:
            o["items"] = o["items"][1:]
            return r
    return None


def mut_c18_gaps(run):
    if not _ks(run, "gaps") or not run[1]["out"]:
        return None
    r = copy.deepcopy(run)
    r[1]["out"] = r[1]["out"][1:]
    return r


def mut_c18_regions(run):
    if not _ks(run, "regions") or len(run[1]["out"]) < 2:
        return None
    r = copy.deepcopy(run)
    r[1]["out"] = r[1]["out"][1:]
    return r


def mut_c18_next(run):
    if not _ks(run, "next") or len(run[1]["tr"]) < 3 or not run[1]["out"]:
        return None
    r = copy.deepcopy(run)
    others = [x for x in r[1]["tr"] if x != r[1]["out"][0] and x != r[1]["k"]]
    if not others:
        return None
    r[1]["out"] = [others[0]]
    return r


def mut_c20_size(run):
    if "prefixbits" not in run[0]:
        return None
    for i, ev in enumerate(run):
        if ev["e"] == "Size":
            r = copy.deepcopy(run)
            r[i]["n"] += 1
            return r
    return None


def mut_c20_put(run):
    if "prefixbits" not in run[0]:
        return None
    for i, ev in enumerate(run):
        if ev["e"] == "Put" and ev["err"] == "" and ev["new"] and not ev["during"]:
            r = copy.deepcopy(run)
            r[i]["new"] = r[i]["new"][1:]
            r[i]["nnew"] = len(r[i]["new"])
            return r
    return None


def mut_c20_reopen(run):
    if "prefixbits" not in run[0]:
        return None
    for i, ev in enumerate(run):
        if ev["e"] == "Reopen" and ev["content"]:
            r = copy.deepcopy(run)
            r[i]["content"] = r[i]["content"][1:]
            r[i]["ndup"] = len(r[i]["content"])
            r[i]["size"] = len(r[i]["content"])
            return r
    return None


def mut_c20_get(run):
    if "prefixbits" not in run[0]:
        return None
    for i, ev in enumerate(run):
        if ev["e"] == "Get" and ev["ret"]:
            r = copy.deepcopy(run)
            r[i]["ret"] = r[i]["ret"][1:]
            r[i]["nret"] = len(r[i]["ret"])
            return r
    return None


def _c09_case(run):
    for i, ev in enumerate(run):
        if ev["e"] == "Case":
            return i, ev
    return -1, None


def mut_c09_requester(run):
    i, ev = _c09_case(run)
    if ev is None or not ev["closer"] or ev["reqrank"] not in ev["rt"]:
        return None
    r = copy.deepcopy(run)
    x = copy.deepcopy(ev["closer"][0])
    x.update({"r": ev["reqrank"], "req": True, "target": False, "inrt": True})
    r[i]["closer"] = sorted(r[i]["closer"] + [x], key=lambda c: c["r"])
    return r


def mut_c09_client_answers(run):
    i, ev = _c09_case(run)
    if ev is None or ev["mode"] != "client":
        return None
    r = copy.deepcopy(run)
    r[i]["reset"] = False
    r[i]["nmsgs"] = 1
    r[i]["rtype"] = ev["typ"] if ev["typ"] != "UNKNOWN" else "PING"
    return r


def mut_c09_unsorted(run):
    i, ev = _c09_case(run)
    if ev is None or len(ev["closer"]) < 2:
        return None
    r = copy.deepcopy(run)
    r[i]["closer"] = list(reversed(ev["closer"]))
    return r


def mut_c09_omit_nearest(run):
    i, ev = _c09_case(run)
    if ev is None or len(ev["closer"]) < 1 or ev["typ"] == "FIND_NODE":
        return None
    r = copy.deepcopy(run)
    r[i]["closer"] = ev["closer"][1:]
    return r


def mut_c09_foreign_provider(run):
    i, ev = _c09_case(run)
    if ev is None or ev["typ"] != "ADD_PROVIDER" or ev["storedother"]:
        return None
    r = copy.deepcopy(run)
    r[i]["storedother"] = True
    return r


def mut_c09_put_mismatch(run):
    i, ev = _c09_case(run)
    if ev is None or ev["typ"] != "PUT_VALUE" or ev["rec"] not in ("mismatch", "invalid") or ev["storedval"]:
        return None
    r = copy.deepcopy(run)
    r[i]["storedval"] = "V1"
    return r


def mut_c09_dead(run):
    i, ev = _c09_case(run)
    if ev is None or not ev["alive"]:
        return None
    r = copy.deepcopy(run)
    r[i]["alive"] = False
    return r


def _c10_case(run):
    for i, ev in enumerate(run):
        if ev["e"] == "Case":
            return i, ev
    return -1, None


def mut_c10_crash(run):
    i, ev = _c10_case(run)
    if ev is None or ev["crashed"]:
        return None
    r = copy.deepcopy(run)
    r[i]["crashed"] = True
    r[i]["panic"] = "panic: injected"
    return r


def mut_c10_hang(run):
    i, ev = _c10_case(run)
    if ev is None or ev["hang"]:
        return None
    r = copy.deepcopy(run)
    r[i]["hang"] = True
    r[i]["returned"] = False
    return r


def mut_c10_foreign_value(run):
    i, ev = _c10_case(run)
    if ev is None or ev["op"] not in ("getvalue", "searchvalue"):
        return None
    r = copy.deepcopy(run)
    r[i]["values"] = ev["values"] + ["V91"]
    return r


def mut_c10_cap(run):
    i, ev = _c10_case(run)
    if ev is None or ev["maxheard"] < 1:
        return None
    r = copy.deepcopy(run)
    r[i]["maxheard"] = 2 * ev["K"] + 1
    return r


def mut_c10_beyond(run):
    i, ev = _c10_case(run)
    if ev is None or not ev["contacted"]:
        return None
    r = copy.deepcopy(run)
    r[i]["contacted"] = ev["contacted"] + [{"l": "L1.%d" % (2 * ev["K"] + 1), "kind": "L", "owner": 1, "idx": 2 * ev["K"] + 1}]
    return r


def mut_c10_extra(run):
    i, ev = _c10_case(run)
    if ev is None or ev["extraaddrs"]:
        return None
    r = copy.deepcopy(run)
    r[i]["extraaddrs"] = [{"l": "L1.1", "extra": 3, "offered": 300}]
    return r


def mut_c13_late_answer(run):
    # a request that arrived at a node settled in client mode gets a response
    if run[0].get("cfg") is None:
        return None
    mode_client = run[0]["cfg"] in ("auto", "client")
    settled = True
    nreq = {}
    for i, ev in enumerate(run):
        if ev["e"] == "Emit":
            settled = False
        elif ev["e"] == "Settle":
            settled = True
            mode_client = not ev["handlers"]
        elif ev["e"] == "Req":
            nreq[ev["s"]] = ev["n"]
            if settled and mode_client:
                r = copy.deepcopy(run)
                r.insert(i + 1, {"e": "Wrote", "s": ev["s"], "n": ev["n"], "t": ev["t"]})
                return r
    return None


def mut_c13_lost_switch(run):
    if run[0].get("cfg") is None:
        return None
    for i, ev in enumerate(run):
        if ev["e"] == "Switch":
            r = copy.deepcopy(run)
            del r[i]
            return r
    return None


def mut_c13_stream_left_open(run):
    if run[0].get("cfg") is None:
        return None
    for i, ev in enumerate(run):
        if ev["e"] == "Settle" and not ev["handlers"]:
            for j, st in enumerate(ev["streams"]):
                if st["invoked"] and st["finished"]:
                    r = copy.deepcopy(run)
                    r[i]["streams"][j]["finished"] = False
                    return r
    return None


def mut_c13_handlers(run):
    if run[0].get("cfg") is None:
        return None
    for i, ev in enumerate(run):
        if ev["e"] == "Settle":
            r = copy.deepcopy(run)
            r[i]["handlers"] = not ev["handlers"]
            return r
    return None


def mut_c13_unanswered(run):
    if run[0].get("cfg") is None:
        return None
    settled = "server" if run[0]["handlers"] else "client"
    clean = set()
    for i, ev in enumerate(run):
        if ev["e"] == "Emit":
            settled, clean = "none", set()
        elif ev["e"] == "Lookup" and settled == "server" and ev["accepted"]:
            clean.add(ev["s"])
        elif ev["e"] == "Settle":
            for j, st in enumerate(ev["streams"]):
                if st["s"] in clean and st["invoked"] and not st["finished"] and st["nreq"] > 0 and st["nresp"] == st["nreq"]:
                    r = copy.deepcopy(run)
                    r[i]["streams"][j]["nresp"] = st["nreq"] - 1
                    return r
            settled = "server" if ev["handlers"] else "client"
    return None


def _c11(run):
    return "ncalls" in run[0]


def mut_c11_crossed(run):
    if not _c11(run):
        return None
    oks = [i for i, ev in enumerate(run) if ev["e"] == "Return" and ev["ok"] and ev["replyto"]]
    if len(oks) < 2:
        return None
    r = copy.deepcopy(run)
    a, b = oks[0], oks[1]
    r[a]["replyto"], r[b]["replyto"] = run[b]["replyto"], run[a]["replyto"]
    return r


def mut_c11_late_success(run):
    # a failed request is reported as a success
    if not _c11(run):
        return None
    kinds = {ev["id"]: ev["kind"] for ev in run if ev["e"] == "Call"}
    replied = {ev["id"] for ev in run if ev["e"] == "Reply"}
    for i, ev in enumerate(run):
        if ev["e"] == "Return" and not ev["ok"] and kinds.get(ev["id"]) == "req" and ev["id"] not in replied:
            r = copy.deepcopy(run)
            r[i]["ok"], r[i]["replyto"], r[i]["err"] = True, ev["id"], ""
            return r
    return None


def mut_c11_pipelined(run):
    # a second request is read on a stream that still has one outstanding
    if not _c11(run):
        return None
    for i, ev in enumerate(run):
        if ev["e"] == "Recv" and ev["kind"] == "req":
            r = copy.deepcopy(run)
            r.insert(i + 1, {"e": "Recv", "sid": ev["sid"], "id": 9, "kind": "req", "t": ev["t"]})
            return r
    return None


def mut_c11_reuse(run):
    # a request is read on a stream after an exchange on it timed out
    if not _c11(run):
        return None
    out = {}
    for i, ev in enumerate(run):
        if ev["e"] == "Recv" and ev["kind"] == "req":
            out[ev["sid"]] = ev["id"]
        elif ev["e"] == "Reply":
            out.pop(ev["sid"], None)
        elif ev["e"] == "Advance" and out:
            sid = sorted(out)[0]
            r = copy.deepcopy(run)
            r.insert(i + 1, {"e": "Reply", "sid": sid, "id": out[sid], "t": ev["t"]})
            r.insert(i + 2, {"e": "Recv", "sid": sid, "id": 9, "kind": "req", "t": ev["t"]})
            return r
    return None


def mut_c11_not_reset(run):
    if not _c11(run):
        return None
    failed = set()
    out = {}
    for i, ev in enumerate(run):
        if ev["e"] == "Recv" and ev["kind"] == "req":
            out[ev["sid"]] = ev["id"]
        elif ev["e"] == "Reply":
            out.pop(ev["sid"], None)
        elif ev["e"] == "Advance":
            failed |= set(out)
        elif ev["e"] == "Quiesce":
            for j, st in enumerate(ev["streams"]):
                if st["sid"] in failed and st["localreset"]:
                    r = copy.deepcopy(run)
                    r[i]["streams"][j]["localreset"] = False
                    return r
    return None


def mut_c11_two_streams(run):
    if not _c11(run):
        return None
    for i, ev in enumerate(run):
        if ev["e"] == "StreamOpen" and ev["fresh"]:
            # is it still open at the next event? insert a second fresh stream right away
            r = copy.deepcopy(run)
            r.insert(i + 1, {"e": "StreamOpen", "p": ev["p"], "sid": 39, "fresh": True, "t": ev["t"]})
            return r
    return None


def _c16(run, kind):
    return run[0].get("kind") == kind


def mut_c16_unsorted(run):
    if not _c16(run, "closest"):
        return None
    for i, ev in enumerate(run):
        if ev["e"] == "Closest" and len(ev["result"]) >= 2:
            r = copy.deepcopy(run)
            r[i]["result"][0], r[i]["result"][1] = ev["result"][1], ev["result"][0]
            return r
    return None


def mut_c16_not_nearest(run):
    # limit disabled: dropping the nearest peer breaks exactness
    if not _c16(run, "closest") or run[0]["limit"] != 0:
        return None
    for i, ev in enumerate(run):
        if ev["e"] == "Closest" and len(ev["result"]) >= 1:
            r = copy.deepcopy(run)
            r[i]["result"] = ev["result"][1:]
            return r
    return None


def mut_c16_stranger(run):
    if not _c16(run, "closest"):
        return None
    for i, ev in enumerate(run):
        if ev["e"] == "Closest" and len(ev["result"]) >= 1 and len(ev["result"]) < run[0]["K"]:
            r = copy.deepcopy(run)
            r[i]["result"] = ev["result"] + [len(ev["rankof"]) + 5]
            return r
    return None


def mut_c16_group(run):
    # a result that exceeds the per-group limit: put a same-group peer in
    if not _c16(run, "closest") or run[0]["limit"] == 0:
        return None
    groups = run[0]["groups"]
    lim = run[0]["limit"]
    for i, ev in enumerate(run):
        if ev["e"] != "Closest":
            continue
        peer_of = {rk: j for j, rk in enumerate(ev["rankof"])}
        for g in {x for gs in groups for x in gs}:
            members = sorted(rk for rk, j in peer_of.items() if g in groups[j])
            if len(members) > lim and lim + 1 <= run[0]["K"]:
                r = copy.deepcopy(run)
                r[i]["result"] = members[: lim + 1]
                return r
    return None


def mut_c16_crawl_twice(run):
    if not _c16(run, "crawl"):
        return None
    for i, ev in enumerate(run):
        if ev["e"] == "Crawl":
            for p, c in enumerate(ev["connects"]):
                if c == 1:
                    r = copy.deepcopy(run)
                    r[i]["connects"][p] = 2
                    return r
    return None


def mut_c16_no_outcome(run):
    if not _c16(run, "crawl"):
        return None
    for i, ev in enumerate(run):
        if ev["e"] == "Crawl":
            for p, c in enumerate(ev["connects"]):
                if c == 1:
                    r = copy.deepcopy(run)
                    r[i]["ok"][p], r[i]["fail"][p] = 0, 0
                    return r
    return None


def mut_c16_unreached(run):
    if not _c16(run, "crawl"):
        return None
    for i, ev in enumerate(run):
        if ev["e"] == "Crawl":
            for p, c in enumerate(ev["connects"]):
                if c == 1:
                    r = copy.deepcopy(run)
                    r[i]["connects"][p], r[i]["ok"][p], r[i]["fail"][p] = 0, 0, 0
                    return r
    return None


def mut_c16_op_panic(run):
    if not _c16(run, "ops"):
        return None
    for i, ev in enumerate(run):
        if ev["e"] == "Op" and ev["panic"] == "":
            r = copy.deepcopy(run)
            r[i]["panic"] = "injected"
            return r
    return None


def mut_c16_swap_mix(run):
    # the racing reader returns the peers common to both crawls only
    if not _c16(run, "swap"):
        return None
    a, b, rankof, K = set(run[0]["a"]), set(run[0]["b"]), run[0]["rankof"], run[0]["K"]
    common = sorted(rankof[i - 1] for i in a & b)[:K]
    na = sorted(rankof[i - 1] for i in a)[:K]
    nb = sorted(rankof[i - 1] for i in b)[:K]
    if common == na or common == nb or run[0]["limit"] != 0:
        return None
    for i, ev in enumerate(run):
        if ev["e"] == "SwapResult":
            r = copy.deepcopy(run)
            r[i]["result"] = common
            return r
    return None


def _c15(run):
    return "wanrt" in run[0]


def mut_c15_wrong_half(run):
    if not _c15(run) or run[0]["op"] not in ("provide", "putvalue"):
        return None
    for i, ev in enumerate(run):
        if ev["e"] == "Sent":
            r = copy.deepcopy(run)
            r[i]["net"] = "lan" if ev["net"] == "wan" else "wan"
            return r
    return None


def mut_c15_lan_preferred(run):
    if not _c15(run) or run[0]["op"] != "getvalue":
        return None
    wan = {ev["val"] for ev in run if ev["e"] == "Deliver" and ev["net"] == "wan" and not ev["fail"] and ev["val"].startswith("V")}
    if not wan:
        return None
    for i, ev in enumerate(run):
        if ev["e"] == "Return":
            r = copy.deepcopy(run)
            r[i]["value"] = "V29"
            return r
    return None


def mut_c15_dup_provider(run):
    if not _c15(run) or run[0]["op"] != "findprov":
        return None
    for i, ev in enumerate(run):
        if ev["e"] == "Return" and ev["emitted"] and (run[0]["count"] == 0 or len(ev["emitted"]) < run[0]["count"]):
            r = copy.deepcopy(run)
            r[i]["emitted"] = ev["emitted"] + [ev["emitted"][0]]
            return r
    return None


def mut_c15_over_count(run):
    if not _c15(run) or run[0]["op"] != "findprov" or run[0]["count"] == 0:
        return None
    for i, ev in enumerate(run):
        if ev["e"] == "Return" and len(ev["emitted"]) == run[0]["count"]:
            extra = [x for x in run[0]["offeredprovs"] if x not in ev["emitted"]]
            if extra:
                r = copy.deepcopy(run)
                r[i]["emitted"] = ev["emitted"] + [extra[0]]
                return r
    return None


def mut_c15_private_referral(run):
    if not _c15(run):
        return None
    for i, ev in enumerate(run):
        if ev["e"] == "Sent" and ev["net"] == "wan" and ev["isref"]:
            r = copy.deepcopy(run)
            r[i]["refclasses"] = ["private4", "relaypublic"]
            return r
    return None


def mut_c15_stored_private(run):
    if not _c15(run):
        return None
    for i, ev in enumerate(run):
        if ev["e"] == "Peerstore":
            for j, x in enumerate(ev["learned"]):
                if x["net"] == "wan" and "private4" in x["offered"]:
                    r = copy.deepcopy(run)
                    r[i]["learned"][j]["stored"] = sorted(set(x["stored"]) | {"private4"})
                    return r
    return None


def mut_c15_advertised_loopback(run):
    if not _c15(run):
        return None
    for i, ev in enumerate(run):
        if ev["e"] == "Sent" and ev["typ"] == "ADD_PROVIDER":
            r = copy.deepcopy(run)
            r[i]["payload"] = ev["payload"] + ["loopback"]
            return r
    return None


def mut_c15_union(run):
    if not _c15(run) or run[0]["op"] != "findpeer":
        return None
    asked = {ev["net"] for ev in run if ev["e"] == "Sent" and ev["p"] == "T"}
    if asked != {"wan", "lan"}:
        return None
    for i, ev in enumerate(run):
        if ev["e"] == "Return" and len(ev["addrs"]) >= 1:
            r = copy.deepcopy(run)
            r[i]["addrs"] = ev["addrs"][1:]
            return r
    return None


def _c17(run):
    return "nkeys" in run[0] and "interval" in run[0]


def _c17_batches(run):
    """indices of Send events grouped by (ts, k) for instants without failed sends or gave-up lookups"""
    groups = {}
    for i, ev in enumerate(run):
        if ev["e"] == "Send":
            groups.setdefault((ev["ts"], ev["k"]), []).append(i)
    return groups


def mut_c17_wrong_recipient(run):
    if not _c17(run):
        return None
    for i, ev in enumerate(run):
        if ev["e"] == "Send":
            r = copy.deepcopy(run)
            r[i]["p"] = run[0]["npeers"] + 7
            return r
    return None


def mut_c17_missing_recipient(run):
    if not _c17(run) or run[0]["r"] < 2:
        return None
    for (ts, k), idx in _c17_batches(run).items():
        if len(idx) >= 2 and not any(ev["e"] == "SendFail" and ev["ts"] == ts for ev in run):
            r = copy.deepcopy(run)
            del r[idx[0]]
            return r
    return None


def mut_c17_never_reprovided(run):
    # all advertisements of one kept key after its first instant are dropped
    if not _c17(run):
        return None
    kept = set()
    for ev in run:
        if ev["e"] == "Start":
            kept |= set(ev["keys"])
        if ev["e"] in ("Stop", "Restart", "Offline"):
            return None if not kept else _drop_later(run, sorted(kept)[0])
    return _drop_later(run, sorted(kept)[0]) if kept else None


def _drop_later(run, k):
    first = None
    out = []
    dropped = 0
    for ev in run:
        if ev["e"] == "Send" and ev["k"] == k:
            if first is None:
                first = ev["ts"]
            if ev["ts"] != first:
                dropped += 1
                continue
        out.append(copy.deepcopy(ev))
    return out if dropped else None


def mut_c17_not_caught_up(run):
    # after connectivity returned, a kept key is never advertised again
    if not _c17(run):
        return None
    kept = set()
    for i, ev in enumerate(run):
        if ev["e"] == "Start":
            kept |= set(ev["keys"])
        if ev["e"] in ("Stop", "Restart"):
            return None
        if ev["e"] == "Online" and kept:
            k = sorted(kept)[0]
            out = [copy.deepcopy(e) for j, e in enumerate(run) if not (j > i and e["e"] == "Send" and e["k"] == k)]
            return out if len(out) < len(run) else None
    return None


def mut_c17_stopped_readvertised(run):
    if not _c17(run):
        return None
    for i, ev in enumerate(run):
        if ev["e"] == "Stop" and ev["keys"]:
            k = ev["keys"][0]
            later = [e for e in run[i + 1:] if e["e"] in ("Start", "Once") and k in e["keys"]]
            if later:
                continue
            r = copy.deepcopy(run)
            ts = ev["ts"] + run[0]["interval"] + run[0]["maxdelay"] + 500
            # put it before the End event, at a later instant than everything else
            last_ts = max([e.get("ts", 0) for e in run])
            ts = max(ts, last_ts + 1)
            r.insert(len(r) - 1, {"e": "Send", "k": k, "p": 1, "ts": ts, "typ": "ADD_PROVIDER", "addrsok": True, "near": True, "t": ev["t"]})
            return r
    return None


def mut_c17_stale_addrs(run):
    if not _c17(run):
        return None
    for i, ev in enumerate(run):
        if ev["e"] == "Send":
            r = copy.deepcopy(run)
            r[i]["addrsok"] = False
            return r
    return None


def _c14(run):
    return "comp" in run[0]


def mut_c14_left(run):
    if not _c14(run):
        return None
    for i, ev in enumerate(run):
        if ev["e"] == "Quiesce":
            r = copy.deepcopy(run)
            r[i]["left"] = ["select @ github.com/libp2p/go-libp2p-kad-dht.(*IpfsDHT).rtPeerLoop <- sync.(*WaitGroup).Go"]
            return r
    return None


def mut_c14_close_hangs(run):
    if not _c14(run):
        return None
    for i, ev in enumerate(run):
        if ev["e"] == "CloseEnd":
            r = copy.deepcopy(run)
            del r[i]
            return r
    return None


def mut_c14_op_hangs(run):
    if not _c14(run):
        return None
    for i, ev in enumerate(run):
        if ev["e"] == "OpEnd":
            r = copy.deepcopy(run)
            del r[i]
            return r
    return None


def mut_c14_op_panics(run):
    if not _c14(run):
        return None
    for i, ev in enumerate(run):
        if ev["e"] == "OpEnd":
            r = copy.deepcopy(run)
            r[i]["panic"] = "send on closed channel"
            return r
    return None


def mut_c14_constructor_leak(run):
    if not _c14(run):
        return None
    for i, ev in enumerate(run):
        if ev["e"] == "Construct" and ev["err"] != "":
            r = copy.deepcopy(run)
            r[i]["left"] = ["select @ records.(*ProviderManager).gcLoop"]
            return r
    return None


def mut_c14_subscription_leak(run):
    if not _c14(run):
        return None
    for i, ev in enumerate(run):
        if ev["e"] == "Quiesce" and not ev["pending"]:
            r = copy.deepcopy(run)
            r[i]["subsleft"] = 1
            return r
    return None


MUTATIONS = {
    "C14": [mut_c14_left, mut_c14_close_hangs, mut_c14_op_hangs, mut_c14_op_panics, mut_c14_constructor_leak, mut_c14_subscription_leak],
    "C17": [mut_c17_wrong_recipient, mut_c17_missing_recipient, mut_c17_never_reprovided, mut_c17_not_caught_up, mut_c17_stopped_readvertised, mut_c17_stale_addrs],
    "C15": [mut_c15_wrong_half, mut_c15_lan_preferred, mut_c15_dup_provider, mut_c15_over_count, mut_c15_private_referral, mut_c15_stored_private, mut_c15_advertised_loopback, mut_c15_union],
    "C16": [mut_c16_unsorted, mut_c16_not_nearest, mut_c16_stranger, mut_c16_group, mut_c16_crawl_twice, mut_c16_no_outcome, mut_c16_unreached, mut_c16_op_panic, mut_c16_swap_mix],
    "C11": [mut_c11_crossed, mut_c11_late_success, mut_c11_pipelined, mut_c11_reuse, mut_c11_not_reset, mut_c11_two_streams],
    "C13": [mut_c13_late_answer, mut_c13_lost_switch, mut_c13_stream_left_open, mut_c13_handlers, mut_c13_unanswered],
    "C10": [mut_c10_crash, mut_c10_hang, mut_c10_foreign_value, mut_c10_cap, mut_c10_beyond, mut_c10_extra],
    "C09": [mut_c09_requester, mut_c09_client_answers, mut_c09_unsorted, mut_c09_omit_nearest, mut_c09_foreign_provider, mut_c09_put_mismatch, mut_c09_dead],
    "C01": [mut_c01_unsorted, mut_c01_drop_nearest, mut_c01_resp_event],
    "C02": [mut_c02_unasked],
    "C03": [mut_c03_noreturn, mut_c03_late_after_cancel, mut_c03_bg],
    "C04": [mut_c04_invalid_emit, mut_c04_worse_final],
    "C06": [mut_c06_missing_recipient, mut_c06_foreign_provider],
    "C08": [mut_c08_unnamed, mut_c08_dup],
    "C05": [mut_c05_downgrade, mut_c05_invalid_stored, mut_c05_fresh_deleted, mut_c05_stale_read],
    "C07": [mut_c07_missing, mut_c07_stranger, mut_c07_afterclose],
    "C18": [mut_c18_alloc, mut_c18_gaps, mut_c18_regions, mut_c18_next],
    "C20": [mut_c20_size, mut_c20_put, mut_c20_reopen, mut_c20_get],
    "C19": [mut_c19_order, mut_c19_lostkey, mut_c19_deq, mut_c19_reprov],
    "C12": [mut_c12_stranger, mut_c12_self, mut_c12_noevict, mut_c12_lost_refresh],
}


def mut_ev_foreign_heard(run):
    """EventsTrace: a response event attributes a peer its cause never named."""
    named = {}
    for ev in run:
        if ev["e"] == "Deliver" and ev.get("kind") == "req" and ev.get("out") == "ok":
            named.setdefault(ev["p"], set()).update(ev.get("closer", []))
    for i, ev in enumerate(run):
        if ev["e"] == "Resp" and ev.get("cause", 0) != 0 and ev.get("queried"):
            r = copy.deepcopy(run)
            r[i]["heard"] = list(r[i].get("heard", [])) + [9999]
            return r
    return None


def mut_ev_merged(run):
    """EventsTrace: two response events merged into one (the second cause speaks for both)."""
    idx = [i for i, ev in enumerate(run) if ev["e"] == "Resp" and ev.get("cause", 0) != 0 and ev.get("queried")]
    if len(idx) < 2:
        return None
    a, b = idx[0], idx[1]
    r = copy.deepcopy(run)
    r[b]["queried"] = list(r[a]["queried"]) + list(r[b]["queried"])
    r[b]["heard"] = list(r[a].get("heard", [])) + list(r[b].get("heard", []))
    del r[a]
    return r


DRIVER_MUTATIONS = {"TestLookupEvents": [mut_ev_foreign_heard, mut_ev_merged]}


def selftest_mutations(prop, drv, trace_path):
    fns = DRIVER_MUTATIONS.get(drv.get("test")) or MUTATIONS.get(prop, [])
    if not fns:
        return []
    runs = read_runs(trace_path, 60000)
    out = []
    for fn in fns:
        got = 0
        for run in runs:
            m = fn(run)
            if m is not None:
                out.append((fn.__name__, m))
                got += 1
                if got >= 6:
                    break
    return out
