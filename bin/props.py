"""Per-property configuration of bin/check."""
import copy
import json
import os

import vlib

LOOKUP_NEG = [
    {"spec": "Lookup.tla", "cfg": "Lookup_neg_unreach.cfg", "expect": "violation", "timeout": 300},
    {"spec": "Lookup.tla", "cfg": "Lookup_neg_beta.cfg", "expect": "violation", "timeout": 300},
    {"spec": "Lookup.tla", "cfg": "Lookup_neg_spawn.cfg", "expect": "violation", "timeout": 300},
]
LOOKUP_EX = [
    {"spec": "Lookup.tla", "cfg": "Lookup_quick.cfg", "timeout": 900},
    {"spec": "Lookup.tla", "cfg": "Lookup_filter.cfg", "timeout": 900},
    {"spec": "Lookup.tla", "cfg": "Lookup_thorough.cfg", "tier": "thorough", "timeout": 3600, "heap": "24g"},
] + LOOKUP_NEG


def dht_driver(test, **kw):
    d = {"test": test, "trace_spec": "DhtTrace.tla", "trace_cfg": "DhtTrace.cfg",
         "inv_cfg": {p: "DhtTrace_%s.cfg" % p for p in ("C01", "C02", "C03", "C04", "C06", "C08")}}
    d.update(kw)
    return d


PROPS = {
    "C01": {
        "exhaustive": LOOKUP_EX,
        "drivers": [dht_driver("TestLookupGCP")],
        "assumptions": [
            "network, dialer and clock are simulated (FakeHost + gated message sender under testing/synctest)",
            "peer ranks (XOR distance order to the key) are computed by the harness from sha256, independently of go-libp2p-kbucket / qpeerset",
            "the routing-table library's NearestPeers is cross-checked (seed event = K nearest of ListPeers) but otherwise trusted",
            "deliveries are released one at a time and the run is quiescent between them, so 'processed' = delivered while the search phase ran",
        ],
        "explanation": "TLC exhaustively checks Lookup.tla (implementation-shaped) for the C01 invariants; real GetClosestPeers runs (exhaustive delivery orders on small networks, seeded random on larger ones) are validated by TLC against DhtTrace.tla with the C01 clauses.",
    },
}


def overlay_file(scratch, spec):
    return None


# --------------------------------------------------------------------------
# self-test mutations: corrupt accepted runs so that the property is breached
# --------------------------------------------------------------------------
def read_runs(path, limit_lines=400000):
    runs, cur = [], None
    n = 0
    with open(path) as f:
        for line in f:
            n += 1
            if n > limit_lines:
                break
            ev = json.loads(line)
            if ev.get("e") == "Reset":
                cur = []
                runs.append(cur)
            if cur is not None:
                cur.append(ev)
    return runs


def _find(run, name):
    for i, ev in enumerate(run):
        if ev["e"] == name:
            return i
    return -1


def mut_c01_unsorted(run):
    i = _find(run, "Return")
    if i < 0 or len(run[i].get("peers", [])) < 2 or run[0].get("op") != "gcp":
        return None
    r = copy.deepcopy(run)
    p = r[i]["peers"]
    p[0], p[1] = p[1], p[0]
    return r


def mut_c01_drop_nearest(run):
    i = _find(run, "Return")
    if i < 0 or len(run[i].get("peers", [])) < 1 or run[0].get("op") != "gcp":
        return None
    r = copy.deepcopy(run)
    r[i]["peers"] = r[i]["peers"][1:]
    return r


def mut_c01_resp_event(run):
    """Corrupt a published Response event (one heard peer dropped)."""
    for i, ev in enumerate(run):
        if ev["e"] == "Resp" and ev.get("cause", 0) != 0 and len(ev.get("heard", [])) >= 1:
            r = copy.deepcopy(run)
            r[i]["heard"] = r[i]["heard"][1:]
            return r
    return None


def mut_c02_unasked(run):
    """Remove every Sent line of one returned peer."""
    i = _find(run, "Return")
    if i < 0 or run[0].get("op") != "gcp" or run[i].get("err") != "" or not run[i].get("peers"):
        return None
    if any(ev["e"] == "Cancel" for ev in run):
        return None
    victim = run[i]["peers"][-1]
    r = [copy.deepcopy(ev) for ev in run if not (ev["e"] == "Sent" and ev.get("p") == victim and ev.get("kind") == "req")]
    return r


def mut_c03_noreturn(run):
    i = _find(run, "Return")
    if i < 0:
        return None
    return [copy.deepcopy(ev) for j, ev in enumerate(run) if j != i]


def mut_c03_late_after_cancel(run):
    ic, ir = _find(run, "Cancel"), _find(run, "Return")
    if ic < 0 or ir < 0:
        return None
    r = copy.deepcopy(run)
    r[ir]["ts"] = r[ic]["ts"] + 5000
    return r


MUTATIONS = {
    "C01": [mut_c01_unsorted, mut_c01_drop_nearest, mut_c01_resp_event],
    "C02": [mut_c02_unasked],
    "C03": [mut_c03_noreturn, mut_c03_late_after_cancel],
}


def selftest_mutations(prop, drv, trace_path):
    fns = MUTATIONS.get(prop, [])
    if not fns:
        return []
    runs = read_runs(trace_path, 60000)
    out = []
    for fn in fns:
        got = 0
        for run in runs:
            m = fn(run)
            if m is not None:
                out.append(m)
                got += 1
                if got >= 3:
                    break
    return out
