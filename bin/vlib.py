"""Shared runner library for /verif/bin/check.

Pipeline of one check:
  TLC exhaustive (design spec + negative controls)
  -> build harness against /repo's working tree (tag verif)
  -> drive the real code, record ndjson traces
  -> TLC trace validation (property-level trace spec)  => VIOL lines
  -> replay each offending run from its replay descriptor and re-validate with the
     property INVARIANT; only a reproduced breach is a VIOLATION (exit 1)
  -> evidence/<id>.json
Exit codes: 0 held, 1 violation (reproduced, not a listed known finding), 2 inconclusive.
"""
import hashlib
import json
import os
import re
import shutil
import subprocess
import sys
import tempfile
import time

VERIF = os.path.dirname(os.path.dirname(os.path.abspath(__file__)))
# The registered checks always decide /repo's working tree. VERIF_REPO is a developer switch used only to try a
# seeded change on a scratch worktree while /repo itself is busy (bin/trymutant2); it is never set by MANIFEST commands.
REPO = os.environ.get("VERIF_REPO", "/repo")
SPEC = os.path.join(VERIF, "spec")
HARNESS = os.path.join(VERIF, "harness")
SCRATCH_ROOT = os.path.join(VERIF, ".scratch")
NCPU = os.cpu_count() or 4


class Inconclusive(Exception):
    pass


def log(*a):
    print(*a, flush=True)


def goenv():
    env = dict(os.environ)
    env["GOFLAGS"] = "-mod=mod"
    env["GOPROXY"] = "off"
    env.pop("GOSUMDB", None)
    env.setdefault("GOTOOLCHAIN", "auto")
    return env


def run(cmd, cwd=None, env=None, timeout=None, stdout_path=None):
    """Run a command; returns (rc, output). rc=124 on timeout."""
    t0 = time.time()
    try:
        if stdout_path:
            with open(stdout_path, "wb") as f:
                p = subprocess.run(cmd, cwd=cwd, env=env, stdout=f, stderr=subprocess.STDOUT, timeout=timeout)
            out = open(stdout_path, "r", errors="replace").read()
        else:
            p = subprocess.run(cmd, cwd=cwd, env=env, stdout=subprocess.PIPE, stderr=subprocess.STDOUT, timeout=timeout)
            out = p.stdout.decode("utf-8", "replace")
        return p.returncode, out, time.time() - t0
    except subprocess.TimeoutExpired as e:
        out = (e.stdout or b"").decode("utf-8", "replace") if not stdout_path else open(stdout_path, "r", errors="replace").read()
        return 124, out, time.time() - t0


class Scratch:
    def __init__(self, name, keep=False):
        os.makedirs(SCRATCH_ROOT, exist_ok=True)
        self.dir = tempfile.mkdtemp(prefix=name + "-", dir=SCRATCH_ROOT)
        self.keep = keep

    def path(self, *p):
        return os.path.join(self.dir, *p)

    def cleanup(self):
        if not self.keep:
            shutil.rmtree(self.dir, ignore_errors=True)


# --------------------------------------------------------------------------
# TLC
# --------------------------------------------------------------------------
TLC_JAR = "/opt/veriftools/tla/tla2tools.jar:/opt/veriftools/tla/CommunityModules-deps.jar"


def tlc(scratch, spec, cfg, workers=None, timeout=600, env_extra=None, extra=None, heap=None, tag=None):
    """Run TLC on spec/cfg inside a private copy of the spec directory."""
    tag = tag or (os.path.splitext(cfg)[0])
    wd = scratch.path("tlc-" + tag)
    os.makedirs(wd, exist_ok=True)
    for f in os.listdir(SPEC):
        if f.endswith(".tla") or f.endswith(".cfg"):
            shutil.copy(os.path.join(SPEC, f), wd)
    env = dict(os.environ)
    if env_extra:
        env.update(env_extra)
    cmd = ["java", "-XX:+UseParallelGC", "-Xss64m"]
    if heap:
        cmd.append("-Xmx" + heap)
    cmd += ["-cp", TLC_JAR, "tlc2.TLC", "-workers", str(workers or NCPU), "-metadir", os.path.join(wd, "md"),
            "-noGenerateSpecTE", "-config", cfg]
    if extra:
        cmd += extra
    cmd.append(spec)
    rc, out, dt = run(cmd, cwd=wd, env=env, timeout=timeout, stdout_path=os.path.join(wd, "out.txt"))
    res = {"spec": spec, "cfg": cfg, "rc": rc, "wall_s": round(dt, 2), "out": out}
    m = re.search(r"(\d+) states generated, (\d+) distinct states found, (\d+) states left on queue", out)
    if m:
        res["generated"], res["distinct"], res["queue"] = int(m.group(1)), int(m.group(2)), int(m.group(3))
    m = re.search(r"The depth of the complete state graph search is (\d+)", out)
    if m:
        res["depth"] = int(m.group(1))
    res["ok"] = ("Model checking completed. No error has been found." in out) and rc == 0
    res["violated"] = re.findall(r"Error: Invariant (\S+) is violated", out) + \
        re.findall(r"Error: Temporal properties were violated", out) + \
        re.findall(r"Error: Temporal property (\S+) was violated", out) + \
        re.findall(r"Error: The invariant of (\S+) is equal to FALSE", out) + \
        re.findall(r"Error: Action property (\S+)", out) + \
        (["deadlock"] if "Error: Deadlock reached" in out else [])
    res["timeout"] = rc == 124
    shutil.rmtree(os.path.join(wd, "md"), ignore_errors=True)
    return res


def tlc_exhaustive(scratch, runs, tier):
    """runs: list of dicts(spec,cfg,tier,expect='ok'|'violation',...). Returns summary list.
    A design-level failure is code independent -> Inconclusive."""
    out = []
    for r in runs:
        if r.get("tier", "quick") == "thorough" and tier != "thorough":
            continue
        if r.get("only") and r["only"] != tier:
            continue
        res = tlc(scratch, r["spec"], r["cfg"], workers=r.get("workers"), timeout=r.get("timeout", 900),
                  extra=r.get("extra"), heap=r.get("heap"))
        expect = r.get("expect", "ok")
        entry = {k: res.get(k) for k in ("spec", "cfg", "generated", "distinct", "depth", "wall_s", "ok", "violated")}
        entry["expect"] = expect
        out.append(entry)
        if res["timeout"]:
            raise Inconclusive("TLC timeout on %s/%s" % (r["spec"], r["cfg"]))
        if expect == "ok" and not res["ok"]:
            tail = "\n".join(res["out"].splitlines()[-40:])
            raise Inconclusive("design spec %s/%s does not pass TLC (code independent):\n%s" % (r["spec"], r["cfg"], tail))
        if expect == "violation" and not res["violated"]:
            raise Inconclusive("negative control %s/%s was NOT refuted by TLC: the invariant is vacuous" % (r["spec"], r["cfg"]))
        log("  TLC %-28s %-34s %s distinct=%s depth=%s %.1fs" % (r["spec"], r["cfg"],
            "refuted(as expected)" if expect == "violation" else "ok", res.get("distinct"), res.get("depth"), res["wall_s"]))
    return out


# --------------------------------------------------------------------------
# Go harness
# --------------------------------------------------------------------------
def build_drivers(scratch, pkg="./drivers", overlay=None, tags="verif", name="drivers.test", cwd=None):
    cwd = cwd or HARNESS
    if cwd == "/repo":
        cwd = REPO
    modfile = None
    if cwd == HARNESS:
        if REPO == "/repo":
            shutil.copy(os.path.join(REPO, "go.sum"), os.path.join(HARNESS, "go.sum"))
        else:
            # scratch worktree: an alternative module file with the replace directive pointing at it
            modfile = scratch.path("go.alt.mod")
            with open(os.path.join(HARNESS, "go.mod")) as f:
                gm = f.read().replace("=> /repo", "=> " + REPO)
            with open(modfile, "w") as f:
                f.write(gm)
            shutil.copy(os.path.join(REPO, "go.sum"), scratch.path("go.alt.sum"))
    out = scratch.path(name)
    cmd = ["go", "test", "-c", "-vet=off", "-tags", tags, "-o", out]
    if modfile:
        cmd += ["-modfile", modfile]
    if overlay:
        if REPO != "/repo":
            with open(overlay) as f:
                ov = f.read().replace('"/repo/', '"' + REPO + '/')
            overlay = overlay + ".alt.json"
            with open(overlay, "w") as f:
                f.write(ov)
        cmd += ["-overlay", overlay]
    cmd.append(pkg)
    rc, o, dt = run(cmd, cwd=cwd, env=goenv(), timeout=1500)
    if rc != 0:
        raise Inconclusive("harness does not build against /repo (API changed?):\n" + "\n".join(o.splitlines()[-30:]))
    log("  built %s in %.1fs" % (name, dt))
    return out


def run_driver(scratch, binary, test, seed, tier, out, extra_env=None, timeout=None, replay=None):
    timeout = timeout or (420 if tier == 'quick' else 5400)
    env = goenv()
    env.update({"VERIF_SEED": str(seed), "VERIF_TIER": tier, "VERIF_OUT": out, "GOLOG_LOG_LEVEL": "error",
                "VERIF_SUMMARY": out + ".summary.json"})
    if replay:
        env["VERIF_REPLAY"] = replay
    else:
        env.pop("VERIF_REPLAY", None)
    if extra_env:
        env.update(extra_env)
    cmd = [binary, "-test.run", "^" + test + "$", "-test.count=1", "-test.timeout", str(timeout) + "s"]
    rc, o, dt = run(cmd, cwd=scratch.dir, env=env, timeout=timeout + 60, stdout_path=out + ".log")
    return rc, o, dt


def read_summary(out):
    try:
        return json.load(open(out + ".summary.json"))
    except Exception:
        return None


def load_replays(out):
    m = {}
    p = out + ".replays.ndjson"
    if os.path.exists(p):
        for line in open(p):
            try:
                d = json.loads(line)
                m[d["t"]] = d["replay"]
            except Exception:
                pass
    return m


# --------------------------------------------------------------------------
# Trace validation
# --------------------------------------------------------------------------
VIOL_RE = re.compile(r'VIOL (\d+) (\d+) (\{.*\})')


def parse_viol(out):
    """Returns list of (run, line, [(prop, clause), ...])."""
    res = []
    for m in VIOL_RE.finditer(out.replace('\\"', '"')):
        clauses = re.findall(r'<<"([A-Z]\d+)", "([^"]+)">>', m.group(3))
        res.append((int(m.group(1)), int(m.group(2)), clauses))
    return res


def validate_traces(scratch, spec, cfg, trace_file, workers=None, timeout=1800, tag=None):
    res = tlc(scratch, spec, cfg, workers=workers or min(NCPU, 8), timeout=timeout,
              env_extra={"VERIF_TRACE": trace_file}, tag=tag or ("trace-" + os.path.splitext(cfg)[0]))
    if res["timeout"]:
        raise Inconclusive("TLC timeout validating traces")
    res["viol"] = parse_viol(res["out"])
    # accepted = all lines consumed and TLC finished without evaluation errors
    res["accepted"] = res["ok"]
    return res


def count_lines(path):
    n = 0
    with open(path, "rb") as f:
        for _ in f:
            n += 1
    return n


# --------------------------------------------------------------------------
# Known findings
# --------------------------------------------------------------------------
def load_known():
    p = os.path.join(VERIF, "known_findings.json")
    if not os.path.exists(p):
        return []
    return json.load(open(p)).get("findings", [])


def match_known(prop, clauses, replay, known):
    """A violation (set of clause ids + its replay descriptor) is known iff a
    finding with status 'known' lists every one of its clauses and all key/value
    pairs of its 'where' filter are found in the replay's scenario."""
    for k in known:
        if k.get("property") != prop or k.get("status") != "known":
            continue
        if not clauses or not (set(clauses) <= set(k.get("clauses", []))):
            continue
        where = k.get("where", {})
        sc = (replay or {}).get("scenario", replay or {}) or {}
        if all(sc.get(a) == b for a, b in where.items()):
            return k
    return None


# --------------------------------------------------------------------------
# Evidence
# --------------------------------------------------------------------------
def write_evidence(prop, ev):
    if REPO != "/repo" or os.environ.get("VERIF_NO_EVIDENCE"):
        return None   # a developer run (scratch worktree, or a seeded change applied to /repo by bin/trymutant) leaves no evidence
    os.makedirs(os.path.join(VERIF, "evidence"), exist_ok=True)
    p = os.path.join(VERIF, "evidence", prop + ".json")
    with open(p, "w") as f:
        json.dump(ev, f, indent=1, default=str)
    # the latest thorough run is kept beside it (evidence/<id>.json is rewritten by every run, also by quick ones)
    if ev.get("tier") == "thorough":
        os.makedirs(os.path.join(VERIF, "evidence", "thorough"), exist_ok=True)
        with open(os.path.join(VERIF, "evidence", "thorough", prop + ".json"), "w") as f:
            json.dump(ev, f, indent=1, default=str)
    return p


def sha(s):
    return hashlib.sha1(s.encode()).hexdigest()[:10]
