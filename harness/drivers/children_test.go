package drivers

import (
	"bufio"
	"bytes"
	"encoding/json"
	"fmt"
	"os"
	"os/exec"
	"strings"
	"sync"
	"testing"
)

// ---------------------------------------------------------------------------
// Child processes: a driver may spread its jobs over child processes of the
// same test binary, for parallelism (every child runs its bubbles alone) and
// for isolation (a panic in one of the library's own goroutines kills only
// the child; the parent attributes it to the job the child was working on).
// ---------------------------------------------------------------------------

type childLine struct {
	Idx int             `json:"idx"`
	Res json.RawMessage `json:"res"`
}

// childMain is the body of a child test: it runs the jobs of its slice.
func childMain(t *testing.T, run func(idx int, job json.RawMessage) any) {
	in := os.Getenv("VERIF_CHILD_JOBS")
	if in == "" {
		t.Skip("child process of a driver")
	}
	var jobs []json.RawMessage
	if err := readJSON(in, &jobs); err != nil {
		t.Fatal(err)
	}
	var from, step, off int
	fmt.Sscanf(os.Getenv("VERIF_CHILD_SLICE"), "%d,%d,%d", &from, &step, &off)
	resPath := os.Getenv("VERIF_CHILD_RESULTS")
	f, err := os.OpenFile(resPath, os.O_CREATE|os.O_WRONLY|os.O_APPEND, 0o644)
	if err != nil {
		t.Fatal(err)
	}
	defer f.Close()
	for i := from; i < len(jobs); i++ {
		if i%step != off {
			continue
		}
		_ = os.WriteFile(resPath+".cur", []byte(fmt.Sprint(i)), 0o644)
		res, _ := json.Marshal(run(i, jobs[i]))
		b, _ := json.Marshal(childLine{Idx: i, Res: res})
		f.Write(append(b, '\n'))
	}
}

// runChildren runs all jobs in `workers` child processes executing childTest
// and returns the raw result per job. onCrash produces the result of a job
// whose child died (nil = report the death as a harness problem).
func runChildren(t *testing.T, e Env, childTest string, jobs any, n int, workers int, onCrash func(idx int, output string) any) []json.RawMessage {
	jobsPath := e.Out + ".jobs.json"
	if err := writeJSON(jobsPath, jobs); err != nil {
		t.Fatal(err)
	}
	defer os.Remove(jobsPath)
	if workers > n {
		workers = n
	}
	results := make([]json.RawMessage, n)
	var wg sync.WaitGroup
	var mu sync.Mutex
	for w := 0; w < workers; w++ {
		wg.Add(1)
		go func(w int) {
			defer wg.Done()
			resPath := fmt.Sprintf("%s.child%d.ndjson", e.Out, w)
			defer os.Remove(resPath)
			defer os.Remove(resPath + ".cur")
			from := 0
			for restarts := 0; restarts < 400; restarts++ {
				os.Remove(resPath)
				os.Remove(resPath + ".cur")
				cmd := exec.Command(os.Args[0], "-test.run", "^"+childTest+"$", "-test.count=1", "-test.timeout=120m")
				cmd.Env = append(os.Environ(), "VERIF_CHILD_JOBS="+jobsPath, "VERIF_CHILD_RESULTS="+resPath,
					fmt.Sprintf("VERIF_CHILD_SLICE=%d,%d,%d", from, workers, w))
				var output bytes.Buffer
				cmd.Stdout = &output
				cmd.Stderr = &output
				runErr := cmd.Run()
				last := -1
				if f, err := os.Open(resPath); err == nil {
					sc := bufio.NewScanner(f)
					sc.Buffer(make([]byte, 1<<20), 1<<29)
					for sc.Scan() {
						var l childLine
						if json.Unmarshal(sc.Bytes(), &l) == nil {
							mu.Lock()
							results[l.Idx] = l.Res
							mu.Unlock()
							last = l.Idx
						}
					}
					f.Close()
				}
				if runErr == nil {
					return
				}
				cur := -1
				if b, err := os.ReadFile(resPath + ".cur"); err == nil {
					fmt.Sscanf(string(b), "%d", &cur)
				}
				var res any
				if cur >= 0 && cur > last && onCrash != nil {
					res = onCrash(cur, output.String())
				}
				if res == nil {
					t.Errorf("child %d of %s died: %v\n%s", w, childTest, runErr, tail(output.String(), 3000))
					return
				}
				b, _ := json.Marshal(res)
				mu.Lock()
				results[cur] = b
				mu.Unlock()
				from = cur + 1
			}
		}(w)
	}
	wg.Wait()
	return results
}

func tail(s string, n int) string {
	if len(s) > n {
		return s[len(s)-n:]
	}
	return s
}

// crashLine extracts the panic message and the first library frame from a dead child's output.
func crashLine(s string) string {
	lines := strings.Split(s, "\n")
	msg := ""
	for i, l := range lines {
		if strings.HasPrefix(l, "panic:") || strings.HasPrefix(l, "fatal error:") {
			msg = l
			for _, m := range lines[i:] {
				if (strings.Contains(m, "go-libp2p-kad-dht") || strings.HasPrefix(strings.TrimSpace(m), "/repo/")) && strings.Contains(m, ".go:") {
					f := strings.TrimSpace(m)
					if j := strings.LastIndex(f, "/"); j >= 0 {
						f = f[j+1:]
					}
					if k := strings.Index(f, " "); k >= 0 {
						f = f[:k]
					}
					return msg + " @ " + f
				}
			}
			break
		}
	}
	if msg == "" {
		msg = "child process died: " + tail(strings.TrimSpace(s), 200)
	}
	return msg
}
