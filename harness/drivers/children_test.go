package drivers

import (
	"time"

	"verifharness/sim"
	"bufio"
	"bytes"
	"encoding/json"
	"fmt"
	"os"
	"os/exec"
	"strings"
	"sync"
	"testing"
)

// ---------------------------------------------------------------------------
// Child processes: a driver may spread its jobs over child processes of the
// same test binary, for parallelism (every child runs its bubbles alone) and
// for isolation (a panic in one of the library's own goroutines kills only
// the child; the parent attributes it to the job the child was working on).
// ---------------------------------------------------------------------------

type childLine struct {
	Idx int             `json:"idx"`
	Res json.RawMessage `json:"res"`
}

type childCur struct {
	Idx  int             `json:"idx"`
	N    int             `json:"n"`
	Info json.RawMessage `json:"info"`
}

// childMain is the body of a child test: it runs the jobs of its slice. run
// may call progress before each run of a job with what is needed to repeat
// that run (it is handed to onCrash if the child dies or stalls there).
func childMain(t *testing.T, run func(idx int, job json.RawMessage, progress func(info any)) any) {
	in := os.Getenv("VERIF_CHILD_JOBS")
	if in == "" {
		t.Skip("child process of a driver")
	}
	var jobs []json.RawMessage
	if err := readJSON(in, &jobs); err != nil {
		t.Fatal(err)
	}
	var from, step, off int
	fmt.Sscanf(os.Getenv("VERIF_CHILD_SLICE"), "%d,%d,%d", &from, &step, &off)
	resPath := os.Getenv("VERIF_CHILD_RESULTS")
	f, err := os.OpenFile(resPath, os.O_CREATE|os.O_WRONLY|os.O_APPEND, 0o644)
	if err != nil {
		t.Fatal(err)
	}
	defer f.Close()
	for i := from; i < len(jobs); i++ {
		if i%step != off {
			continue
		}
		n := 0
		progress := func(info any) {
			n++
			ib, _ := json.Marshal(info)
			b, _ := json.Marshal(childCur{Idx: i, N: n, Info: ib})
			_ = os.WriteFile(resPath+".cur.tmp", b, 0o644)
			_ = os.Rename(resPath+".cur.tmp", resPath+".cur")
		}
		progress(nil)
		res, _ := json.Marshal(run(i, jobs[i], progress))
		b, _ := json.Marshal(childLine{Idx: i, Res: res})
		f.Write(append(b, '\n'))
	}
}

// runChildren runs all jobs in `workers` child processes executing childTest
// and returns the raw result per job. onCrash produces the result of a job
// whose child died or made no progress for stallSeconds of wall-clock time
// (nil = report it as a harness problem).
const stallSeconds = 30
const maxStallsPerWorker = 3

func runChildren(t *testing.T, e Env, childTest string, jobs any, n int, workers int, onCrash func(idx int, info json.RawMessage, output string, stalled bool) any) []json.RawMessage {
	jobsPath := e.Out + ".jobs.json"
	if err := writeJSON(jobsPath, jobs); err != nil {
		t.Fatal(err)
	}
	defer os.Remove(jobsPath)
	if workers > n {
		workers = n
	}
	results := make([]json.RawMessage, n)
	var wg sync.WaitGroup
	var mu sync.Mutex
	for w := 0; w < workers; w++ {
		wg.Add(1)
		go func(w int) {
			defer wg.Done()
			resPath := fmt.Sprintf("%s.child%d.ndjson", e.Out, w)
			defer os.Remove(resPath)
			defer os.Remove(resPath + ".cur")
			defer os.Remove(resPath + ".cur.tmp")
			from := 0
			stalls := 0
			for restarts := 0; restarts < 400; restarts++ {
				os.Remove(resPath)
				os.Remove(resPath + ".cur")
				cmd := exec.Command(os.Args[0], "-test.run", "^"+childTest+"$", "-test.count=1", "-test.timeout=120m")
				cmd.Env = append(os.Environ(), "VERIF_CHILD_JOBS="+jobsPath, "VERIF_CHILD_RESULTS="+resPath,
					fmt.Sprintf("VERIF_CHILD_SLICE=%d,%d,%d", from, workers, w))
				var output bytes.Buffer
				cmd.Stdout = &output
				cmd.Stderr = &output
				runErr := cmd.Start()
				stalled := false
				if runErr == nil {
					exited := make(chan error, 1)
					go func() { exited <- cmd.Wait() }()
					lastCur, lastChange := "", time.Now()
				wait:
					for {
						select {
						case runErr = <-exited:
							break wait
						case <-time.After(2 * time.Second):
							b, _ := os.ReadFile(resPath + ".cur")
							if string(b) != lastCur {
								lastCur, lastChange = string(b), time.Now()
							} else if time.Since(lastChange) > stallSeconds*time.Second {
								stalled = true
								_ = cmd.Process.Kill()
								runErr = <-exited
								break wait
							}
						}
					}
				}
				last := -1
				if f, err := os.Open(resPath); err == nil {
					sc := bufio.NewScanner(f)
					sc.Buffer(make([]byte, 1<<20), 1<<29)
					for sc.Scan() {
						var l childLine
						if json.Unmarshal(sc.Bytes(), &l) == nil {
							mu.Lock()
							results[l.Idx] = l.Res
							mu.Unlock()
							last = l.Idx
						}
					}
					f.Close()
				}
				if runErr == nil {
					return
				}
				cur := -1
				var cc childCur
				if b, err := os.ReadFile(resPath + ".cur"); err == nil && json.Unmarshal(b, &cc) == nil {
					cur = cc.Idx
				}
				var res any
				if cur >= 0 && cur > last && onCrash != nil {
					res = onCrash(cur, cc.Info, output.String(), stalled)
				}
				if res == nil {
					t.Errorf("child %d of %s died: %v\n%s", w, childTest, runErr, tail(output.String(), 3000))
					return
				}
				b, _ := json.Marshal(res)
				mu.Lock()
				results[cur] = b
				mu.Unlock()
				from = cur + 1
				if stalled {
					// every stall costs real time: after a few the rest of this worker's share is skipped
					stalls++
					if stalls >= maxStallsPerWorker {
						return
					}
				}
			}
		}(w)
	}
	wg.Wait()
	return results
}

func tail(s string, n int) string {
	if len(s) > n {
		return s[len(s)-n:]
	}
	return s
}

// crashLine extracts the panic message and the first library frame from a dead child's output.
func crashLine(s string) string {
	lines := strings.Split(s, "\n")
	msg := ""
	for i, l := range lines {
		if strings.HasPrefix(l, "panic:") || strings.HasPrefix(l, "fatal error:") {
			msg = l
			for _, m := range lines[i:] {
				if (strings.Contains(m, "go-libp2p-kad-dht") || strings.HasPrefix(strings.TrimSpace(m), "/repo/")) && strings.Contains(m, ".go:") {
					f := strings.TrimSpace(m)
					if j := strings.LastIndex(f, "/"); j >= 0 {
						f = f[j+1:]
					}
					if k := strings.Index(f, " "); k >= 0 {
						f = f[:k]
					}
					return msg + " @ " + f
				}
			}
			break
		}
	}
	if msg == "" {
		msg = "child process died: " + tail(strings.TrimSpace(s), 200)
	}
	return msg
}

// ---------------------------------------------------------------------------
// Scheduled jobs: a scenario run under a DFS over its choice tree, a seeded
// random chooser, or a recorded choice sequence.
// ---------------------------------------------------------------------------

type schedJob struct {
	Sc      json.RawMessage `json:"sc"`
	Tree    bool            `json:"tree"`
	PerTree int             `json:"pertree"`
	Seed    int64           `json:"seed"`
	Replay  bool            `json:"replay"`
	Choices []int           `json:"choices"`
}

type schedResult struct {
	Evs       []sim.Ev `json:"evs"`
	Choices   []int    `json:"choices"`
	Exhausted bool     `json:"exhausted"`
}

// schedInfo is what is needed to repeat the run a child was working on.
type schedInfo struct {
	Choices []int `json:"choices,omitempty"` // a prefix; beyond it the first option is taken
	Seed    int64 `json:"seed,omitempty"`
	Random  bool  `json:"random,omitempty"`
}

func runSchedJob(j *schedJob, progress func(any), run func(ch sim.Chooser) []sim.Ev) []schedResult {
	out := []schedResult{}
	switch {
	case j.Replay && j.Choices == nil && j.Seed != 0:
		ch := sim.NewRandomChooser(j.Seed)
		progress(schedInfo{Seed: j.Seed, Random: true})
		out = append(out, schedResult{run(ch), ch.Taken(), false})
	case j.Replay:
		ch := &sim.ReplayChooser{Seq: j.Choices}
		progress(schedInfo{Choices: j.Choices})
		out = append(out, schedResult{run(ch), ch.Taken(), false})
	case j.Tree:
		dfs := &sim.DFS{}
		for k := 0; k < j.PerTree; k++ {
			progress(schedInfo{Choices: dfs.Prefix()})
			evs := run(dfs)
			out = append(out, schedResult{evs, dfs.Taken(), false})
			if !dfs.Next() {
				out[len(out)-1].Exhausted = true
				break
			}
		}
	default:
		ch := sim.NewRandomChooser(j.Seed)
		progress(schedInfo{Seed: j.Seed, Random: true})
		out = append(out, schedResult{run(ch), ch.Taken(), false})
	}
	return out
}

// schedReplayOf turns the progress info of a dead child into a replay descriptor.
func schedReplayOf(sc any, info json.RawMessage) map[string]any {
	var si schedInfo
	_ = json.Unmarshal(info, &si)
	rp := map[string]any{"scenario": sc}
	if si.Random {
		rp["seed"] = si.Seed
	} else {
		if si.Choices == nil {
			si.Choices = []int{}
		}
		rp["choices"] = si.Choices
	}
	return rp
}
