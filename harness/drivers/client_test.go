package drivers

import (
	"context"
	"encoding/binary"
	"encoding/json"
	"fmt"
	"math/rand"
	"sort"
	"strings"
	"sync"
	"testing"
	"testing/synctest"
	"time"

	"github.com/ipfs/go-cid"
	ds "github.com/ipfs/go-datastore"
	dssync "github.com/ipfs/go-datastore/sync"
	dht "github.com/libp2p/go-libp2p-kad-dht"
	pb "github.com/libp2p/go-libp2p-kad-dht/pb"
	record "github.com/libp2p/go-libp2p-record"
	recpb "github.com/libp2p/go-libp2p-record/pb"
	"github.com/libp2p/go-libp2p/core/network"
	"github.com/libp2p/go-libp2p/core/peer"
	"github.com/libp2p/go-libp2p/core/protocol"
	"github.com/libp2p/go-libp2p/core/routing"
	ma "github.com/multiformats/go-multiaddr"
	mh "github.com/multiformats/go-multihash"
	"google.golang.org/protobuf/proto"

	"verifharness/sim"
)

// ---------------------------------------------------------------------------
// C10: a real DHT client with the repository's own message sender
// (internal/net) talks over in-memory streams to scripted remote peers whose
// replies are drawn from the whole response space: every field present,
// absent, mismatched or oversized, raw garbage, truncated or oversized frames,
// resets, EOF and silence.
// ---------------------------------------------------------------------------

// CliResp is the class of replies one remote peer gives.
type CliResp struct {
	Kind     string   `json:"kind"` // msg | unknownfields | bytes | garbageframe | oversize | zeroframe | silence | partial | partialeof | reset | eof | nostream | nodial
	Type     string   `json:"type"` // same | other | unknown
	Key      string   `json:"key"`  // same | none | other
	Rec      string   `json:"rec"`  // none | match | otherkey | emptykey | novalue | invalid
	NCloser  int      `json:"ncloser"`
	Closer   []string `json:"closer"` // flavours of the closer-peer entries, cycled
	NearTail int      `json:"neartail"` // entries nearest to the key appended after the NCloser farther ones
	NProv    int      `json:"nprov"`
	Prov     []string `json:"prov"`
	Level    int      `json:"level"` // raw cluster level
	// Echo is the class of the reply to PUT_VALUE ("" = echo the request)
	Echo string `json:"echo"` // "" | norecord | othervalue | novalue | otherkey | othertype | empty | garbage | silence | reset
}

// CliCase is one operation of a client against scripted peers.
type CliCase struct {
	Seed    int64     `json:"seed"`
	Op      string    `json:"op"` // ping | gcp | findpeer | getvalue | searchvalue | putvalue | provide | findprov | getpubkey
	K       int       `json:"K"`
	N       int       `json:"N"`
	Resp    []CliResp `json:"resp"`    // per routing-table peer (index = rank - 1)
	Learned string    `json:"learned"` // behaviour of peers learned from replies: empty | silence | reset | nodial
}

const cliProto = protocol.ID("/verifcli/kad/1.0.0")
const cliMaxRec = 8192

type cliPeerInfo struct {
	label   string // "R<rank>" routing-table peer, "L<r>.<j>" j-th closer peer listed by R<r>, "P<r>.<j>" provider entry
	owner   int
	idx     int
	allowed map[string]bool // addresses that may be learned for it (after the 8 KiB cut, decodable only)
	offered int
}

type cliEnv struct {
	sc       *CliCase
	mu       sync.Mutex
	self     peer.ID
	h        *sim.FakeHost
	d        *dht.IpfsDHT
	key      string
	cid      cid.Cid
	target   peer.ID
	rt       []peer.ID // by rank
	info     map[peer.ID]*cliPeerInfo
	lists    map[int][]*pb.Message_Peer // closer list of responder r
	provs    map[int][]*pb.Message_Peer
	streams  []*sim.FakeStream
	contacted map[string]bool
	requests int
	r        *rand.Rand
}

func cliHugeAddrs(n, tag int) [][]byte {
	out := make([][]byte, n)
	for i := range out {
		out[i] = ma.StringCast(fmt.Sprintf("/dns4/%s%d-%d/tcp/1", strings.Repeat("b", 200), tag, i)).Bytes()
	}
	return out
}

// cliCut returns the addresses of a peer record that survive the 8 KiB bound:
// the longest prefix of the address list with which the record (id, addresses,
// connection flag) serializes within 8192 bytes. Computed with proto.Size on
// copies, independently of the library's own sizing.
func cliCut(p *pb.Message_Peer) [][]byte {
	m := len(p.Addrs)
	for m > 0 {
		c := &pb.Message_Peer{Id: p.Id, Addrs: p.Addrs[:m], Connection: p.Connection}
		if proto.Size(c) <= cliMaxRec {
			break
		}
		m--
	}
	return p.Addrs[:m]
}

func (e *cliEnv) mkEntry(flavour string, id peer.ID, tag int) *pb.Message_Peer {
	p := &pb.Message_Peer{Id: []byte(id)}
	ok1 := sim.DefaultAddr(100 + tag).Bytes()
	ok2 := ma.StringCast(fmt.Sprintf("/ip4/10.7.%d.%d/udp/4001/quic-v1", tag/250, tag%250)).Bytes()
	switch flavour {
	case "ok":
		p.Addrs = [][]byte{ok1}
	case "noaddr":
	case "undec":
		p.Addrs = [][]byte{{0xff, 0xff, 0xff, 0xff}, {}}
	case "mixed":
		p.Addrs = [][]byte{ok1, {0xff, 0x01}, ok2}
	case "huge":
		p.Addrs = cliHugeAddrs(300, tag)
	case "hugeone": // a single address larger than the bound
		p.Addrs = [][]byte{ma.StringCast("/dns4/" + strings.Repeat("c", 240) + "/tcp/1" + strings.Repeat("/dns4/"+strings.Repeat("d", 240), 40)).Bytes(), ok1}
	case "emptyid":
		p.Id = nil
		p.Addrs = [][]byte{ok1}
	case "junkid":
		p.Id = []byte{1, 2, 3, byte(tag >> 8), byte(tag)}
		p.Addrs = [][]byte{ok1}
	case "self":
		p.Id = []byte(e.self)
		p.Addrs = [][]byte{ok1}
	case "conn99":
		p.Addrs = [][]byte{ok1}
		p.Connection = pb.Message_ConnectionType(99)
	case "connneg":
		p.Addrs = cliHugeAddrs(45, tag)
		p.Connection = pb.Message_ConnectionType(-1)
	default:
		p.Addrs = [][]byte{ok1}
	}
	return p
}

func (e *cliEnv) register(p *pb.Message_Peer, label string, owner, idx int) {
	id := peer.ID(p.Id)
	pi := e.info[id]
	if pi == nil {
		pi = &cliPeerInfo{label: label, owner: owner, idx: idx, allowed: map[string]bool{}}
		e.info[id] = pi
	}
	pi.offered += len(p.Addrs)
	for _, a := range cliCut(p) {
		if m, err := ma.NewMultiaddrBytes(a); err == nil {
			pi.allowed[string(m.Bytes())] = true
		}
	}
}

// buildLists prepares, per responder, the closer-peer and provider lists it
// will send: NCloser entries far from the key followed by NearTail entries
// nearer to the key than anything else the client can learn.
func (e *cliEnv) buildLists() {
	for r := 1; r <= e.sc.N; r++ {
		cl := e.sc.Resp[r-1]
		n := cl.NCloser + cl.NearTail
		if n > 0 {
			pool := make([]peer.ID, n)
			for i := range pool {
				pool[i] = sim.NewPeerID(e.r)
			}
			sorted := sim.SortByDistance(pool, e.key)
			// farthest first, the nearest ones at the very end
			for i, j := 0, len(sorted)-1; i < j; i, j = i+1, j-1 {
				sorted[i], sorted[j] = sorted[j], sorted[i]
			}
			list := []*pb.Message_Peer{}
			for j, id := range sorted {
				fl := "ok"
				if j < cl.NCloser && len(cl.Closer) > 0 {
					fl = cl.Closer[j%len(cl.Closer)]
				}
				if fl == "target" {
					id = e.target
					fl = "huge"
				}
				p := e.mkEntry(fl, id, r*1000+j)
				list = append(list, p)
				e.register(p, fmt.Sprintf("L%d.%d", r, j+1), r, j+1)
			}
			e.lists[r] = list
		}
		for j := 0; j < cl.NProv; j++ {
			fl := "ok"
			if len(cl.Prov) > 0 {
				fl = cl.Prov[j%len(cl.Prov)]
			}
			p := e.mkEntry(fl, sim.NewPeerID(e.r), r*1000+500+j)
			e.provs[r] = append(e.provs[r], p)
			e.register(p, fmt.Sprintf("P%d.%d", r, j+1), r, j+1)
		}
	}
}

func (e *cliEnv) rankOf(p peer.ID) int {
	for i, x := range e.rt {
		if x == p {
			return i + 1
		}
	}
	return 0
}

// reply builds the bytes a remote peer writes for a request (nil = nothing) and
// what it does with the stream afterwards ("", "eof", "reset").
func (e *cliEnv) reply(r int, cl *CliResp, req *pb.Message) (out []byte, after string) {
	resp := &pb.Message{Type: req.Type, Key: req.Key, ClusterLevelRaw: int32(cl.Level)}
	switch cl.Type {
	case "other":
		resp.Type = pb.Message_PING
		if req.Type == pb.Message_PING {
			resp.Type = pb.Message_FIND_NODE
		}
	case "unknown":
		resp.Type = pb.Message_MessageType(99)
	}
	switch cl.Key {
	case "none":
		resp.Key = nil
	case "other":
		resp.Key = []byte("/v/another-key")
	}
	if req.Type == pb.Message_PUT_VALUE {
		resp.Record = req.Record
		switch cl.Echo {
		case "norecord":
			resp.Record = nil
		case "othervalue":
			resp.Record = &recpb.Record{Key: req.Key, Value: []byte("V77")}
		case "novalue":
			resp.Record = &recpb.Record{Key: req.Key}
		case "otherkey":
			resp.Record = &recpb.Record{Key: []byte("/v/another-key"), Value: req.GetRecord().GetValue()}
		case "othertype":
			resp.Type = pb.Message_GET_VALUE
		case "empty":
			return sim.Frame(nil), ""
		case "garbage":
			g := make([]byte, 30)
			e.r.Read(g)
			return sim.Frame(g), ""
		case "silence":
			return nil, ""
		case "reset":
			return nil, "reset"
		}
		return sim.FrameMsg(resp), ""
	}
	switch cl.Rec {
	case "match":
		resp.Record = &recpb.Record{Key: req.Key, Value: []byte(fmt.Sprintf("V%d", r))}
	case "otherkey":
		resp.Record = &recpb.Record{Key: []byte("/v/another-key"), Value: []byte(fmt.Sprintf("V9%d", r))}
	case "emptykey":
		resp.Record = &recpb.Record{Value: []byte(fmt.Sprintf("V9%d", r))}
	case "novalue":
		resp.Record = &recpb.Record{Key: req.Key}
	case "invalid":
		resp.Record = &recpb.Record{Key: req.Key, Value: []byte(fmt.Sprintf("I%d", r))}
	}
	if e.sc.Op == "getpubkey" && cl.Rec == "match" {
		resp.Record.Value = rsaKeys()[0].pub
	}
	resp.CloserPeers = e.lists[r]
	resp.ProviderPeers = e.provs[r]
	body, err := proto.Marshal(resp)
	if err != nil {
		panic(err)
	}
	switch cl.Kind {
	case "msg":
		return sim.Frame(body), ""
	case "unknownfields":
		// an unknown varint field, an unknown length-delimited field and a repeated scalar
		body = append(body, 0xf8, 0x06, 0x2a, 0xfa, 0x06, 0x03, 'a', 'b', 'c')
		return sim.Frame(body), ""
	case "bytes":
		g := make([]byte, 50)
		e.r.Read(g)
		return g, ""
	case "garbageframe":
		g := make([]byte, 40)
		e.r.Read(g)
		return sim.Frame(g), ""
	case "oversize":
		var l [binary.MaxVarintLen64]byte
		n := binary.PutUvarint(l[:], uint64(network.MessageSizeMax)+1)
		return append(l[:n:n], body...), ""
	case "zeroframe":
		return sim.Frame(nil), ""
	case "silence":
		return nil, ""
	case "partial":
		f := sim.Frame(body)
		return f[:len(f)/2+1], ""
	case "partialeof":
		f := sim.Frame(body)
		return f[:len(f)/2+1], "eof"
	case "reset":
		return nil, "reset"
	case "eof":
		return nil, "eof"
	}
	return sim.Frame(body), ""
}

var cliHonest = CliResp{Kind: "msg", Type: "same", Key: "same", Rec: "none"}

func (e *cliEnv) classOf(p peer.ID) (int, *CliResp) {
	if r := e.rankOf(p); r > 0 {
		return r, &e.sc.Resp[r-1]
	}
	c := cliHonest
	switch e.sc.Learned {
	case "silence":
		c.Kind = "silence"
	case "reset":
		c.Kind = "reset"
	}
	return 0, &c
}

func (e *cliEnv) labelOf(p peer.ID) string {
	if r := e.rankOf(p); r > 0 {
		return fmt.Sprintf("R%d", r)
	}
	if p == e.target {
		return "T"
	}
	if pi := e.info[p]; pi != nil {
		return pi.label
	}
	return "?"
}

func (e *cliEnv) serve(p peer.ID, s *sim.FakeStream) {
	r, cl := e.classOf(p)
	for {
		body, ok := s.RemoteReadFrame()
		if !ok {
			return
		}
		req := new(pb.Message)
		if err := proto.Unmarshal(body, req); err != nil {
			s.RemoteReset()
			return
		}
		e.mu.Lock()
		e.requests++
		e.mu.Unlock()
		if req.Type == pb.Message_ADD_PROVIDER {
			continue // no reply to ADD_PROVIDER
		}
		out, after := e.reply(r, cl, req)
		if len(out) > 0 {
			s.RemoteWrite(out)
		}
		switch after {
		case "eof":
			s.RemoteCloseWrite()
		case "reset":
			s.RemoteReset()
			return
		}
	}
}

func runCliCase(t *testing.T, sc *CliCase) (evs []sim.Ev) {
	var res sim.Ev
	dl := runBubble(t, func(t *testing.T) { runCliInBubble(t, sc, &res) })
	if res == nil {
		res = sim.Ev{"e": "Case", "op": sc.Op, "K": sc.K, "incomplete": true}
	}
	if dl != "" {
		res["hang"] = true
		res["deadlock"] = true
	}
	return []sim.Ev{{"e": "Reset", "ts": 0}, res, {"e": "End"}}
}

func cliBaseEv(sc *CliCase) sim.Ev {
	kinds := []string{}
	echoes := []string{}
	for _, c := range sc.Resp {
		kinds = append(kinds, c.Kind)
		echoes = append(echoes, c.Echo)
	}
	return sim.Ev{"e": "Case", "op": sc.Op, "K": sc.K, "N": sc.N, "kinds": kinds, "echoes": echoes, "learned": sc.Learned,
		"crashed": false, "panic": "", "hang": false, "deadlock": false, "returned": false, "err": "", "elapsed": 0,
		"values": []string{}, "offeredvals": []string{}, "contacted": []any{}, "maxheard": 0, "nheardevents": 0,
		"extraaddrs": []any{}, "provs": []any{}, "peers": []string{}, "requests": 0, "anydecodable": false, "incomplete": false}
}

func runCliInBubble(t *testing.T, sc *CliCase, res *sim.Ev) {
	r := rand.New(rand.NewSource(sc.Seed))
	e := &cliEnv{sc: sc, r: r, info: map[peer.ID]*cliPeerInfo{}, lists: map[int][]*pb.Message_Peer{}, provs: map[int][]*pb.Message_Peer{},
		contacted: map[string]bool{}}
	e.self = sim.NewPeerID(r)
	peers := make([]peer.ID, sc.N)
	for i := range peers {
		peers[i] = sim.NewPeerID(r)
	}
	e.target = sim.NewPeerID(r)
	switch sc.Op {
	case "getpubkey":
		e.target = rsaKeys()[0].id
		peers[0] = e.target
		e.key = routing.KeyForPublicKey(e.target)
	case "findpeer":
		e.key = string(e.target)
	case "findprov", "provide":
		b := make([]byte, 32)
		r.Read(b)
		h, _ := mh.Encode(b, mh.SHA2_256)
		e.key = string(h)
		e.cid = cid.NewCidV1(cid.Raw, h)
	default:
		e.key = fmt.Sprintf("/v/cli-%d", sc.Seed)
	}
	e.rt = sim.SortByDistance(peers, e.key)
	e.buildLists()
	ev := cliBaseEv(sc)
	*res = ev

	h := sim.NewFakeHost(e.self, []ma.Multiaddr{sim.DefaultAddr(0)})
	e.h = h
	h.Dial = func(ctx context.Context, p peer.ID) error {
		_, cl := e.classOf(p)
		if cl.Kind == "nodial" || (e.rankOf(p) == 0 && sc.Learned == "nodial") {
			return fmt.Errorf("sim: dial refused")
		}
		return nil
	}
	h.Stream = func(ctx context.Context, p peer.ID, protos []protocol.ID) (*sim.FakeStream, error) {
		e.mu.Lock()
		e.contacted[e.labelOf(p)] = true
		e.mu.Unlock()
		_, cl := e.classOf(p)
		if cl.Kind == "nostream" || cl.Kind == "nodial" || (e.rankOf(p) == 0 && sc.Learned == "nodial") {
			return nil, fmt.Errorf("sim: protocol not supported")
		}
		var c *sim.FakeConn
		for _, x := range h.Net().ConnsToPeer(p) {
			c = x.(*sim.FakeConn)
			break
		}
		if c == nil {
			c = h.Net().AddConn(p, sim.DefaultAddr(9), network.DirOutbound)
		}
		s := c.OpenStream(protos[0], network.DirOutbound)
		e.mu.Lock()
		e.streams = append(e.streams, s)
		e.mu.Unlock()
		go e.serve(p, s)
		return s, nil
	}
	beta := 3
	if sc.K < beta {
		beta = sc.K
	}
	d, err := dht.New(h,
		dht.ProtocolPrefix("/verifcli"), dht.BucketSize(sc.K), dht.Concurrency(2), dht.Resiliency(beta),
		dht.DisableAutoRefresh(), dht.Mode(dht.ModeClient),
		dht.Validator(record.NamespacedValidator{"v": simValidator{}, "pk": record.PublicKeyValidator{}}),
		dht.Datastore(dssync.MutexWrap(ds.NewMapDatastore())))
	if err != nil {
		t.Fatalf("dht.New: %v", err)
	}
	e.d = d
	for i, p := range e.rt {
		h.Peerstore().AddAddr(p, addrOf(i+1), time.Hour)
		if pi := e.info[p]; pi != nil {
			pi.allowed[string(addrOf(i+1).Bytes())] = true
		}
		_, _ = d.RoutingTable().TryAddPeer(p, true, false)
	}

	start := time.Now()
	ctx, cancel := context.WithCancel(context.Background())
	lctx, lev := dht.RegisterForLookupEvents(ctx)
	maxHeard, nHeard := 0, 0
	levDone := make(chan struct{})
	go func() {
		defer close(levDone)
		for le := range lev {
			if le.Response != nil && le.Response.Cause != nil {
				nHeard++
				if n := len(le.Response.Heard); n > maxHeard {
					maxHeard = n
				}
			}
		}
	}()
	done := make(chan struct{})
	values := []string{}
	provs := []any{}
	outPeers := []string{}
	errS := ""
	panicMsg := ""
	go func() {
		defer close(done)
		defer func() {
			if x := recover(); x != nil {
				panicMsg = fmt.Sprint(x)
			}
		}()
		var err error
		switch sc.Op {
		case "ping":
			err = d.Ping(lctx, e.rt[0])
		case "gcp":
			var ps []peer.ID
			ps, err = d.GetClosestPeers(lctx, e.key)
			for _, p := range ps {
				outPeers = append(outPeers, e.labelOf(p))
			}
		case "findpeer":
			var ai peer.AddrInfo
			ai, err = d.FindPeer(lctx, e.target)
			if err == nil {
				provs = append(provs, e.describe(ai))
			}
		case "getvalue":
			var v []byte
			v, err = d.GetValue(lctx, e.key)
			if err == nil {
				values = append(values, string(v))
			}
		case "searchvalue":
			var ch <-chan []byte
			ch, err = d.SearchValue(lctx, e.key)
			if err == nil {
				for v := range ch {
					values = append(values, string(v))
				}
			}
		case "putvalue":
			err = d.PutValue(lctx, e.key, []byte("V1"))
		case "provide":
			err = d.Provide(lctx, e.cid, true)
		case "findprov":
			for ai := range d.FindProvidersAsync(lctx, e.cid, 0) {
				provs = append(provs, e.describe(ai))
			}
		case "getpubkey":
			_, err = d.GetPublicKey(lctx, e.target)
		}
		if err != nil {
			errS = errClass(err)
		}
	}()
	hang := false
	select {
	case <-done:
	case <-time.After(6 * time.Hour):
		hang = true
	}
	elapsed := int(time.Since(start) / time.Millisecond)
	cancel()
	if hang {
		// give a cancelled operation the chance to come back, then tear down regardless
		select {
		case <-done:
		case <-time.After(time.Hour):
		}
	}
	synctest.Wait()

	// what entered the peerstore: nothing beyond the bounded, decodable addresses
	extra := []any{}
	for id, pi := range e.info {
		if id == e.self || len(id) == 0 {
			continue
		}
		n := 0
		for _, a := range h.Peerstore().Addrs(id) {
			if !pi.allowed[string(a.Bytes())] {
				n++
			}
		}
		if n > 0 {
			extra = append(extra, map[string]any{"l": pi.label, "extra": n, "offered": pi.offered})
		}
	}
	sort.Slice(extra, func(i, j int) bool { return extra[i].(map[string]any)["l"].(string) < extra[j].(map[string]any)["l"].(string) })
	contacted := []any{}
	e.mu.Lock()
	labels := []string{}
	for l := range e.contacted {
		labels = append(labels, l)
	}
	sort.Strings(labels)
	for _, l := range labels {
		c := map[string]any{"l": l, "kind": string(l[0]), "owner": 0, "idx": 0}
		if l[0] == 'L' || l[0] == 'P' {
			var o, i int
			fmt.Sscanf(l[1:], "%d.%d", &o, &i)
			c["owner"], c["idx"] = o, i
		}
		contacted = append(contacted, c)
	}
	ev["requests"] = e.requests
	e.mu.Unlock()
	offered := []string{}
	anyDecodable := false
	for i, c := range sc.Resp {
		if c.Rec == "match" && (c.Kind == "msg" || c.Kind == "unknownfields") {
			offered = append(offered, fmt.Sprintf("V%d", i+1))
		}
		if c.Kind == "msg" || c.Kind == "unknownfields" || c.Kind == "zeroframe" {
			anyDecodable = true
		}
	}
	ev["returned"], ev["hang"], ev["err"], ev["panic"], ev["elapsed"] = !hang, hang, errS, panicMsg, elapsed
	ev["values"], ev["offeredvals"], ev["contacted"], ev["extraaddrs"], ev["provs"], ev["peers"] = values, offered, contacted, extra, provs, outPeers
	ev["anydecodable"] = anyDecodable
	ev["first"] = sc.Resp[0].Kind
	ev["firsttype"] = sc.Resp[0].Type

	// tear down: the node closes, the remote ends go away
	closed := make(chan struct{})
	go func() { _ = d.Close(); close(closed) }()
	select {
	case <-closed:
	case <-time.After(time.Hour):
		ev["closehang"] = true
	}
	e.mu.Lock()
	for _, s := range e.streams {
		s.RemoteReset()
	}
	e.mu.Unlock()
	_ = h.Close()
	synctest.Wait()
	<-levDone
	ev["maxheard"], ev["nheardevents"] = maxHeard, nHeard
}

func (e *cliEnv) describe(ai peer.AddrInfo) map[string]any {
	out := map[string]any{"l": e.labelOf(ai.ID), "naddrs": len(ai.Addrs), "extra": 0}
	if pi := e.info[ai.ID]; pi != nil {
		n := 0
		for _, a := range ai.Addrs {
			if !pi.allowed[string(a.Bytes())] {
				n++
			}
		}
		out["extra"] = n
	}
	return out
}

var cliKinds = []string{"msg", "msg", "msg", "msg", "unknownfields", "bytes", "garbageframe", "oversize", "zeroframe", "silence", "partial", "partialeof", "reset", "eof", "nostream", "nodial"}
var cliFlavours = []string{"ok", "ok", "noaddr", "undec", "mixed", "huge", "hugeone", "emptyid", "junkid", "self", "conn99", "connneg", "target"}
var cliEchoes = []string{"", "", "", "norecord", "othervalue", "novalue", "otherkey", "othertype", "empty", "garbage", "silence", "reset"}

func genCliCase(r *rand.Rand) *CliCase {
	ops := []string{"ping", "gcp", "findpeer", "getvalue", "searchvalue", "putvalue", "putvalue", "provide", "findprov", "getpubkey"}
	sc := &CliCase{Seed: r.Int63(), Op: ops[r.Intn(len(ops))], K: 1 + r.Intn(3), N: 1 + r.Intn(4)}
	sc.Learned = []string{"empty", "empty", "silence", "reset", "nodial"}[r.Intn(5)]
	for i := 0; i < sc.N; i++ {
		c := CliResp{Kind: cliKinds[r.Intn(len(cliKinds))], Type: "same", Key: "same", Rec: "none"}
		if r.Intn(5) == 0 {
			c.Type = []string{"other", "unknown"}[r.Intn(2)]
		}
		if r.Intn(5) == 0 {
			c.Key = []string{"none", "other"}[r.Intn(2)]
		}
		if r.Intn(2) == 0 {
			c.Rec = []string{"match", "match", "otherkey", "emptykey", "novalue", "invalid"}[r.Intn(6)]
		}
		switch r.Intn(6) {
		case 0:
		case 1, 2:
			c.NCloser = 1 + r.Intn(2*sc.K)
		case 3:
			c.NCloser = 2*sc.K + r.Intn(3)
			c.NearTail = 1 + r.Intn(3)
		case 4:
			c.NCloser = 2 * sc.K
			c.NearTail = 1 + r.Intn(2)
		default:
			c.NCloser = 50 + r.Intn(400)
			c.NearTail = r.Intn(3)
		}
		for j := 0; j < 1+r.Intn(4); j++ {
			c.Closer = append(c.Closer, cliFlavours[r.Intn(len(cliFlavours))])
		}
		if r.Intn(3) == 0 {
			c.NProv = 1 + r.Intn(5)
			if r.Intn(6) == 0 {
				c.NProv = 200
			}
			for j := 0; j < 1+r.Intn(3); j++ {
				c.Prov = append(c.Prov, cliFlavours[r.Intn(len(cliFlavours)-1)])
			}
		}
		if r.Intn(4) == 0 {
			c.Level = []int{-5, 0, 1, 1 << 30}[r.Intn(4)]
		}
		c.Echo = cliEchoes[r.Intn(len(cliEchoes))]
		sc.Resp = append(sc.Resp, c)
	}
	if sc.Op == "putvalue" || sc.Op == "provide" {
		// the store phase needs a lookup that completes: most peers answer the lookup properly
		for i := range sc.Resp {
			if r.Intn(4) != 0 {
				sc.Resp[i].Kind = "msg"
				sc.Resp[i].Type = "same"
			}
		}
	}
	return sc
}

// ---------------------------------------------------------------------------
// Process isolation: a panic in one of the library's own goroutines kills the
// process, so cases run in child processes; the parent turns a dead child into
// a "crashed" case and carries on with the next one.
// ---------------------------------------------------------------------------

func TestClientChild(t *testing.T) {
	childMain(t, func(idx int, raw json.RawMessage, _ func(any)) any {
		var sc CliCase
		if err := json.Unmarshal(raw, &sc); err != nil {
			t.Fatal(err)
		}
		return runCliCase(t, &sc)
	})
}

func TestClient(t *testing.T) {
	e := getEnv(t)
	rec := newRecorder(t, e, "client", "one run per (operation, K, reply classes of the scripted peers) case; reply classes cover every field of the response message (type, key, record, closer peers, provider peers, cluster level) x present/absent/mismatched/oversized, raw garbage, truncated/oversized/empty frames, reset, EOF, silence, refused stream/dial; distinct by case content")
	defer rec.Close(t, e)
	var cases []*CliCase
	if e.Replay != "" {
		var wrap struct {
			Replay struct {
				Scenario *CliCase `json:"scenario"`
			} `json:"replay"`
		}
		if err := readJSON(e.Replay, &wrap); err != nil {
			t.Fatal(err)
		}
		cases = []*CliCase{wrap.Replay.Scenario}
	} else {
		r := rand.New(rand.NewSource(e.Seed))
		n := 1200
		if e.Tier == "thorough" {
			n = 30000
		}
		if e.Budget > 0 {
			n = e.Budget
		}
		for i := 0; i < n; i++ {
			cases = append(cases, genCliCase(r))
		}
	}
	workers := 12
	results := runChildren(t, e, "TestClientChild", cases, len(cases), workers, func(idx int, _ json.RawMessage, output string, stalled bool) any {
		ev := cliBaseEv(cases[idx])
		if stalled {
			ev["hang"], ev["deadlock"] = true, true
			ev["panic"] = ""
		} else {
			ev["crashed"] = true
			ev["panic"] = crashLine(output)
		}
		return []sim.Ev{{"e": "Reset", "ts": 0}, ev, {"e": "End"}}
	})
	for i, raw := range results {
		var evs []sim.Ev
		if raw == nil || json.Unmarshal(raw, &evs) != nil || evs == nil {
			rec.Problem(fmt.Sprintf("case %d produced no result", i))
			continue
		}
		rec.Record(evs, map[string]any{"scenario": cases[i]}, true)
		rec.Count(cases[i].Op, 1)
	}
}
