package drivers

import (
	"encoding/json"
	"fmt"
	"hash"
	"hash/fnv"
	"os"
	"strconv"

	dsq "github.com/ipfs/go-datastore/query"
	"testing"

	logging "github.com/ipfs/go-log/v2"

	"verifharness/sim"
)

func TestMain(m *testing.M) {
	logging.SetAllLoggers(logging.LevelFatal)
	if l := os.Getenv("VERIF_DEBUG_LOGGER"); l != "" {
		_ = logging.SetLogLevel(l, "debug")
	}
	os.Exit(m.Run())
}

// Env holds the parameters every driver receives from bin/check.
type Env struct {
	Seed   int64
	Tier   string // quick | thorough
	Out    string // ndjson output path
	Sum    string // summary json output path
	Replay string // replay file (optional)
	Budget int    // optional override of the number of runs
}

func getEnv(t *testing.T) Env {
	e := Env{Seed: 1, Tier: "quick"}
	if s := os.Getenv("VERIF_SEED"); s != "" {
		v, err := strconv.ParseInt(s, 10, 64)
		if err == nil {
			e.Seed = v
		}
	}
	if s := os.Getenv("VERIF_TIER"); s != "" {
		e.Tier = s
	}
	e.Out = os.Getenv("VERIF_OUT")
	if e.Out == "" {
		t.Skip("VERIF_OUT not set: drivers are run by bin/check")
	}
	e.Sum = os.Getenv("VERIF_SUMMARY")
	if e.Sum == "" {
		e.Sum = e.Out + ".summary.json"
	}
	e.Replay = os.Getenv("VERIF_REPLAY")
	if s := os.Getenv("VERIF_BUDGET"); s != "" {
		e.Budget, _ = strconv.Atoi(s)
	}
	return e
}

// Summary is what a driver reports next to the traces.
type Summary struct {
	Driver   string         `json:"driver"`
	Runs     int            `json:"runs"`
	Lines    int            `json:"lines"`
	Distinct int            `json:"distinct"`
	NonTriv  int            `json:"nontrivial"`
	Rule     string         `json:"rule"`
	Counters map[string]int `json:"counters"`
	Samples  []any          `json:"samples"`
	// Replays maps run number -> replay descriptor (scenario + choices).
	ReplayFile string `json:"replay_file"`
	Problems   []string `json:"problems"`
}

func writeJSON(path string, v any) error {
	b, err := json.MarshalIndent(v, "", " ")
	if err != nil {
		return err
	}
	return os.WriteFile(path, b, 0o644)
}

// RunRecorder accumulates traces, replay descriptors and statistics.
type RunRecorder struct {
	w       *sim.Writer
	replays *os.File
	seen    map[string]bool
	sum     Summary
}

func newRecorder(t *testing.T, e Env, driver, rule string) *RunRecorder {
	w, err := sim.NewWriter(e.Out)
	if err != nil {
		t.Fatal(err)
	}
	rf, err := os.Create(e.Out + ".replays.ndjson")
	if err != nil {
		t.Fatal(err)
	}
	return &RunRecorder{w: w, replays: rf, seen: map[string]bool{},
		sum: Summary{Driver: driver, Rule: rule, Counters: map[string]int{}, ReplayFile: e.Out + ".replays.ndjson"}}
}

// Record writes one run. replay is the descriptor from which the run can be
// re-executed; sig is the canonical signature used to count distinct runs;
// nontrivial says whether the run exercised the property's antecedent.
func (r *RunRecorder) Record(evs []sim.Ev, replay any, nontrivial bool) {
	if err := r.w.WriteRun(evs); err != nil {
		panic(err)
	}
	b, _ := json.Marshal(map[string]any{"t": r.w.Runs, "replay": replay})
	r.replays.Write(append(b, '\n'))
	sig := signature(evs)
	if !r.seen[sig] {
		r.seen[sig] = true
		r.sum.Distinct++
		if nontrivial {
			r.sum.NonTriv++
		}
	}
	if len(r.sum.Samples) < 3 {
		r.sum.Samples = append(r.sum.Samples, map[string]any{"replay": replay, "events": compact(evs)})
	}
}

func (r *RunRecorder) Count(k string, n int) { r.sum.Counters[k] += n }
func (r *RunRecorder) Problem(s string) {
	if len(r.sum.Problems) < 50 {
		r.sum.Problems = append(r.sum.Problems, s)
	}
}

func (r *RunRecorder) Close(t *testing.T, e Env) {
	r.sum.Runs = r.w.Runs
	r.sum.Lines = r.w.Lines
	if err := r.w.Close(); err != nil {
		t.Fatal(err)
	}
	r.replays.Close()
	if err := writeJSON(e.Sum, r.sum); err != nil {
		t.Fatal(err)
	}
}

func signature(evs []sim.Ev) string {
	h := fnvNew()
	for _, ev := range evs {
		// t and i are assigned by the writer and excluded on purpose
		c := map[string]any{}
		for k, v := range ev {
			if k != "t" && k != "i" {
				c[k] = v
			}
		}
		b, _ := json.Marshal(c)
		h.Write(b)
	}
	return fmt.Sprintf("%x", h.Sum64())
}

func compact(evs []sim.Ev) []string {
	out := []string{}
	for i, ev := range evs {
		if i >= 40 {
			out = append(out, "...")
			break
		}
		b, _ := json.Marshal(ev)
		out = append(out, string(b))
	}
	return out
}

func fnvNew() hash.Hash64 { return fnv.New64a() }

func readJSON(path string, v any) error {
	b, err := os.ReadFile(path)
	if err != nil {
		return err
	}
	return json.Unmarshal(b, v)
}

func dsqAll() dsq.Query { return dsq.Query{} }
