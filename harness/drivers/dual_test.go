package drivers

import (
	"context"
	"encoding/json"
	"errors"
	"fmt"
	"math/rand"
	"os"
	"sort"
	"strings"
	"sync"
	"testing"
	"testing/synctest"
	"time"

	"github.com/ipfs/go-cid"
	ds "github.com/ipfs/go-datastore"
	dssync "github.com/ipfs/go-datastore/sync"
	dht "github.com/libp2p/go-libp2p-kad-dht"
	"github.com/libp2p/go-libp2p-kad-dht/dual"
	pb "github.com/libp2p/go-libp2p-kad-dht/pb"
	record "github.com/libp2p/go-libp2p-record"
	recpb "github.com/libp2p/go-libp2p-record/pb"
	"github.com/libp2p/go-libp2p/core/host"
	"github.com/libp2p/go-libp2p/core/network"
	"github.com/libp2p/go-libp2p/core/peer"
	"github.com/libp2p/go-libp2p/core/protocol"
	ma "github.com/multiformats/go-multiaddr"
	mh "github.com/multiformats/go-multihash"

	"verifharness/sim"
)

// ---------------------------------------------------------------------------
// C15: the dual (WAN + LAN) client. A real dual.DHT runs on one hand-written
// host with one gated message sender per half; which half's sender saw which
// RPC, what the ADD_PROVIDER payloads carry and what ends up in the peerstore
// are the observations. Addresses are representatives of classes.
// ---------------------------------------------------------------------------

type DualRef struct {
	Classes []string `json:"classes"`
	Target  bool     `json:"target,omitempty"` // the referral names the peer searched for (findpeer)
}

type DualPeer struct {
	Net    string    `json:"net"` // wan | lan
	Fail   bool      `json:"fail,omitempty"`
	Closer []DualRef `json:"closer,omitempty"`
	Val    string    `json:"val,omitempty"`   // record it returns for the key
	Provs  []int     `json:"provs,omitempty"` // providers it reports
}

type DualScenario struct {
	Seed        int64      `json:"seed"`
	Op          string     `json:"op"` // provide | putvalue | getvalue | findpeer | findprov
	K           int        `json:"K"`
	Count       int        `json:"count"`
	HostAddrs   []string   `json:"hostaddrs"`             // classes of the node's own addresses
	NoRead      bool       `json:"noread,omitempty"`      // findprov: the caller reads nothing until it has cancelled (it cancels once every reply has been delivered)
	Inbound     []DualRef  `json:"inbound,omitempty"`     // op "inbound": ADD_PROVIDER messages sent to both halves' servers, each from a new peer announcing itself with these address classes
	Peers       []DualPeer `json:"peers"`                 // the scripted peers; all of them are in their half's routing table
	TargetKnown []string   `json:"targetknown,omitempty"` // findpeer: address classes already in the peerstore
}

var dualClasses = []string{"public4", "public6", "private4", "ula6", "loopback", "relaypublic", "relayprivate"}

const dualRelay = "12D3KooWDpJ7As7BWAwRMfu1VU2WCqNjvq387JEYKDBj4kx6nXTN"

func dualAddr(class string, n int) ma.Multiaddr {
	a, b := 1+n/200, 1+n%200
	switch class {
	case "public4":
		return ma.StringCast(fmt.Sprintf("/ip4/8.8.%d.%d/tcp/4001", a, b))
	case "public6":
		return ma.StringCast(fmt.Sprintf("/ip6/2606:4700::%x:%x/tcp/4001", a, b))
	case "private4":
		return ma.StringCast(fmt.Sprintf("/ip4/192.168.%d.%d/tcp/4001", a, b))
	case "ula6":
		return ma.StringCast(fmt.Sprintf("/ip6/fd00::%x:%x/tcp/4001", a, b))
	case "loopback":
		return ma.StringCast(fmt.Sprintf("/ip4/127.0.0.1/tcp/%d", 1000+n))
	case "relaypublic":
		return ma.StringCast(fmt.Sprintf("/ip4/8.9.%d.%d/tcp/4001/p2p/%s/p2p-circuit", a, b, dualRelay))
	case "relayprivate":
		return ma.StringCast(fmt.Sprintf("/ip4/192.168.%d.%d/tcp/4002/p2p/%s/p2p-circuit", a, b, dualRelay))
	}
	panic("class " + class)
}

func dualClassOf(a ma.Multiaddr) string {
	s := a.String()
	relay := strings.Contains(s, "p2p-circuit")
	switch {
	case strings.HasPrefix(s, "/ip4/8.") && relay:
		return "relaypublic"
	case strings.HasPrefix(s, "/ip4/192.168.") && relay:
		return "relayprivate"
	case strings.HasPrefix(s, "/ip4/8."):
		return "public4"
	case strings.HasPrefix(s, "/ip6/2606:"):
		return "public6"
	case strings.HasPrefix(s, "/ip4/192.168."):
		return "private4"
	case strings.HasPrefix(s, "/ip6/fd00:"):
		return "ula6"
	case strings.HasPrefix(s, "/ip4/127."):
		return "loopback"
	}
	return "other:" + s
}

func dualClassSet(as []ma.Multiaddr) []string {
	m := map[string]bool{}
	for _, a := range as {
		m[dualClassOf(a)] = true
	}
	out := []string{}
	for c := range m {
		out = append(out, c)
	}
	sort.Strings(out)
	return out
}

func dualClassSetB(as [][]byte) []string {
	ms := []ma.Multiaddr{}
	for _, b := range as {
		if m, err := ma.NewMultiaddrBytes(b); err == nil {
			ms = append(ms, m)
		}
	}
	return dualClassSet(ms)
}

func runDual(t *testing.T, sc *DualScenario, ch sim.Chooser) (evs []sim.Ev) {
	dl := runBubble(t, func(t *testing.T) { evs = runDualInBubble(t, sc, ch) })
	if dl != "" {
		if os.Getenv("VERIF_DEBUG_DEADLOCK") != "" {
			fmt.Fprintln(os.Stderr, "DEADLOCK:", dl)
			for _, g := range sim.Goroutines() {
				if strings.Contains(g.Describe(), "synctest") || strings.Contains(g.Describe(), "durable") {
					fmt.Fprintln(os.Stderr, "   ", g.Describe())
				}
			}
		}
		evs = append(evs, sim.Ev{"e": "Stuck", "what": "deadlock"}, sim.Ev{"e": "End"})
	}
	return evs
}

// runDualInbound: both halves run as servers; remote peers send ADD_PROVIDER messages announcing themselves with
// address sets of the given classes; what the host's peerstore holds for each of them afterwards is the
// observation (the WAN half must keep only public addresses, the LAN half no loopback ones).
func runDualInbound(t *testing.T, sc *DualScenario) []sim.Ev {
	r := rand.New(rand.NewSource(sc.Seed))
	tr := &sim.Trace{}
	self := sim.NewPeerID(r)
	h := sim.NewFakeHost(self, []ma.Multiaddr{dualAddr("public4", 900)})
	common := []dht.Option{dht.BucketSize(sc.K), dht.DisableAutoRefresh(), dht.Mode(dht.ModeServer),
		dht.Datastore(dssync.MutexWrap(ds.NewMapDatastore()))}
	// (the protocol prefix is given per half: passed for both it would erase the LAN extension)
	d, err := dual.New(h, dual.DHTOption(common...), dual.WanDHTOption(dht.ProtocolPrefix("/verifdualw")), dual.LanDHTOption(dht.ProtocolPrefix("/verifduall")))
	if err != nil {
		t.Fatalf("dual.New: %v", err)
	}
	tr.Add("Reset", "op", "inbound", "K", sc.K, "count", 0, "wanrt", 0, "lanrt", 0, "hostaddrs", []string{"public4"},
		"wanvals", []string{}, "lanvals", []string{}, "offeredprovs", []int{}, "ts", 0)
	b := make([]byte, 32)
	r.Read(b)
	hsh, _ := mh.Encode(b, mh.SHA2_256)
	stored := []any{}
	n := 0
	for i, in := range sc.Inbound {
		for _, half := range []struct {
			net   string
			proto protocol.ID
		}{{"wan", "/verifdualw/kad/1.0.0"}, {"lan", "/verifduall/kad/1.0.0"}} {
			remote := sim.NewPeerID(r)
			mp := &pb.Message_Peer{Id: []byte(remote)}
			for _, c := range in.Classes {
				n++
				mp.Addrs = append(mp.Addrs, dualAddr(c, n).Bytes())
			}
			req := &pb.Message{Type: pb.Message_ADD_PROVIDER, Key: hsh, ProviderPeers: []*pb.Message_Peer{mp}}
			_, _ = h.ServeOnce(remote, dualAddr("public4", 700+n), half.proto, sim.FrameMsg(req))
			synctest.Wait()
			stored = append(stored, map[string]any{"p": fmt.Sprintf("%s-in%d", half.net, i+1), "net": half.net,
				"offered": append([]string{}, in.Classes...), "stored": dualClassSet(h.Peerstore().Addrs(remote))})
		}
	}
	tr.Add("Peerstore", "learned", stored, "twan", []string{}, "tlan", []string{}, "tknown", []string{}, "tstored", []string{})
	_ = d.Close()
	_ = h.Peerstore().Close()
	synctest.Wait()
	tr.Add("End")
	return tr.Events
}

func runDualInBubble(t *testing.T, sc *DualScenario, ch sim.Chooser) []sim.Ev {
	if sc.Op == "inbound" {
		return runDualInbound(t, sc)
	}
	r := rand.New(rand.NewSource(sc.Seed))
	tr := &sim.Trace{}
	var mu sync.Mutex
	add := func(e string, kv ...any) { mu.Lock(); tr.Add(e, kv...); mu.Unlock() }
	self := sim.NewPeerID(r)
	hostAddrs := []ma.Multiaddr{}
	for i, c := range sc.HostAddrs {
		hostAddrs = append(hostAddrs, dualAddr(c, 900+i))
	}
	h := sim.NewFakeHost(self, hostAddrs)
	label := map[peer.ID]string{}
	script := map[peer.ID]*DualPeer{}
	refs := map[peer.ID]*DualRef{}
	refLists := map[peer.ID][]*pb.Message_Peer{}
	ids := []peer.ID{}
	target := sim.NewPeerID(r)
	label[target] = "T"
	provIDs := []peer.ID{}
	for i := 0; i < 4; i++ {
		p := sim.NewPeerID(r)
		provIDs = append(provIDs, p)
		label[p] = fmt.Sprintf("P%d", i+1)
	}
	n := 0
	for i := range sc.Peers {
		p := sim.NewPeerID(r)
		ids = append(ids, p)
		sp := &sc.Peers[i]
		script[p] = sp
		tag := "W"
		if sp.Net == "lan" {
			tag = "L"
		}
		label[p] = fmt.Sprintf("%s%d", tag, i+1)
		for j := range sp.Closer {
			ref := &sp.Closer[j]
			id := sim.NewPeerID(r)
			if ref.Target {
				id = target
			} else {
				label[id] = fmt.Sprintf("%s%d.%d", strings.ToLower(tag), i+1, j+1)
				refs[id] = ref
			}
			mp := &pb.Message_Peer{Id: []byte(id)}
			for _, c := range ref.Classes {
				n++
				mp.Addrs = append(mp.Addrs, dualAddr(c, n).Bytes())
			}
			refLists[p] = append(refLists[p], mp)
		}
	}
	gate := &sim.Gate{}
	netOf := map[*sim.GatedSender]string{}
	mkSender := func(net string) *sim.GatedSender {
		s := &sim.GatedSender{G: gate, LabelOf: func(rpc *sim.RPC) string {
			return fmt.Sprintf("%s/%s/%d", net, label[rpc.Peer], rpc.Msg.GetType())
		}}
		netOf[s] = net
		return s
	}
	wanS, lanS := mkSender("wan"), mkSender("lan")
	senderNet := map[*sim.RPC]string{}
	_ = senderNet
	h.Dial = func(ctx context.Context, p peer.ID) error {
		if sp := script[p]; sp != nil && sp.Fail {
			return errors.New("sim: dial refused")
		}
		return nil
	}
	key := fmt.Sprintf("/v/dual-%d", sc.Seed)
	b := make([]byte, 32)
	r.Read(b)
	hsh, _ := mh.Encode(b, mh.SHA2_256)
	c := cid.NewCidV1(cid.Raw, hsh)
	if sc.Op == "findpeer" {
		key = string(target)
	}
	common := []dht.Option{dht.ProtocolPrefix("/verifdual"), dht.BucketSize(sc.K), dht.Concurrency(2), dht.DisableAutoRefresh(), dht.Mode(dht.ModeClient),
		dht.Validator(record.NamespacedValidator{"v": simValidator{}}), dht.Datastore(dssync.MutexWrap(ds.NewMapDatastore()))}
	d, err := dual.New(h, dual.DHTOption(common...),
		dual.WanDHTOption(dht.WithCustomMessageSender(func(host.Host, []protocol.ID) pb.MessageSenderWithDisconnect { return wanS })),
		dual.LanDHTOption(dht.WithCustomMessageSender(func(host.Host, []protocol.ID) pb.MessageSenderWithDisconnect { return lanS })))
	if err != nil {
		t.Fatalf("dual.New: %v", err)
	}
	nwan, nlan := 0, 0
	for i, p := range ids {
		sp := &sc.Peers[i]
		if sp.Net == "wan" {
			h.Peerstore().AddAddr(p, dualAddr("public4", 500+i), time.Hour)
			h.Net().AddConn(p, dualAddr("public4", 500+i), network.DirOutbound)
			if ok, _ := d.WAN.RoutingTable().TryAddPeer(p, true, false); ok {
				nwan++
			}
		} else {
			h.Peerstore().AddAddr(p, dualAddr("private4", 500+i), time.Hour)
			h.Net().AddConn(p, dualAddr("private4", 500+i), network.DirOutbound)
			if ok, _ := d.LAN.RoutingTable().TryAddPeer(p, true, false); ok {
				nlan++
			}
		}
	}
	for i, cl := range sc.TargetKnown {
		h.Peerstore().AddAddr(target, dualAddr(cl, 700+i), time.Hour)
	}
	synctest.Wait()
	nwan, nlan = d.WAN.RoutingTable().Size(), d.LAN.RoutingTable().Size()
	wanVals, lanVals := []string{}, []string{}
	offered := map[int]bool{}
	for i := range sc.Peers {
		sp := &sc.Peers[i]
		if sp.Fail {
			continue
		}
		if sp.Val != "" {
			if sp.Net == "wan" {
				wanVals = append(wanVals, sp.Val)
			} else {
				lanVals = append(lanVals, sp.Val)
			}
		}
		for _, x := range sp.Provs {
			offered[x] = true
		}
	}
	off := []int{}
	for x := range offered {
		off = append(off, x)
	}
	sort.Ints(off)
	add("Reset", "op", sc.Op, "K", sc.K, "count", sc.Count, "wanrt", nwan, "lanrt", nlan, "hostaddrs", append([]string{}, sc.HostAddrs...),
		"wanvals", wanVals, "lanvals", lanVals, "offeredprovs", off, "ts", 0)
	gate.OnPark = func(it *sim.Parked) {
		rpc := it.Payload.(*sim.RPC)
		net := strings.SplitN(it.Label, "/", 2)[0]
		l := label[rpc.Peer]
		if l == "" {
			l = "?"
		}
		kv := []any{"net", net, "p", l, "typ", rpc.Msg.GetType().String(), "refclasses", []string{}, "isref", false, "payload", []string{}, "val", ""}
		if ref := refs[rpc.Peer]; ref != nil {
			kv[7], kv[9] = append([]string{}, ref.Classes...), true
		}
		switch rpc.Msg.GetType() {
		case pb.Message_ADD_PROVIDER:
			cl := []string{}
			for _, pp := range rpc.Msg.GetProviderPeers() {
				cl = append(cl, dualClassSetB(pp.GetAddrs())...)
			}
			kv[11] = cl
		case pb.Message_PUT_VALUE:
			kv[13] = string(rpc.Msg.GetRecord().GetValue())
		}
		add("Sent", kv...)
	}
	ctx, cancel := context.WithCancel(context.Background())
	startRead := make(chan struct{})
	cancelledEarly := false
	synctest.Wait()
	base := sim.BubbleSet()
	done := make(chan struct{})
	var rerr error
	value := ""
	emitted := []int{}
	var fpAddrs []ma.Multiaddr
	atReturn := []string{}
	go func() {
		defer close(done)
		switch sc.Op {
		case "provide":
			rerr = d.Provide(ctx, c, true)
		case "putvalue":
			rerr = d.PutValue(ctx, key, []byte("V5"))
		case "getvalue":
			var v []byte
			v, rerr = d.GetValue(ctx, key)
			value = string(v)
		case "findpeer":
			var ai peer.AddrInfo
			ai, rerr = d.FindPeer(ctx, target)
			fpAddrs = ai.Addrs
			atReturn = dualClassSet(h.Peerstore().Addrs(target))
		case "findprov":
			out := d.FindProvidersAsync(ctx, c, sc.Count)
			if sc.NoRead {
				<-startRead
			}
			for ai := range out {
				for i, p := range provIDs {
					if p == ai.ID {
						mu.Lock()
						emitted = append(emitted, i+1)
						mu.Unlock()
					}
				}
			}
		}
	}()
	respond := func(it *sim.Parked) {
		rpc := it.Payload.(*sim.RPC)
		sp := script[rpc.Peer]
		o := sim.RPCOutcome{}
		switch {
		case sp != nil && sp.Fail:
			o.Err = errors.New("sim: request failed")
		case !rpc.Request:
		default:
			resp := &pb.Message{Type: rpc.Msg.GetType(), Key: rpc.Msg.GetKey()}
			if rpc.Msg.GetType() == pb.Message_PUT_VALUE {
				resp.Record = rpc.Msg.GetRecord()
			}
			if sp != nil {
				resp.CloserPeers = refLists[rpc.Peer]
				if sp.Val != "" && rpc.Msg.GetType() == pb.Message_GET_VALUE {
					resp.Record = &recpb.Record{Key: rpc.Msg.GetKey(), Value: []byte(sp.Val)}
				}
				if rpc.Msg.GetType() == pb.Message_GET_PROVIDERS {
					for _, x := range sp.Provs {
						cl := "public4"
						if sp.Net == "lan" {
							cl = "private4"
						}
						resp.ProviderPeers = append(resp.ProviderPeers, &pb.Message_Peer{Id: []byte(provIDs[x-1]), Addrs: [][]byte{dualAddr(cl, 800+x).Bytes()}})
					}
				}
			}
			o.Resp = resp
		}
		net := strings.SplitN(it.Label, "/", 2)[0]
		val := ""
		if o.Resp != nil && o.Resp.GetRecord() != nil && rpc.Msg.GetType() == pb.Message_GET_VALUE {
			val = string(o.Resp.GetRecord().GetValue())
		}
		if gate.Release(it, o) {
			add("Deliver", "net", net, "p", label[rpc.Peer], "typ", rpc.Msg.GetType().String(), "fail", o.Err != nil, "val", val)
		}
		return
	}
	hang := false
	for steps := 0; ; steps++ {
		synctest.Wait()
		select {
		case <-done:
		default:
			p := gate.Pending()
			if len(p) == 0 && sc.NoRead && !cancelledEarly {
				// every reply has been delivered, the caller has read nothing: it cancels, and only then looks at
				// the channel (which has to be closed for it)
				cancelledEarly = true
				add("Cancel")
				cancel()
				synctest.Wait()
				close(startRead)
				continue
			}
			if len(p) == 0 {
				// nothing to deliver: let timers run
				select {
				case <-done:
				case <-time.After(30 * time.Minute):
					hang = true
				}
				if hang {
					break
				}
				continue
			}
			if steps > 20000 {
				hang = true
				break
			}
			respond(p[ch.Choose(len(p))])
			continue
		}
		break
	}
	if sc.NoRead && !cancelledEarly {
		cancelledEarly = true
		close(startRead)
	}
	bgLeft := []string{}
	if !hang && !sc.NoRead {
		// The operation has returned while the caller's context lives on. Replies still outstanding arrive now
		// (for instance the other half's providers after the count was reached); whatever the operation left in
		// the background has to end by itself: three minutes of virtual time later nothing of it may be blocked.
		for steps := 0; steps < 2000; steps++ {
			synctest.Wait()
			p := gate.Pending()
			if len(p) == 0 {
				break
			}
			respond(p[ch.Choose(len(p))])
		}
		time.Sleep(3 * time.Minute)
		synctest.Wait()
		for _, g := range sim.NewSince(base, "verifharness") {
			bgLeft = append(bgLeft, g.Describe())
		}
		sort.Strings(bgLeft)
	}
	cancel()
	if hang {
		for _, it := range gate.Pending() {
			gate.Release(it, sim.RPCOutcome{Err: errors.New("sim: shutting down")})
		}
		select {
		case <-done:
		case <-time.After(time.Hour):
		}
	}
	mu.Lock()
	em := append([]int{}, emitted...)
	mu.Unlock()
	add("Return", "err", errS(rerr), "value", value, "emitted", em, "addrs", dualClassSet(fpAddrs), "atreturn", atReturn, "hang", hang, "bgleft", bgLeft)
	// what the peerstore holds for the peers learned from referrals
	stored := []any{}
	for id, ref := range refs {
		st := dualClassSet(h.Peerstore().Addrs(id))
		stored = append(stored, map[string]any{"p": label[id], "net": map[byte]string{'w': "wan", 'l': "lan"}[label[id][0]], "offered": append([]string{}, ref.Classes...), "stored": st})
	}
	sort.Slice(stored, func(i, j int) bool {
		return stored[i].(map[string]any)["p"].(string) < stored[j].(map[string]any)["p"].(string)
	})
	// the searched peer: what each half was told about it, what was known before, what is stored now
	wanOff, lanOff := map[string]bool{}, map[string]bool{}
	for i := range sc.Peers {
		for _, ref := range sc.Peers[i].Closer {
			if ref.Target {
				for _, c := range ref.Classes {
					if sc.Peers[i].Net == "wan" {
						wanOff[c] = true
					} else {
						lanOff[c] = true
					}
				}
			}
		}
	}
	keysOf := func(m map[string]bool) []string {
		out := []string{}
		for c := range m {
			out = append(out, c)
		}
		sort.Strings(out)
		return out
	}
	add("Peerstore", "learned", stored, "twan", keysOf(wanOff), "tlan", keysOf(lanOff), "tknown", append([]string{}, sc.TargetKnown...),
		"tstored", dualClassSet(h.Peerstore().Addrs(target)))
	// drain what is still parked (background work), then close
	closed := make(chan struct{})
	go func() { _ = d.Close(); close(closed) }()
	for i := 0; i < 200; i++ {
		synctest.Wait()
		select {
		case <-closed:
			i = 200
		default:
			for _, it := range gate.Pending() {
				gate.Release(it, sim.RPCOutcome{Err: errors.New("sim: shutting down")})
			}
			time.Sleep(time.Second)
		}
	}
	_ = h.Close()
	synctest.Wait()
	add("End")
	return tr.Events
}

func genDualScenario(r *rand.Rand) *DualScenario {
	ops := []string{"provide", "putvalue", "getvalue", "findpeer", "findprov", "findprov"}
	sc := &DualScenario{Seed: r.Int63(), Op: ops[r.Intn(len(ops))], K: 1 + r.Intn(3), Count: r.Intn(4)}
	sc.NoRead = sc.Op == "findprov" && r.Intn(3) == 0
	for i := 0; i < 1+r.Intn(4); i++ {
		sc.HostAddrs = append(sc.HostAddrs, dualClasses[r.Intn(len(dualClasses))])
	}
	nw, nl := r.Intn(4), r.Intn(4)
	if r.Intn(3) == 0 {
		nw = 0
	}
	if r.Intn(4) == 0 {
		nl = 0
	}
	refsOf := func() []DualRef {
		out := []DualRef{}
		for j := 0; j < r.Intn(4); j++ {
			ref := DualRef{}
			for k := 0; k < r.Intn(4); k++ {
				ref.Classes = append(ref.Classes, dualClasses[r.Intn(len(dualClasses))])
			}
			if sc.Op == "findpeer" && r.Intn(3) == 0 {
				ref.Target = true
			}
			out = append(out, ref)
		}
		return out
	}
	for i := 0; i < nw+nl; i++ {
		p := DualPeer{Net: "wan", Fail: r.Intn(6) == 0, Closer: refsOf()}
		if i >= nw {
			p.Net = "lan"
		}
		if sc.Op == "getvalue" && r.Intn(2) == 0 {
			base := 10
			if p.Net == "lan" {
				base = 20
			}
			p.Val = fmt.Sprintf("V%d", base+r.Intn(5))
			if r.Intn(6) == 0 {
				p.Val = fmt.Sprintf("I%d", base+r.Intn(5))
			}
		}
		if sc.Op == "findprov" {
			for x := 1; x <= 4; x++ {
				if r.Intn(2) == 0 {
					p.Provs = append(p.Provs, x)
				}
			}
		}
		sc.Peers = append(sc.Peers, p)
	}
	if sc.Op == "findpeer" {
		for k := 0; k < r.Intn(3); k++ {
			sc.TargetKnown = append(sc.TargetKnown, dualClasses[r.Intn(len(dualClasses))])
		}
	}
	return sc
}

func TestDualChild(t *testing.T) {
	childMain(t, func(idx int, raw json.RawMessage, progress func(any)) any {
		var j schedJob
		var sc DualScenario
		if err := json.Unmarshal(raw, &j); err != nil {
			t.Fatal(err)
		}
		if err := json.Unmarshal(j.Sc, &sc); err != nil {
			t.Fatal(err)
		}
		return runSchedJob(&j, progress, func(ch sim.Chooser) []sim.Ev { return runDual(t, &sc, ch) })
	})
}

func TestDual(t *testing.T) {
	e := getEnv(t)
	rec := newRecorder(t, e, "dual", "one run per (operation, routing-table emptiness of the two halves, scripts of the peers with address classes, arrival order of the replies of both halves); provider-merge scenarios explored by DFS over arrival orders (bounded), the rest under seeded schedules; distinct by event sequence")
	defer rec.Close(t, e)
	jobs := []*schedJob{}
	scs := []*DualScenario{}
	addJob := func(sc *DualScenario, j *schedJob) {
		j.Sc, _ = json.Marshal(sc)
		jobs = append(jobs, j)
		scs = append(scs, sc)
	}
	if e.Replay != "" {
		var wrap struct {
			Replay struct {
				Scenario *DualScenario `json:"scenario"`
				Choices  []int         `json:"choices"`
				Seed     int64         `json:"seed"`
			} `json:"replay"`
		}
		if err := readJSON(e.Replay, &wrap); err != nil {
			t.Fatal(err)
		}
		addJob(wrap.Replay.Scenario, &schedJob{Replay: true, Choices: wrap.Replay.Choices, Seed: wrap.Replay.Seed})
	} else {
		r := rand.New(rand.NewSource(e.Seed))
		nrand, perTree := 3000, 400
		if e.Tier == "thorough" {
			nrand, perTree = 60000, 6000
		}
		if e.Budget > 0 {
			nrand = e.Budget
		}
		// the same providers reported through both halves: every arrival order
		for _, count := range []int{0, 1, 2} {
			addJob(&DualScenario{Seed: 5, Op: "findprov", K: 2, Count: count, HostAddrs: []string{"public4"}, Peers: []DualPeer{
				{Net: "wan", Provs: []int{1, 2}}, {Net: "lan", Provs: []int{2, 1}}}}, &schedJob{Tree: true, PerTree: perTree})
			addJob(&DualScenario{Seed: 6, Op: "findprov", K: 2, Count: count, HostAddrs: []string{"public4"}, Peers: []DualPeer{
				{Net: "wan", Provs: []int{1}}, {Net: "wan", Provs: []int{2, 3}}, {Net: "lan", Provs: []int{1, 3}}}}, &schedJob{Tree: true, PerTree: perTree})
		}
		// the searched peer is named by both halves with different addresses: every arrival order
		addJob(&DualScenario{Seed: 8, Op: "findpeer", K: 2, HostAddrs: []string{"public4"}, Peers: []DualPeer{
			{Net: "wan", Closer: []DualRef{{Classes: []string{"public4"}, Target: true}}},
			{Net: "lan", Closer: []DualRef{{Classes: []string{"private4", "ula6"}, Target: true}}}}}, &schedJob{Tree: true, PerTree: perTree})
		addJob(&DualScenario{Seed: 9, Op: "findpeer", K: 2, HostAddrs: []string{"public4"}, TargetKnown: []string{"public6"}, Peers: []DualPeer{
			{Net: "wan", Closer: []DualRef{{Classes: []string{"public4", "private4"}}, {Classes: []string{"public4"}, Target: true}}},
			{Net: "lan", Closer: []DualRef{{Classes: []string{"private4"}}, {Classes: []string{"private4"}, Target: true}}}}}, &schedJob{Tree: true, PerTree: perTree})
		for i := 0; i < nrand; i++ {
			addJob(genDualScenario(r), &schedJob{Seed: 1 + r.Int63()})
		}
		// inbound ADD_PROVIDER to both halves' servers: every address class alone, then random mixtures
		in := []DualRef{}
		for _, c := range dualClasses {
			in = append(in, DualRef{Classes: []string{c}})
		}
		addJob(&DualScenario{Seed: 11, Op: "inbound", K: 2, Inbound: in}, &schedJob{Seed: 1})
		for i := 0; i < 10+nrand/100; i++ {
			in := []DualRef{}
			for j := 0; j < 1+r.Intn(4); j++ {
				ref := DualRef{}
				for k := 0; k < r.Intn(5); k++ {
					ref.Classes = append(ref.Classes, dualClasses[r.Intn(len(dualClasses))])
				}
				in = append(in, ref)
			}
			addJob(&DualScenario{Seed: r.Int63(), Op: "inbound", K: 2, Inbound: in}, &schedJob{Seed: 1})
		}
	}
	results := runChildren(t, e, "TestDualChild", jobs, len(jobs), 12, nil)
	for i, raw := range results {
		var out []schedResult
		if raw == nil || json.Unmarshal(raw, &out) != nil {
			rec.Problem(fmt.Sprintf("job %d produced no result", i))
			continue
		}
		for _, o := range out {
			rec.Record(o.Evs, map[string]any{"scenario": scs[i], "choices": o.Choices}, true)
			rec.Count(scs[i].Op, 1)
			if o.Exhausted {
				rec.Count("trees_exhausted", 1)
			}
		}
	}
}
