//go:build !verif

package drivers

func fullrtSetHook(f func(string)) {}
