//go:build verif

package drivers

import "github.com/libp2p/go-libp2p-kad-dht/fullrt"

func fullrtSetHook(f func(string)) { fullrt.VerifPoint = f }
