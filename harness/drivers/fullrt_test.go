package drivers

import (
	"context"
	"encoding/json"
	"errors"
	"fmt"
	"math/rand"
	"sort"
	"sync"
	"testing"
	"testing/synctest"
	"time"

	"github.com/ipfs/go-cid"
	dht "github.com/libp2p/go-libp2p-kad-dht"
	"github.com/libp2p/go-libp2p-kad-dht/crawler"
	"github.com/libp2p/go-libp2p-kad-dht/fullrt"
	pb "github.com/libp2p/go-libp2p-kad-dht/pb"
	record "github.com/libp2p/go-libp2p-record"
	recpb "github.com/libp2p/go-libp2p-record/pb"
	"github.com/libp2p/go-libp2p/core/host"
	"github.com/libp2p/go-libp2p/core/network"
	"github.com/libp2p/go-libp2p/core/peer"
	"github.com/libp2p/go-libp2p/core/protocol"
	ma "github.com/multiformats/go-multiaddr"
	mh "github.com/multiformats/go-multihash"

	"verifharness/sim"
)

// ---------------------------------------------------------------------------
// C16: the accelerated (full routing table) client and the crawler.
//  closest: GetClosestPeers of a real FullRT whose crawl result is installed
//           by a scripted crawler, against the set-theoretic definition;
//  swap:    a reader racing with the installation of a new crawl result, every
//           interleaving of their lock steps (verif hook points);
//  crawl:   the real DefaultCrawler over a scripted network: graphs, failing
//           peers, seed lists with repetitions, any order of replies;
//  ops:     every public operation on an empty table and with construction
//           options missing.
// ---------------------------------------------------------------------------

type FRTPeer struct {
	Groups []int `json:"groups"` // IPv4 /16 groups of its addresses; 0 = an address without IP
}

type FRTScenario struct {
	Kind  string    `json:"kind"` // closest | swap | crawl | ops | findprov | searchvalue
	Seed  int64     `json:"seed"`
	K     int       `json:"K"`
	Limit int       `json:"limit"`
	Peers []FRTPeer `json:"peers"`
	NKeys int       `json:"nkeys"`
	// swap: the two crawl results as index sets into Peers
	A []int `json:"a,omitempty"`
	B []int `json:"b,omitempty"`
	// crawl
	Nbrs       [][]int `json:"nbrs,omitempty"`  // per peer (1-based) the peers it lists
	Fails      []int   `json:"fails,omitempty"` // peers that cannot be queried
	Seeds      []int   `json:"seeds,omitempty"`
	SeedNoAddr []int   `json:"seednoaddr,omitempty"` // seeds given by id only, with no address known
	Par        int     `json:"par,omitempty"`
	// findprov: per table peer the providers (numbers) it reports, the count asked for, whether the caller reads slowly
	Provs    [][]int `json:"provs,omitempty"`
	Count    int     `json:"count,omitempty"`
	SlowCons bool    `json:"slowcons,omitempty"`
	// searchvalue: per table peer the value it returns ("" none, "V2:a" valid rank 2, "I1" invalid); values of equal rank may differ
	Vals []string `json:"vals,omitempty"`
	// ops: which construction options are present
	WithBootstrap bool   `json:"withbootstrap,omitempty"`
	WithBucket    bool   `json:"withbucket,omitempty"`
	Table         string `json:"table,omitempty"` // empty | small
}

const frtPrefix = protocol.ID("/veriffrt")

type scriptedCrawler struct {
	mu   sync.Mutex
	set  []peer.ID
	runs int
}

func (c *scriptedCrawler) Run(ctx context.Context, _ []*peer.AddrInfo, ok crawler.HandleQueryResult, _ crawler.HandleQueryFail) {
	c.mu.Lock()
	set := append([]peer.ID(nil), c.set...)
	c.runs++
	c.mu.Unlock()
	for _, p := range set {
		ok(p, nil)
	}
}

func frtAddr(group, i int) ma.Multiaddr {
	if group == 0 {
		return ma.StringCast(fmt.Sprintf("/dns4/peer%d.bootstrap.libp2p.io/tcp/4001", i))
	}
	return ma.StringCast(fmt.Sprintf("/ip4/5.%d.%d.%d/tcp/4001", group, 1+i/200, 1+i%200))
}

type frtEnv struct {
	h   *sim.FakeHost
	ids []peer.ID // index i-1 = scenario peer i
	fc  *scriptedCrawler
	d   *fullrt.FullRT
}

func frtBuild(t *testing.T, sc *FRTScenario, r *rand.Rand, opts ...fullrt.Option) (*frtEnv, error) {
	e := &frtEnv{fc: &scriptedCrawler{}}
	self := sim.NewPeerID(r)
	e.h = sim.NewFakeHost(self, []ma.Multiaddr{sim.DefaultAddr(0)})
	e.h.Dial = func(ctx context.Context, p peer.ID) error { return fmt.Errorf("sim: no network") }
	for i, p := range sc.Peers {
		id := sim.NewPeerID(r)
		e.ids = append(e.ids, id)
		addrs := []ma.Multiaddr{}
		for j, g := range p.Groups {
			addrs = append(addrs, frtAddr(g, (i+1)*4+j))
		}
		// the peer is kept by the crawl only if it is connected and has a public address;
		// one more public address without an IP keeps group-less peers eligible
		addrs = append(addrs, ma.StringCast(fmt.Sprintf("/dns4/p%d.bootstrap.libp2p.io/tcp/4001", i)))
		e.h.Peerstore().AddAddrs(id, addrs, time.Hour)
		e.h.Net().AddConn(id, addrs[0], network.DirOutbound)
	}
	base := []fullrt.Option{fullrt.WithCrawler(e.fc), fullrt.WithIPDiversityFilterLimit(sc.Limit), fullrt.WithCrawlInterval(time.Hour)}
	d, err := fullrt.NewFullRT(e.h, frtPrefix, append(base, opts...)...)
	if err != nil {
		return nil, err
	}
	e.d = d
	return e, nil
}

func (e *frtEnv) install(idx []int) {
	set := []peer.ID{}
	for _, i := range idx {
		set = append(set, e.ids[i-1])
	}
	e.fc.mu.Lock()
	e.fc.set = set
	e.fc.mu.Unlock()
}

// table lists the scenario peers the client's table holds (Stat), as peer numbers.
func (e *frtEnv) table() []int {
	in := map[peer.ID]bool{}
	for _, p := range e.d.Stat() {
		in[p] = true
	}
	out := []int{}
	for i, p := range e.ids {
		if in[p] {
			out = append(out, i+1)
		}
	}
	return out
}

func frtAll(n int) []int {
	out := make([]int, n)
	for i := range out {
		out[i] = i + 1
	}
	return out
}

// ranks of scenario peers by distance to key: rank[i-1] for peer i
func (e *frtEnv) ranks(key string) (map[peer.ID]int, []int) {
	order := sim.SortByDistance(e.ids, key)
	rank := map[peer.ID]int{}
	for i, p := range order {
		rank[p] = i + 1
	}
	out := make([]int, len(e.ids))
	for i, p := range e.ids {
		out[i] = rank[p]
	}
	return rank, out
}

func runFRT(t *testing.T, sc *FRTScenario, ch sim.Chooser) (evs []sim.Ev) {
	dl := runBubble(t, func(t *testing.T) {
		switch sc.Kind {
		case "closest":
			evs = runFRTClosest(t, sc)
		case "swap":
			evs = runFRTSwap(t, sc, ch)
		case "crawl":
			evs = runFRTCrawl(t, sc, ch)
		case "ops":
			evs = runFRTOps(t, sc)
		case "findprov":
			evs = runFRTFindProv(t, sc, ch)
		case "searchvalue":
			evs = runFRTSearchValue(t, sc, ch)
		}
	})
	if dl != "" {
		evs = append(evs, sim.Ev{"e": "Stuck", "what": "deadlock"}, sim.Ev{"e": "End"})
	}
	return evs
}

func frtGroupsOf(sc *FRTScenario) []any {
	out := []any{}
	for _, p := range sc.Peers {
		g := []int{}
		for _, x := range p.Groups {
			if x != 0 {
				g = append(g, x)
			}
		}
		out = append(out, g)
	}
	return out
}

func runFRTClosest(t *testing.T, sc *FRTScenario) []sim.Ev {
	r := rand.New(rand.NewSource(sc.Seed))
	tr := &sim.Trace{}
	e, err := frtBuild(t, sc, r, fullrt.DHTOption(dht.BucketSize(sc.K), dht.BootstrapPeers()))
	if err != nil {
		t.Fatalf("NewFullRT: %v", err)
	}
	e.install(frtAll(len(sc.Peers)))
	synctest.Wait()
	_ = e.d.TriggerRefresh(context.Background())
	synctest.Wait()
	tr.Add("Reset", "kind", "closest", "K", sc.K, "limit", sc.Limit, "n", len(sc.Peers), "groups", frtGroupsOf(sc), "tablesize", len(e.d.Stat()), "ts", 0)
	for k := 0; k < sc.NKeys; k++ {
		key := fmt.Sprintf("/v/frt-%d-%d", sc.Seed, k)
		rank, byPeer := e.ranks(key)
		res, err := e.d.GetClosestPeers(context.Background(), key)
		out := []int{}
		for _, p := range res {
			out = append(out, rank[p]) // 0 = not a crawled peer
		}
		tr.Add("Closest", "rankof", byPeer, "crawled", e.table(), "result", out, "err", errS(err))
	}
	_ = e.d.Close()
	_ = e.h.Close()
	synctest.Wait()
	tr.Add("End")
	return tr.Events
}

// runFRTSwap: one reader of GetClosestPeers and the installation of crawl B over crawl A, their
// lock steps interleaved by the chooser through the verif hook points.
func runFRTSwap(t *testing.T, sc *FRTScenario, ch sim.Chooser) []sim.Ev {
	r := rand.New(rand.NewSource(sc.Seed))
	tr := &sim.Trace{}
	var mu sync.Mutex
	add := func(e string, kv ...any) { mu.Lock(); tr.Add(e, kv...); mu.Unlock() }
	e, err := frtBuild(t, sc, r, fullrt.DHTOption(dht.BucketSize(sc.K), dht.BootstrapPeers()))
	if err != nil {
		t.Fatalf("NewFullRT: %v", err)
	}
	e.install(sc.A)
	synctest.Wait()
	_ = e.d.TriggerRefresh(context.Background())
	synctest.Wait()
	key := fmt.Sprintf("/v/frtswap-%d", sc.Seed)
	rank, byPeer := e.ranks(key)
	add("Reset", "kind", "swap", "K", sc.K, "limit", sc.Limit, "n", len(sc.Peers), "groups", frtGroupsOf(sc), "tablesize", len(e.d.Stat()),
		"rankof", byPeer, "a", sim.Ints(sc.A), "b", sim.Ints(sc.B), "ts", 0)
	gate := &sim.Gate{}
	armed := true
	fullrtSetHook(func(point string) {
		if !armed {
			return
		}
		add("Point", "at", point)
		_, _ = gate.Park(nil, "point", point, nil)
	})
	defer fullrtSetHook(nil)
	e.install(sc.B)
	done := make(chan struct{})
	var res []peer.ID
	var rerr error
	go func() {
		defer close(done)
		res, rerr = e.d.GetClosestPeers(context.Background(), key)
	}()
	trig := make(chan struct{})
	go func() {
		defer close(trig)
		_ = e.d.TriggerRefresh(context.Background())
	}()
	// release parked steps in chooser order until the reader is done and the swap has ended
	swapEnded := false
	for i := 0; i < 40; i++ {
		if !sim.SettleBubble() {
			add("Stuck", "what", "no quiescence")
			break
		}
		p := gate.Pending()
		if len(p) == 0 {
			select {
			case <-done:
				if swapEnded {
					i = 40
				}
			default:
			}
			if i < 40 && len(gate.Pending()) == 0 {
				// nothing parked: either all is over or the crawl goroutine has not got there yet
				select {
				case <-done:
					if e.fc.runs >= 2 && swapEnded {
						i = 40
					}
				default:
				}
				time.Sleep(time.Millisecond)
			}
			continue
		}
		it := p[ch.Choose(len(p))]
		if it.Label == "swap:end" {
			swapEnded = true
		}
		add("Release", "at", it.Label)
		gate.Release(it, nil)
	}
	armed = false
	for _, it := range gate.Pending() {
		gate.Release(it, nil)
	}
	<-done
	<-trig
	out := []int{}
	for _, p := range res {
		out = append(out, rank[p])
	}
	add("SwapResult", "result", out, "err", errS(rerr))
	// after the swap a reader sees crawl B
	synctest.Wait()
	res2, err2 := e.d.GetClosestPeers(context.Background(), key)
	out2 := []int{}
	for _, p := range res2 {
		out2 = append(out2, rank[p])
	}
	add("Closest", "rankof", byPeer, "crawled", e.table(), "result", out2, "err", errS(err2))
	_ = e.d.Close()
	_ = e.h.Close()
	synctest.Wait()
	add("End")
	return tr.Events
}

// runFRTOps: operations on an empty (or tiny) table, with construction options missing.
func runFRTOps(t *testing.T, sc *FRTScenario) []sim.Ev {
	r := rand.New(rand.NewSource(sc.Seed))
	tr := &sim.Trace{}
	tr.Add("Reset", "kind", "ops", "K", sc.K, "limit", sc.Limit, "n", len(sc.Peers), "groups", frtGroupsOf(sc), "tablesize", 0,
		"withbootstrap", sc.WithBootstrap, "withbucket", sc.WithBucket, "table", sc.Table, "ts", 0)
	dopts := []dht.Option{dht.Validator(record.NamespacedValidator{"v": simValidator{}})}
	if sc.WithBootstrap {
		dopts = append(dopts, dht.BootstrapPeers())
	}
	if sc.WithBucket {
		dopts = append(dopts, dht.BucketSize(sc.K))
	}
	var e *frtEnv
	cons := func() (p string, err error) {
		defer func() {
			if x := recover(); x != nil {
				p = fmt.Sprint(x)
			}
		}()
		e, err = frtBuild(t, sc, r, fullrt.DHTOption(dopts...), fullrt.WithTimeoutPerOperation(time.Second))
		return "", err
	}
	pmsg, err := cons()
	tr.Add("Op", "op", "new", "panic", pmsg, "err", errS(err), "hang", false)
	if pmsg != "" || err != nil {
		tr.Add("End")
		return tr.Events
	}
	if sc.Table == "small" {
		e.install(frtAll(len(sc.Peers)))
	}
	synctest.Wait()
	_ = e.d.TriggerRefresh(context.Background())
	synctest.Wait()
	b := make([]byte, 32)
	r.Read(b)
	hsh, _ := mh.Encode(b, mh.SHA2_256)
	c := cid.NewCidV1(cid.Raw, hsh)
	key := fmt.Sprintf("/v/frtops-%d", sc.Seed)
	ops := []struct {
		name string
		f    func(ctx context.Context) error
	}{
		{"closest", func(ctx context.Context) error { _, err := e.d.GetClosestPeers(ctx, key); return err }},
		{"putvalue", func(ctx context.Context) error { return e.d.PutValue(ctx, key, []byte("V1")) }},
		{"getvalue", func(ctx context.Context) error { _, err := e.d.GetValue(ctx, key); return err }},
		{"searchvalue", func(ctx context.Context) error {
			ch, err := e.d.SearchValue(ctx, key)
			if err == nil {
				for range ch {
				}
			}
			return err
		}},
		{"provide", func(ctx context.Context) error { return e.d.Provide(ctx, c, true) }},
		{"findprov", func(ctx context.Context) error {
			for range e.d.FindProvidersAsync(ctx, c, 1) {
			}
			return nil
		}},
		{"findpeer", func(ctx context.Context) error { _, err := e.d.FindPeer(ctx, sim.NewPeerID(r)); return err }},
		{"providemany", func(ctx context.Context) error { return e.d.ProvideMany(ctx, []mh.Multihash{hsh}) }},
		{"putmany", func(ctx context.Context) error { return e.d.PutMany(ctx, []string{key}, [][]byte{[]byte("V1")}) }},
	}
	for _, op := range ops {
		done := make(chan struct{})
		var err error
		pmsg := ""
		ctx, cancel := context.WithCancel(context.Background())
		go func() {
			defer close(done)
			defer func() {
				if x := recover(); x != nil {
					pmsg = fmt.Sprint(x)
				}
			}()
			err = op.f(ctx)
		}()
		hang := false
		select {
		case <-done:
		case <-time.After(2 * time.Hour):
			hang = true
		}
		cancel()
		if hang {
			select {
			case <-done:
			case <-time.After(time.Hour):
			}
		}
		tr.Add("Op", "op", op.name, "panic", pmsg, "err", errS(err), "hang", hang)
		if hang {
			break
		}
	}
	cl := make(chan struct{})
	go func() { _ = e.d.Close(); close(cl) }()
	select {
	case <-cl:
	case <-time.After(time.Hour):
		tr.Add("Op", "op", "close", "panic", "", "err", "", "hang", true)
	}
	_ = e.h.Close()
	tr.Add("End")
	return tr.Events
}

// runFRTFindProv: a provider search of the accelerated client. Every peer of its table answers GET_PROVIDERS with
// scripted providers; the schedule decides the order in which answers arrive and, with a slow caller, when the
// caller takes the next provider from the channel (several answers can then be processed while none has been taken).
func runFRTFindProv(t *testing.T, sc *FRTScenario, ch sim.Chooser) []sim.Ev {
	r := rand.New(rand.NewSource(sc.Seed))
	tr := &sim.Trace{}
	gate := &sim.Gate{}
	sender := &sim.GatedSender{G: gate}
	e, err := frtBuild(t, sc, r, fullrt.DHTOption(dht.BucketSize(sc.K), dht.BootstrapPeers(),
		dht.WithCustomMessageSender(func(host.Host, []protocol.ID) pb.MessageSenderWithDisconnect { return sender })))
	tr.Add("Reset", "kind", "findprov", "count", sc.Count, "slowcons", sc.SlowCons, "npeers", len(sc.Peers), "ts", 0)
	if err != nil {
		tr.Add("FP", "emitted", []int{}, "offered", []int{}, "hang", false, "err", err.Error())
		tr.Add("End")
		return tr.Events
	}
	e.install(frtAll(len(sc.Peers)))
	synctest.Wait()
	_ = e.d.TriggerRefresh(context.Background())
	synctest.Wait()
	idx := map[peer.ID]int{}
	for i, p := range e.ids {
		idx[p] = i + 1
	}
	provIDs := []peer.ID{}
	pnum := map[peer.ID]int{}
	for i := 0; i < 4; i++ {
		p := sim.NewPeerID(r)
		provIDs = append(provIDs, p)
		pnum[p] = i + 1
	}
	b := make([]byte, 32)
	r.Read(b)
	hsh, _ := mh.Encode(b, mh.SHA2_256)
	c := cid.NewCidV1(cid.Raw, hsh)
	ctx, cancel := context.WithCancel(context.Background())
	defer cancel()
	var mu sync.Mutex
	emitted := []int{}
	done := make(chan struct{})
	go func() {
		defer close(done)
		for ai := range e.d.FindProvidersAsync(ctx, c, sc.Count) {
			mu.Lock()
			emitted = append(emitted, pnum[ai.ID])
			mu.Unlock()
			if sc.SlowCons {
				_, _ = gate.Park(nil, "consume", "consume", nil)
			}
		}
	}()
	offered := map[int]bool{}
	hang := false
	for steps := 0; steps < 5000; steps++ {
		synctest.Wait()
		select {
		case <-done:
		default:
			items := gate.Pending()
			if len(items) == 0 {
				select {
				case <-done:
				case <-time.After(time.Hour):
					hang = true
				}
				if hang {
					break
				}
				continue
			}
			it := items[ch.Choose(len(items))]
			if it.Kind == "consume" {
				gate.Release(it, nil)
				continue
			}
			rpc := it.Payload.(*sim.RPC)
			o := sim.RPCOutcome{}
			if rpc.Request {
				resp := &pb.Message{Type: rpc.Msg.GetType(), Key: rpc.Msg.GetKey()}
				if i := idx[rpc.Peer]; i >= 1 && i <= len(sc.Provs) && rpc.Msg.GetType() == pb.Message_GET_PROVIDERS {
					for _, x := range sc.Provs[i-1] {
						resp.ProviderPeers = append(resp.ProviderPeers, &pb.Message_Peer{Id: []byte(provIDs[x-1]), Addrs: [][]byte{sim.DefaultAddr(600 + x).Bytes()}})
						offered[x] = true
					}
				}
				o.Resp = resp
			}
			gate.Release(it, o)
			continue
		}
		break
	}
	cancel()
	for _, it := range gate.Pending() {
		if it.Kind == "consume" {
			gate.Release(it, nil)
		} else {
			gate.Release(it, sim.RPCOutcome{Err: errors.New("sim: shutting down")})
		}
	}
	if hang {
		select {
		case <-done:
		case <-time.After(time.Hour):
		}
	}
	off := []int{}
	for x := range offered {
		off = append(off, x)
	}
	sort.Ints(off)
	mu.Lock()
	em := append([]int{}, emitted...)
	mu.Unlock()
	tr.Add("FP", "emitted", em, "offered", off, "hang", hang, "err", "")
	cl := make(chan struct{})
	go func() { _ = e.d.Close(); close(cl) }()
	for i := 0; i < 50; i++ {
		synctest.Wait()
		for _, it := range gate.Pending() {
			if it.Kind == "consume" {
				gate.Release(it, nil)
			} else {
				gate.Release(it, sim.RPCOutcome{Err: errors.New("sim: shutting down")})
			}
		}
		select {
		case <-cl:
			i = 50
		default:
			time.Sleep(time.Second)
		}
	}
	_ = e.h.Close()
	tr.Add("End")
	return tr.Events
}

// runFRTSearchValue: a value search of the accelerated client. Every table peer answers GET_VALUE with its scripted
// record; the stream of values the caller receives has to improve strictly under the validator (different records
// of equal rank are not improvements), hold valid values only, and end.
func runFRTSearchValue(t *testing.T, sc *FRTScenario, ch sim.Chooser) []sim.Ev {
	r := rand.New(rand.NewSource(sc.Seed))
	tr := &sim.Trace{}
	gate := &sim.Gate{}
	sender := &sim.GatedSender{G: gate}
	e, err := frtBuild(t, sc, r, fullrt.DHTOption(dht.BucketSize(sc.K), dht.BootstrapPeers(), dht.Validator(record.NamespacedValidator{"v": simValidator{}}),
		dht.WithCustomMessageSender(func(host.Host, []protocol.ID) pb.MessageSenderWithDisconnect { return sender })))
	tr.Add("Reset", "kind", "searchvalue", "count", 0, "slowcons", sc.SlowCons, "npeers", len(sc.Peers), "ts", 0)
	if err != nil {
		tr.Add("SV", "ranks", []int{}, "valid", true, "offered", true, "hang", false, "err", err.Error())
		tr.Add("End")
		return tr.Events
	}
	e.install(frtAll(len(sc.Peers)))
	synctest.Wait()
	_ = e.d.TriggerRefresh(context.Background())
	synctest.Wait()
	idx := map[peer.ID]int{}
	for i, p := range e.ids {
		idx[p] = i + 1
	}
	key := fmt.Sprintf("/v/frtsv-%d", sc.Seed)
	ctx, cancel := context.WithCancel(context.Background())
	defer cancel()
	var mu sync.Mutex
	got := []string{}
	done := make(chan struct{})
	go func() {
		defer close(done)
		out, err := e.d.SearchValue(ctx, key)
		if err != nil {
			return
		}
		for v := range out {
			mu.Lock()
			got = append(got, string(v))
			mu.Unlock()
			if sc.SlowCons {
				_, _ = gate.Park(nil, "consume", "consume", nil)
			}
		}
	}()
	delivered := map[string]bool{}
	hang := false
	drain := func() {
		for _, it := range gate.Pending() {
			if it.Kind == "consume" {
				gate.Release(it, nil)
			} else {
				gate.Release(it, sim.RPCOutcome{Err: errors.New("sim: shutting down")})
			}
		}
	}
	for steps := 0; steps < 5000; steps++ {
		synctest.Wait()
		select {
		case <-done:
		default:
			items := gate.Pending()
			if len(items) == 0 {
				select {
				case <-done:
				case <-time.After(time.Hour):
					hang = true
				}
				if hang {
					break
				}
				continue
			}
			it := items[ch.Choose(len(items))]
			if it.Kind == "consume" {
				gate.Release(it, nil)
				continue
			}
			rpc := it.Payload.(*sim.RPC)
			o := sim.RPCOutcome{}
			if rpc.Request {
				resp := &pb.Message{Type: rpc.Msg.GetType(), Key: rpc.Msg.GetKey()}
				if i := idx[rpc.Peer]; i >= 1 && i <= len(sc.Vals) && rpc.Msg.GetType() == pb.Message_GET_VALUE && sc.Vals[i-1] != "" {
					resp.Record = &recpb.Record{Key: rpc.Msg.GetKey(), Value: []byte(sc.Vals[i-1])}
					delivered[sc.Vals[i-1]] = true
				}
				if rpc.Msg.GetType() == pb.Message_PUT_VALUE {
					resp.Record = rpc.Msg.GetRecord()
				}
				o.Resp = resp
			}
			gate.Release(it, o)
			continue
		}
		break
	}
	cancel()
	drain()
	if hang {
		select {
		case <-done:
		case <-time.After(time.Hour):
		}
	}
	mu.Lock()
	vals := append([]string{}, got...)
	mu.Unlock()
	ranks := []int{}
	valid, offered := true, true
	for _, v := range vals {
		ok, rk := valRank([]byte(v))
		ranks = append(ranks, rk)
		valid = valid && ok
		offered = offered && delivered[v]
	}
	tr.Add("SV", "ranks", ranks, "valid", valid, "offered", offered, "hang", hang, "err", "")
	cl := make(chan struct{})
	go func() { _ = e.d.Close(); close(cl) }()
	for i := 0; i < 50; i++ {
		synctest.Wait()
		drain()
		select {
		case <-cl:
			i = 50
		default:
			time.Sleep(time.Second)
		}
	}
	_ = e.h.Close()
	tr.Add("End")
	return tr.Events
}

// runFRTCrawl: the real crawler against a scripted network.
func runFRTCrawl(t *testing.T, sc *FRTScenario, ch sim.Chooser) []sim.Ev {
	r := rand.New(rand.NewSource(sc.Seed))
	tr := &sim.Trace{}
	n := len(sc.Nbrs)
	self := sim.NewPeerID(r)
	ids := make([]peer.ID, n)
	for i := range ids {
		ids[i] = sim.NewPeerID(r)
	}
	idx := map[peer.ID]int{}
	for i, p := range ids {
		idx[p] = i + 1
	}
	fails := map[int]bool{}
	for _, f := range sc.Fails {
		fails[f] = true
	}
	h := sim.NewFakeHost(self, []ma.Multiaddr{sim.DefaultAddr(0)})
	gate := &sim.Gate{}
	h.Dial = func(ctx context.Context, p peer.ID) error {
		v, err := gate.Park(ctx, "dial", fmt.Sprintf("%03d/dial", idx[p]), p)
		if err != nil {
			return err
		}
		if v != nil {
			return v.(error)
		}
		return nil
	}
	sender := &sim.GatedSender{G: gate, LabelOf: func(rpc *sim.RPC) string { return fmt.Sprintf("%03d/req/%x", idx[rpc.Peer], rpc.Msg.GetKey()) }}
	c, err := crawler.NewDefaultCrawler(h, crawler.WithParallelism(sc.Par), crawler.WithConnectTimeout(5*time.Second), crawler.WithMsgTimeout(5*time.Second),
		crawler.WithCustomMessageSender(func(host.Host, []protocol.ID) pb.MessageSenderWithDisconnect { return sender }))
	if err != nil {
		t.Fatalf("NewDefaultCrawler: %v", err)
	}
	seeds := []*peer.AddrInfo{}
	noAddr := map[int]bool{}
	for _, s := range sc.SeedNoAddr {
		noAddr[s] = true
	}
	for _, s := range sc.Seeds {
		ai := &peer.AddrInfo{ID: ids[s-1]}
		if !noAddr[s] {
			ai.Addrs = []ma.Multiaddr{frtAddr(1, s)}
		}
		seeds = append(seeds, ai)
	}
	var mu sync.Mutex
	okCount := map[int]int{}
	failCount := map[int]int{}
	done := make(chan struct{})
	go func() {
		defer close(done)
		c.Run(context.Background(), seeds,
			func(p peer.ID, _ []*peer.AddrInfo) { mu.Lock(); okCount[idx[p]]++; mu.Unlock() },
			func(p peer.ID, _ error) { mu.Lock(); failCount[idx[p]]++; mu.Unlock() })
	}()
	hang := false
	for steps := 0; ; steps++ {
		synctest.Wait()
		select {
		case <-done:
		default:
			p := gate.Pending()
			if len(p) == 0 || steps > 100000 {
				hang = true
				break
			}
			it := p[ch.Choose(len(p))]
			switch it.Kind {
			case "dial":
				if fails[idx[it.Payload.(peer.ID)]] {
					gate.Release(it, fmt.Errorf("sim: dial refused"))
				} else {
					gate.Release(it, nil)
				}
			default:
				rpc := it.Payload.(*sim.RPC)
				resp := &pb.Message{Type: rpc.Msg.GetType(), Key: rpc.Msg.GetKey()}
				for _, nb := range sc.Nbrs[idx[rpc.Peer]-1] {
					resp.CloserPeers = append(resp.CloserPeers, &pb.Message_Peer{Id: []byte(ids[nb-1]), Addrs: [][]byte{frtAddr(1, nb).Bytes()}})
				}
				gate.Release(it, sim.RPCOutcome{Resp: resp})
			}
			continue
		}
		break
	}
	mu.Lock()
	connects, oks, fs := make([]int, n), make([]int, n), make([]int, n)
	for i := range ids {
		connects[i] = h.ConnectCalls[ids[i]]
		oks[i] = okCount[i+1]
		fs[i] = failCount[i+1]
	}
	mu.Unlock()
	nb := []any{}
	for _, x := range sc.Nbrs {
		nb = append(nb, append([]int{}, x...))
	}
	tr.Add("Reset", "kind", "crawl", "K", 0, "limit", 0, "n", n, "groups", []any{}, "tablesize", 0, "ts", 0)
	tr.Add("Crawl", "n", n, "nbrs", nb, "fails", append([]int{}, sc.Fails...), "seeds", append([]int{}, sc.Seeds...), "seednoaddr", append([]int{}, sc.SeedNoAddr...), "par", sc.Par,
		"connects", connects, "ok", oks, "fail", fs, "hang", hang)
	if hang {
		for _, it := range gate.Pending() {
			gate.Release(it, fmt.Errorf("sim: shutting down"))
		}
	}
	_ = h.Close()
	tr.Add("End")
	return tr.Events
}

func genFRTScenario(r *rand.Rand, kind string) *FRTScenario {
	sc := &FRTScenario{Kind: kind, Seed: r.Int63(), K: 1 + r.Intn(4), Limit: r.Intn(4), NKeys: 4}
	switch kind {
	case "closest":
		n := r.Intn(13)
		if r.Intn(12) == 0 {
			n = 100 + r.Intn(300)
			sc.K = 1 + r.Intn(20)
		}
		ng := 1 + r.Intn(3)
		if n > 50 {
			ng = 5 + r.Intn(60)
		}
		for i := 0; i < n; i++ {
			// every peer has at least one public IP address (the crawl keeps no others)
			p := FRTPeer{Groups: []int{1 + r.Intn(ng)}}
			for j := 0; j < r.Intn(3); j++ {
				if r.Intn(6) == 0 {
					p.Groups = append(p.Groups, 0)
				} else {
					p.Groups = append(p.Groups, 1+r.Intn(ng))
				}
			}
			sc.Peers = append(sc.Peers, p)
		}
	case "swap":
		n := 6 + r.Intn(6)
		sc.Limit = 0
		if r.Intn(3) == 0 {
			sc.Limit = 1 + r.Intn(2)
		}
		for i := 0; i < n; i++ {
			p := FRTPeer{Groups: []int{1 + r.Intn(3)}}
			sc.Peers = append(sc.Peers, p)
		}
		for i := 1; i <= n; i++ {
			switch r.Intn(3) {
			case 0:
				sc.A = append(sc.A, i)
			case 1:
				sc.B = append(sc.B, i)
			default:
				sc.A = append(sc.A, i)
				sc.B = append(sc.B, i)
			}
		}
	case "crawl":
		n := 1 + r.Intn(6)
		for i := 0; i < n; i++ {
			nb := []int{}
			for j := 1; j <= n; j++ {
				if r.Intn(3) == 0 {
					nb = append(nb, j)
				}
			}
			sc.Nbrs = append(sc.Nbrs, nb)
			if r.Intn(5) == 0 {
				sc.Fails = append(sc.Fails, i+1)
			}
		}
		for j := 0; j < r.Intn(4); j++ {
			sc.Seeds = append(sc.Seeds, 1+r.Intn(n))
		}
		for _, sd := range sc.Seeds {
			if r.Intn(4) == 0 {
				sc.SeedNoAddr = append(sc.SeedNoAddr, sd)
			}
		}
		sc.Par = 1 + r.Intn(3)
	case "searchvalue":
		sc.K = 20
		sc.Limit = 0
		n := 2 + r.Intn(4)
		for i := 0; i < n; i++ {
			sc.Peers = append(sc.Peers, FRTPeer{Groups: []int{1 + i}})
			sc.Vals = append(sc.Vals, []string{"", "V1:a", "V1:b", "V2:a", "V2:b", "V3:a", "I1"}[r.Intn(7)])
		}
		sc.SlowCons = r.Intn(2) == 0
	case "findprov":
		sc.K = 20
		sc.Limit = 0
		n := 2 + r.Intn(4)
		for i := 0; i < n; i++ {
			sc.Peers = append(sc.Peers, FRTPeer{Groups: []int{1 + i}})
			pv := []int{}
			for x := 1; x <= 4; x++ {
				if r.Intn(2) == 0 {
					pv = append(pv, x)
				}
			}
			sc.Provs = append(sc.Provs, pv)
		}
		sc.Count = r.Intn(4)
		sc.SlowCons = r.Intn(2) == 0
	case "ops":
		sc.WithBootstrap = r.Intn(2) == 0
		sc.WithBucket = r.Intn(2) == 0
		sc.Limit = []int{0, 3}[r.Intn(2)]
		sc.Table = []string{"empty", "small"}[r.Intn(2)]
		for i := 0; i < 1+r.Intn(3); i++ {
			sc.Peers = append(sc.Peers, FRTPeer{Groups: []int{1 + i}})
		}
	}
	return sc
}

func TestFullRTChild(t *testing.T) {
	childMain(t, func(idx int, raw json.RawMessage, progress func(any)) any {
		var j schedJob
		var sc FRTScenario
		if err := json.Unmarshal(raw, &j); err != nil {
			t.Fatal(err)
		}
		if err := json.Unmarshal(j.Sc, &sc); err != nil {
			t.Fatal(err)
		}
		return runSchedJob(&j, progress, func(ch sim.Chooser) []sim.Ev { return runFRT(t, &sc, ch) })
	})
}

func frtCrashRun(sc *FRTScenario, output string, stalled bool) []sim.Ev {
	what := "crashed: " + crashLine(output)
	if stalled {
		what = "no progress in real time (busy loop or blocked where the runtime cannot see it as idle)"
	}
	return []sim.Ev{{"e": "Reset", "kind": sc.Kind, "K": sc.K, "limit": sc.Limit, "n": len(sc.Peers), "groups": []any{}, "tablesize": 0, "ts": 0},
		{"e": "Stuck", "what": what}, {"e": "End"}}
}

func TestFullRT(t *testing.T) {
	e := getEnv(t)
	rec := newRecorder(t, e, "fullrt", "closest: one run per (crawled set with IP groups, K, diversity limit) x 4 keys; swap: one run per (two crawl results, interleaving of reader and swap lock steps), DFS over the whole choice tree; crawl: one run per (graph, failing peers, seed list, parallelism, reply order); ops: one run per (options present, table content); distinct by event sequence")
	defer rec.Close(t, e)
	jobs := []*schedJob{}
	scs := []*FRTScenario{}
	addJob := func(sc *FRTScenario, j *schedJob) {
		j.Sc, _ = json.Marshal(sc)
		jobs = append(jobs, j)
		scs = append(scs, sc)
	}
	if e.Replay != "" {
		var wrap struct {
			Replay struct {
				Scenario *FRTScenario `json:"scenario"`
				Choices  []int        `json:"choices"`
				Seed     int64        `json:"seed"`
			} `json:"replay"`
		}
		if err := readJSON(e.Replay, &wrap); err != nil {
			t.Fatal(err)
		}
		addJob(wrap.Replay.Scenario, &schedJob{Replay: true, Choices: wrap.Replay.Choices, Seed: wrap.Replay.Seed})
	} else {
		r := rand.New(rand.NewSource(e.Seed))
		nClosest, nSwap, nCrawl, perTree := 1500, 40, 1500, 200
		if e.Tier == "thorough" {
			nClosest, nSwap, nCrawl, perTree = 30000, 400, 40000, 2000
		}
		if e.Budget > 0 {
			nClosest = e.Budget
		}
		for i := 0; i < nClosest; i++ {
			addJob(genFRTScenario(r, "closest"), &schedJob{Seed: 1 + r.Int63()})
		}
		for i := 0; i < nSwap; i++ {
			addJob(genFRTScenario(r, "swap"), &schedJob{Tree: true, PerTree: perTree})
		}
		for i := 0; i < nCrawl; i++ {
			addJob(genFRTScenario(r, "crawl"), &schedJob{Seed: 1 + r.Int63()})
		}
		for i := 0; i < nCrawl/4; i++ {
			addJob(genFRTScenario(r, "findprov"), &schedJob{Seed: 1 + r.Int63()})
			addJob(genFRTScenario(r, "searchvalue"), &schedJob{Seed: 1 + r.Int63()})
		}
		for _, wb := range []bool{true, false} {
			for _, wk := range []bool{true, false} {
				for _, lim := range []int{0, 3} {
					for _, tb := range []string{"empty", "small"} {
						sc := genFRTScenario(r, "ops")
						sc.WithBootstrap, sc.WithBucket, sc.Limit, sc.Table = wb, wk, lim, tb
						addJob(sc, &schedJob{Seed: 1 + r.Int63()})
					}
				}
			}
		}
	}
	crashed := map[int]map[string]any{}
	var cmu sync.Mutex
	results := runChildren(t, e, "TestFullRTChild", jobs, len(jobs), 12, func(idx int, info json.RawMessage, output string, stalled bool) any {
		cmu.Lock()
		crashed[idx] = schedReplayOf(scs[idx], info)
		cmu.Unlock()
		return []schedResult{{Evs: frtCrashRun(scs[idx], output, stalled)}}
	})
	for i, raw := range results {
		var out []schedResult
		if raw == nil || json.Unmarshal(raw, &out) != nil {
			rec.Count("skipped_after_stalls", 1)
			continue
		}
		for _, o := range out {
			rp := map[string]any{"scenario": scs[i], "choices": o.Choices}
			if c := crashed[i]; c != nil {
				rp = c
			}
			rec.Record(o.Evs, rp, true)
			rec.Count(scs[i].Kind, 1)
			if o.Exhausted {
				rec.Count("trees_exhausted", 1)
			}
		}
	}
	_ = sort.Ints
}
