package drivers

import (
	"context"
	"crypto/sha256"
	"errors"
	"fmt"
	"math/rand"
	"os"
	"sort"
	"testing"
	"testing/synctest"
	"time"

	"github.com/ipfs/go-cid"
	ds "github.com/ipfs/go-datastore"
	"github.com/ipfs/go-libdht/kad/key/bitstr"
	"github.com/libp2p/go-libp2p-kad-dht/provider/keystore"
	mh "github.com/multiformats/go-multihash"

	"verifharness/sim"
)

const ksBits = 12 // abstract keys are the first ksBits bits of the Kademlia identifier

// KSOp is one step of a keystore history.
type KSOp struct {
	Kind   string `json:"kind"` // put | get | count | contains | delete | empty | size | reopen | crash | reset
	Keys   []int  `json:"keys"`
	Prefix []int  `json:"prefix"`
	Limit  int    `json:"limit"`
}

// KSScenario is a keystore configuration plus a history. During a reset the
// scheduler interleaves the reset's datastore accesses with external actions.
type KSScenario struct {
	Seed       int64  `json:"seed"`
	Resettable bool   `json:"resettable"`
	Factory    bool   `json:"factory"`
	PrefixBits int    `json:"prefixbits"`
	Batch      int    `json:"batch"`
	BufCap     int    `json:"bufcap"`
	Ops        []KSOp `json:"ops"`
}

var ksUniverse []mh.Multihash // index -> multihash
var ksVals []int             // index -> ksBits-bit value

// 12 keys: two clusters sharing their first byte, so that prefixes longer than
// 8 bits (the post-filter path) still match several keys
func ksInit() {
	if ksUniverse != nil {
		return
	}
	r := rand.New(rand.NewSource(77))
	want := map[int]int{0x00: 6, 0xA5: 6}
	seen := map[int]bool{}
	for len(ksUniverse) < 12 {
		b := make([]byte, 32)
		r.Read(b)
		h, _ := mh.Encode(b, mh.SHA2_256)
		k := sha256.Sum256(h)
		top := int(k[0])
		v := int(k[0])<<4 | int(k[1])>>4
		if want[top] > 0 && !seen[v] {
			want[top]--
			seen[v] = true
			ksUniverse = append(ksUniverse, h)
			ksVals = append(ksVals, v)
		}
	}
}

func ksIndex(h mh.Multihash) int {
	for i, x := range ksUniverse {
		if string(x) == string(h) {
			return i
		}
	}
	return -1
}

func ksBitsOf(i int) []int {
	out := make([]int, ksBits)
	for b := 0; b < ksBits; b++ {
		out[b] = (ksVals[i] >> (ksBits - 1 - b)) & 1
	}
	return out
}

func ksPrefix(p []int) bitstr.Key {
	s := ""
	for _, b := range p {
		s += fmt.Sprint(b)
	}
	return bitstr.Key(s)
}

func ksIdx(hs []mh.Multihash) []int {
	out := []int{}
	for _, h := range hs {
		out = append(out, ksIndex(h))
	}
	sort.Ints(out)
	return out
}

func ksMhs(ix []int) []mh.Multihash {
	out := []mh.Multihash{}
	for _, i := range ix {
		out = append(out, ksUniverse[i])
	}
	return out
}

// ksStores is the "disk": the meta store and, in factory mode, one store per slot.
type ksStores struct {
	clock *sim.JournalClock
	meta  *sim.JournalDS
	slots map[string]*sim.JournalDS
}

func (st *ksStores) all() []*sim.JournalDS {
	out := []*sim.JournalDS{st.meta}
	for _, k := range []string{"0", "1"} {
		if s := st.slots[k]; s != nil {
			out = append(out, s)
		}
	}
	return out
}

type ksEnv struct {
	sc     *KSScenario
	tr     *sim.Trace
	st     *ksStores
	gate   *sim.Gate
	gating bool
	ks     keystore.Keystore
	rks    *keystore.ResettableKeystore
}

func (e *ksEnv) wrap(j *sim.JournalDS) ds.Batching {
	g := &sim.GateDS{Inner: j, G: e.gate}
	if os.Getenv("VERIF_DEBUG") != "" {
		g.OnApply = func(op *sim.DSOp) {
			keys := op.Key
			for _, b := range op.Batch {
				keys += " " + b.Op + ":" + b.Key
			}
			fmt.Printf("DS %s %s %s found=%v n=%d\n", j.Name, op.Op, keys, op.Found, op.N)
		}
	}
	g.ActorOf = func() string {
		if e.gating {
			return j.Name
		}
		return ""
	}
	return g
}

func (e *ksEnv) open(t *testing.T) error {
	sc := e.sc
	base := []keystore.Option{keystore.WithPrefixBits(sc.PrefixBits), keystore.WithBatchSize(sc.Batch)}
	if !sc.Resettable {
		k, err := keystore.NewKeystore(e.wrap(e.st.meta), base...)
		e.ks, e.rks = k, nil
		return err
	}
	opts := []keystore.ResettableKeystoreOption{keystore.KeystoreOption(base...), keystore.WithResetBufferCapacity(sc.BufCap)}
	if sc.Factory {
		opts = append(opts, keystore.WithDatastoreFactory(
			func(suffix string) (ds.Batching, error) {
				s := e.st.slots[suffix]
				if s == nil {
					s = sim.NewJournalDS("slot"+suffix, e.st.clock)
					e.st.slots[suffix] = s
				}
				return e.wrap(s), nil
			},
			func(suffix string) error {
				if s := e.st.slots[suffix]; s != nil {
					// destroying a datastore removes all of its content at once
					b, _ := s.Batch(context.Background())
					for k := range s.Content() {
						_ = b.Delete(context.Background(), ds.RawKey(k))
					}
					_ = b.Commit(context.Background())
					_ = s.Sync(context.Background(), ds.NewKey(""))
				}
				return nil
			}))
	}
	r, err := keystore.NewResettableKeystore(e.wrap(e.st.meta), opts...)
	e.rks = r
	if r != nil {
		e.ks = r
	}
	return err
}

func (e *ksEnv) observe(kind string, now func() int) {
	ctx := context.Background()
	all, err := e.ks.Get(ctx, bitstr.Key(""))
	sz, err2 := e.ks.Size(ctx)
	e.tr.Add("Reopen", "kind", kind, "content", ksIdx(all), "ndup", len(all), "size", sz, "err", err != nil || err2 != nil, "ts", now())
}

func runKS(t *testing.T, sc *KSScenario, ch sim.Chooser) (evs []sim.Ev) {
	dl := runBubble(t, func(t *testing.T) { evs = runKSInBubble(t, sc, ch) })
	if dl != "" && len(evs) == 0 {
		return []sim.Ev{{"e": "Reset", "bits": []any{}, "resettable": sc.Resettable, "factory": sc.Factory, "prefixbits": sc.PrefixBits, "batch": sc.Batch, "ts": 0},
			{"e": "Stuck", "msg": dl, "ts": 0}, {"e": "End", "ts": 0}}
	}
	if dl != "" {
		end := evs[len(evs)-1]
		evs = append(evs[:len(evs)-1], sim.Ev{"e": "Stuck", "msg": dl, "ts": end["ts"]}, end)
	}
	return evs
}

func errS(err error) string {
	switch {
	case err == nil:
		return ""
	case errors.Is(err, context.Canceled):
		return "canceled"
	case errors.Is(err, keystore.ErrClosed):
		return "closed"
	default:
		return "other"
	}
}

func runKSInBubble(t *testing.T, sc *KSScenario, ch sim.Chooser) []sim.Ev {
	if os.Getenv("VERIF_DEBUG") != "" {
		fmt.Printf("RUN\n")
	}
	ksInit()
	base0 := sim.BubbleSet()
	start := time.Now()
	now := func() int { return int(time.Since(start) / time.Millisecond) }
	clock := &sim.JournalClock{}
	e := &ksEnv{sc: sc, tr: &sim.Trace{}, gate: &sim.Gate{},
		st: &ksStores{clock: clock, meta: sim.NewJournalDS("meta", clock), slots: map[string]*sim.JournalDS{}}}
	tr := e.tr
	bits := []any{}
	for i := range ksUniverse {
		bits = append(bits, ksBitsOf(i))
	}
	tr.Add("Reset", "bits", bits, "resettable", sc.Resettable, "factory", sc.Factory, "prefixbits", sc.PrefixBits, "batch", sc.Batch, "ts", 0)
	if err := e.open(t); err != nil {
		t.Fatalf("open: %v", err)
	}
	ctx := context.Background()

	// crash: rebuild every physical store from a journal cut that keeps everything up
	// to its last sync and a (chosen) prefix of its later writes, then reopen
	crash := func() {
		at := e.st.clock.Now()
		newSt := &ksStores{clock: &sim.JournalClock{}, slots: map[string]*sim.JournalDS{}}
		for _, s := range e.st.all() {
			lo := s.LastSyncBefore(at)
			cuts := []int{lo}
			for _, q := range s.Seqs() {
				if q > lo && q <= at {
					cuts = append(cuts, q)
				}
			}
			cut := cuts[ch.Choose(len(cuts))]
			snap := sim.FromSnapshot(s.Name, newSt.clock, s.StateAt(nil, cut))
			if s.Name == "meta" {
				newSt.meta = snap
			} else {
				newSt.slots[s.Name[4:]] = snap
			}
		}
		old := e.ks
		e.gating = false
		// the crashed process is gone: its goroutines are shut down on the abandoned stores
		closed := make(chan struct{})
		go func() { defer close(closed); _ = old.Close() }()
		for i := 0; i < 50; i++ {
			synctest.Wait()
			for _, it := range e.gate.Pending() {
				e.gate.Release(it, nil)
			}
			select {
			case <-closed:
				i = 50
			default:
			}
		}
		e.st = newSt
		if err := e.open(t); err != nil {
			tr.Add("OpenFailed", "ts", now())
			return
		}
		e.observe("crash", now)
	}

	for _, op := range sc.Ops {
		switch op.Kind {
		case "put":
			nk, err := e.ks.Put(ctx, ksMhs(op.Keys)...)
			tr.Add("Put", "keys", sim.Ints(op.Keys), "new", ksIdx(nk), "nnew", len(nk), "err", errS(err), "during", false, "ts", now())
		case "get":
			got, err := e.ks.Get(ctx, ksPrefix(op.Prefix))
			tr.Add("Get", "prefix", sim.Ints(op.Prefix), "ret", ksIdx(got), "nret", len(got), "err", errS(err), "ts", now())
		case "count":
			n, err := e.ks.CountKeysUpTo(ctx, ksPrefix(op.Prefix), op.Limit)
			tr.Add("Count", "prefix", sim.Ints(op.Prefix), "limit", op.Limit, "n", n, "err", errS(err), "ts", now())
		case "contains":
			f, err := e.ks.ContainsPrefix(ctx, ksPrefix(op.Prefix))
			tr.Add("Contains", "prefix", sim.Ints(op.Prefix), "found", f, "err", errS(err), "ts", now())
		case "delete":
			err := e.ks.Delete(ctx, ksMhs(op.Keys)...)
			tr.Add("Delete", "keys", sim.Ints(op.Keys), "err", errS(err), "ts", now())
		case "empty":
			err := e.ks.Empty(ctx)
			tr.Add("Empty", "err", errS(err), "ts", now())
		case "size":
			n, err := e.ks.Size(ctx)
			tr.Add("Size", "n", n, "err", errS(err), "ts", now())
		case "reopen":
			_ = e.ks.Close()
			if err := e.open(t); err != nil {
				tr.Add("OpenFailed", "ts", now())
				continue
			}
			e.observe("clean", now)
		case "crash":
			crash()
		case "reset":
			if e.rks == nil {
				continue
			}
			e.runReset(t, op, ch, now, crash)
		}
	}
	e.gating = false
	_ = e.ks.Close()
	for i := 0; i < 20; i++ {
		synctest.Wait()
		items := e.gate.Pending()
		if len(items) == 0 {
			break
		}
		for _, it := range items {
			e.gate.Release(it, nil)
		}
	}
	if left := sim.NewSince(base0, "verifharness"); len(left) > 0 {
		descs := []string{}
		for _, g := range left {
			descs = append(descs, g.State+" @ "+g.Top+" <- "+g.Created)
		}
		sort.Strings(descs)
		tr.Add("Left", "n", len(left), "what", descs, "ts", now())
	}
	tr.Add("End", "ts", now())
	return tr.Events
}

// runReset performs ResetCids with the scheduler in control of every datastore
// access made meanwhile, and of the external actions: feeding the next key,
// closing the key channel, a concurrent Put, cancellation, Close, crash.
func (e *ksEnv) runReset(t *testing.T, op KSOp, ch sim.Chooser, now func() int, crash func()) {
	tr := e.tr
	rks := e.rks
	tr.Add("ResetStart", "new", sim.Ints(op.Keys), "ts", now())
	rctx, cancel := context.WithCancel(context.Background())
	defer cancel()
	keysCh := make(chan cid.Cid)
	resetDone := make(chan error, 1)
	synctest.Wait() // the worker is idle (its start-up size load is over)
	e.gating = true
	// The reset has started, from the keystore's point of view, once the worker has
	// accepted it; the first key taken from the channel proves that. Concurrent puts
	// are only issued from then on (a Put racing with the very start of ResetCids may
	// legitimately be ordered before the reset and be replaced by it).
	started := false
	go func() { resetDone <- rks.ResetCids(rctx, keysCh) }()
	remaining := append([]int{}, op.Keys...)
	chClosed := false
	// concurrent puts: up to two, of keys outside the new set (and one inside)
	putPlan := [][]int{}
	outside := []int{}
	for i := 0; i < 12; i++ {
		in := false
		for _, k := range op.Keys {
			if k == i {
				in = true
			}
		}
		if !in {
			outside = append(outside, i)
		}
	}
	// the first put carries one key, or several (more than twice the reset buffer's capacity in some scenarios:
	// its keys then enter the buffer in several portions, the last of which may still be waiting for room when
	// the reset completes)
	n1 := []int{1, 3, 5}[int(uint64(e.sc.Seed)>>7)%3]
	if n1 > len(outside)-1 {
		n1 = len(outside) - 1
	}
	if n1 >= 1 {
		putPlan = append(putPlan, append([]int{}, outside[:n1]...), []int{outside[n1]})
	}
	if len(op.Keys) > 0 {
		putPlan = append(putPlan, []int{op.Keys[0]})
	}
	type putRes struct {
		keys []int
		done chan struct{}
	}
	var puts []*putRes
	cancelled, closedKS, crashed := false, false, false
	finished := false
	var resetErr error
	for steps := 0; steps < 3000 && !finished; steps++ {
		synctest.Wait()
		tr.Flush()
		select {
		case resetErr = <-resetDone:
			finished = true
			continue
		default:
		}
		items := e.gate.Pending()
		type act struct {
			kind string
			it   *sim.Parked
		}
		var acts []act
		for _, it := range items {
			acts = append(acts, act{"release", it})
		}
		if len(remaining) > 0 {
			acts = append(acts, act{"feed", nil})
		} else if !chClosed {
			acts = append(acts, act{"closech", nil})
		}
		if started && len(puts) < len(putPlan) && !closedKS {
			acts = append(acts, act{"put", nil})
		}
		if !cancelled && op.Limit&1 == 1 {
			acts = append(acts, act{"cancel", nil})
		}
		if !closedKS && op.Limit&2 == 2 {
			acts = append(acts, act{"close", nil})
		}
		if op.Limit&4 == 4 {
			acts = append(acts, act{"crash", nil})
		}
		if len(acts) == 0 {
			// only timers (the phase A drain ticker) can make progress
			time.Sleep(100 * time.Millisecond)
			continue
		}
		a := acts[ch.Choose(len(acts))]
		if os.Getenv("VERIF_DEBUG") != "" {
			lbl := ""
			if a.it != nil {
				lbl = a.it.Label
			}
			fmt.Printf("ACT %s %s\n", a.kind, lbl)
		}
		switch a.kind {
		case "release":
			e.gate.Release(a.it, nil)
		case "feed":
			k := remaining[0]
			c := cid.NewCidV1(cid.Raw, ksUniverse[k])
			select {
			case keysCh <- c:
				remaining = remaining[1:]
				started = true
			default:
				// the reset is not ready to take a key right now; let time pass
				time.Sleep(10 * time.Millisecond)
			}
		case "closech":
			close(keysCh)
			chClosed = true
		case "put":
			p := &putRes{keys: putPlan[len(puts)], done: make(chan struct{})}
			puts = append(puts, p)
			tr.Add("PutStart", "keys", sim.Ints(p.keys), "ts", now())
			go func() {
				defer close(p.done)
				nk, err := rks.Put(context.Background(), ksMhs(p.keys)...)
				tr.AddBuf(3, "", "Put", "keys", sim.Ints(p.keys), "new", ksIdx(nk), "nnew", len(nk), "err", errS(err), "during", true, "ts", now())
			}()
		case "cancel":
			cancelled = true
			tr.Add("Cancel", "ts", now())
			cancel()
		case "close":
			closedKS = true
			tr.Add("CloseStart", "ts", now())
			go func() { _ = rks.Close() }()
		case "crash":
			crashed = true
			tr.Add("Crash", "ts", now())
			cancel()
			crash()
			finished = true
		}
	}
	if crashed {
		if !chClosed {
			close(keysCh)
		}
		return
	}
	if !finished {
		tr.Add("Hang", "ts", now())
	}
	e.gating = false
	for _, it := range e.gate.Pending() {
		e.gate.Release(it, nil)
	}
	if !chClosed {
		close(keysCh)
	}
	synctest.Wait()
	tr.Flush()
	for _, p := range puts {
		<-p.done
	}
	tr.Flush()
	tr.Add("ResetEnd", "err", errS(resetErr), "cancelled", cancelled, "ts", now())
	if !closedKS {
		// what the keystore holds now (a cancellation that arrives late may or may not
		// have let the swap happen, whatever ResetCids returned)
		all, err := rks.Get(context.Background(), bitstr.Key(""))
		sz, err2 := rks.Size(context.Background())
		tr.Add("Observe", "content", ksIdx(all), "ndup", len(all), "size", sz, "err", err != nil || err2 != nil, "ts", now())
	}
	if closedKS {
		synctest.Wait()
		if err := e.open(t); err != nil {
			tr.Add("OpenFailed", "ts", now())
			return
		}
		e.observe("clean", now)
	}
}

func genKSScenario(r *rand.Rand, resettable bool) *KSScenario {
	ksInit()
	sc := &KSScenario{Seed: r.Int63(), Resettable: resettable, PrefixBits: []int{0, 8, 16}[r.Intn(3)], Batch: 1 + r.Intn(3), BufCap: 1 + r.Intn(3)}
	if resettable {
		sc.Factory = r.Intn(2) == 0
	}
	rk := func() []int {
		n := 1 + r.Intn(3)
		out := []int{}
		for i := 0; i < n; i++ {
			out = append(out, r.Intn(12))
		}
		return out
	}
	rp := func() []int {
		l := []int{0, 1, 3, 8, 9, 10, 12}[r.Intn(7)]
		base := ksBitsOf(r.Intn(12))[:l]
		p := append([]int{}, base...)
		if l > 0 && r.Intn(4) == 0 {
			p[l-1] = 1 - p[l-1]
		}
		return p
	}
	n := 4 + r.Intn(6)
	resets := 0
	for i := 0; i < n; i++ {
		switch x := r.Intn(20); {
		case x < 6:
			sc.Ops = append(sc.Ops, KSOp{Kind: "put", Keys: rk()})
		case x < 9:
			sc.Ops = append(sc.Ops, KSOp{Kind: "get", Prefix: rp()})
		case x < 11:
			sc.Ops = append(sc.Ops, KSOp{Kind: "count", Prefix: rp(), Limit: r.Intn(4) - 1})
		case x < 12:
			sc.Ops = append(sc.Ops, KSOp{Kind: "contains", Prefix: rp()})
		case x < 14:
			sc.Ops = append(sc.Ops, KSOp{Kind: "delete", Keys: rk()})
		case x < 15:
			sc.Ops = append(sc.Ops, KSOp{Kind: "empty"})
		case x < 16:
			sc.Ops = append(sc.Ops, KSOp{Kind: "size"})
		case x < 17:
			sc.Ops = append(sc.Ops, KSOp{Kind: "reopen"})
		case x < 18:
			sc.Ops = append(sc.Ops, KSOp{Kind: "crash"})
		default:
			if resettable && resets < 1 {
				resets++
				nk := []int{}
				for _, k := range r.Perm(12)[:1+r.Intn(3)] {
					nk = append(nk, k)
				}
				// Limit is a bit set of the external faults allowed: 1 cancel, 2 close, 4 crash
				sc.Ops = append(sc.Ops, KSOp{Kind: "reset", Keys: nk, Limit: []int{0, 0, 1, 2, 4, 4}[r.Intn(6)]})
			} else {
				sc.Ops = append(sc.Ops, KSOp{Kind: "size"})
			}
		}
	}
	sc.Ops = append(sc.Ops, KSOp{Kind: "size"}, KSOp{Kind: "get", Prefix: []int{}}, KSOp{Kind: "reopen"})
	return sc
}

type ksReplay struct {
	Scenario *KSScenario `json:"scenario"`
	Choices  []int       `json:"choices"`
}

func TestKeystore(t *testing.T) {
	e := getEnv(t)
	rec := newRecorder(t, e, "keystore", "trace = history (put/get/count/contains/delete/empty/size/clean restart/crash with a chosen journal cut per physical store) x, for resets, the interleaving of every datastore access of the reset with fed keys, concurrent puts, cancellation, Close and crash; non-trivial iff the run contains a restart, a crash or a reset")
	defer rec.Close(t, e)
	nontriv := func(evs []sim.Ev) bool {
		for _, ev := range evs {
			if ev["e"] == "Reopen" || ev["e"] == "ResetStart" {
				return true
			}
		}
		return false
	}
	if e.Replay != "" {
		var wrap struct {
			Replay ksReplay `json:"replay"`
		}
		if err := readJSON(e.Replay, &wrap); err != nil {
			t.Fatal(err)
		}
		ch := &sim.ReplayChooser{Seq: wrap.Replay.Choices}
		evs := runKS(t, wrap.Replay.Scenario, ch)
		rec.Record(evs, ksReplay{wrap.Replay.Scenario, ch.Taken()}, nontriv(evs))
		// The library's own select statements pick among ready cases at random, so a
		// schedule cannot always be replayed exactly: the scenario is also re-run
		// under further seeded schedules.
		rr := rand.New(rand.NewSource(wrap.Replay.Scenario.Seed))
		for i := 0; i < 300; i++ {
			chs := sim.NewRandomChooser(rr.Int63())
			evs := runKS(t, wrap.Replay.Scenario, chs)
			rec.Record(evs, ksReplay{wrap.Replay.Scenario, chs.Taken()}, nontriv(evs))
		}
		return
	}
	r := rand.New(rand.NewSource(e.Seed))
	nPlain, nReset, perReset := 1500, 300, 25
	if e.Tier == "thorough" {
		nPlain, nReset, perReset = 6000, 1500, 60
	}
	if e.Budget > 0 {
		nPlain, nReset = e.Budget, e.Budget
	}
	for i := 0; i < nPlain; i++ {
		sc := genKSScenario(r, i%2 == 1)
		chs := sim.NewRandomChooser(r.Int63())
		evs := runKS(t, sc, chs)
		rec.Record(evs, ksReplay{sc, chs.Taken()}, nontriv(evs))
		rec.Count("histories", 1)
	}
	for i := 0; i < nReset; i++ {
		sc := genKSScenario(r, true)
		hasReset := false
		for _, o := range sc.Ops {
			if o.Kind == "reset" {
				hasReset = true
			}
		}
		if !hasReset {
			continue
		}
		for j := 0; j < perReset; j++ {
			chs := sim.NewRandomChooser(r.Int63())
			evs := runKS(t, sc, chs)
			rec.Record(evs, ksReplay{sc, chs.Taken()}, nontriv(evs))
			rec.Count("reset_schedules", 1)
		}
	}
}
