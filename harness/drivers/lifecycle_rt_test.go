package drivers

import (
	"context"
	"errors"
	"fmt"
	"math/rand"
	"sync"
	"testing"
	"time"

	ds "github.com/ipfs/go-datastore"
	dssync "github.com/ipfs/go-datastore/sync"
	"github.com/libp2p/go-libp2p-kad-dht/provider"
	"github.com/libp2p/go-libp2p-kad-dht/provider/buffered"
	"github.com/libp2p/go-libp2p-kad-dht/provider/keystore"
	"github.com/libp2p/go-libp2p/core/peer"
	ma "github.com/multiformats/go-multiaddr"

	"verifharness/sim"
)

// ---------------------------------------------------------------------------
// C14, in real time: Close of the sweeping provider while the closest-peers
// lookups of its network-size measurement are in flight. Under virtual time
// this window cannot be entered: Close waits for the measurement on a mutex,
// the measurement's retry sleeps for a second, and the bubble's clock does not
// advance while a goroutine waits for a mutex. Here the clock is the real one;
// the only judgement is whether Close returns (within 30 s; it needs about one
// second) - no census, no schedule enumeration.
// ---------------------------------------------------------------------------

type LCRTScenario struct {
	Comp      string `json:"comp"`      // sweep | bufsweep
	FailFirst bool   `json:"failfirst"` // the parked lookups are failed just before Close (the measurement is in its retry sleep) instead of being left in flight
}

// lcrtRouter answers the first lookup (the connectivity probe) at once and holds every later one until it is
// failed or its context ends.
type lcrtRouter struct {
	mu     sync.Mutex
	n      int
	parked []chan error
	peers  []peer.ID
}

func (r *lcrtRouter) GetClosestPeers(ctx context.Context, key string) ([]peer.ID, error) {
	r.mu.Lock()
	r.n++
	first := r.n == 1
	var c chan error
	if !first {
		c = make(chan error, 1)
		r.parked = append(r.parked, c)
	}
	r.mu.Unlock()
	if first {
		return r.peers, nil
	}
	select {
	case err := <-c:
		return nil, err
	case <-ctx.Done():
		return nil, ctx.Err()
	}
}

func (r *lcrtRouter) nParked() int { r.mu.Lock(); defer r.mu.Unlock(); return len(r.parked) }

func runLCRT(sc *LCRTScenario) []sim.Ev {
	tr := &sim.Trace{}
	rr := rand.New(rand.NewSource(7))
	self := sim.NewPeerID(rr)
	router := &lcrtRouter{peers: []peer.ID{sim.NewPeerID(rr), sim.NewPeerID(rr), sim.NewPeerID(rr)}}
	tr.Add("Reset", "comp", sc.Comp, "variant", fmt.Sprintf("realtime-measurement-failfirst=%v", sc.FailFirst), "fail", "", "nops", 0, "ncloses", 1, "ts", 0)
	ks, err := keystore.NewKeystore(dssync.MutexWrap(ds.NewMapDatastore()))
	var inner *provider.SweepingProvider
	if err == nil {
		inner, err = provider.New(provider.WithPeerID(self), provider.WithRouter(router), provider.WithMessageSender(&sim.GatedSender{G: &sim.Gate{}}),
			provider.WithSelfAddrs(func() []ma.Multiaddr { return []ma.Multiaddr{sim.DefaultAddr(0)} }), provider.WithReplicationFactor(2),
			provider.WithKeystore(ks), provider.WithDatastore(dssync.MutexWrap(ds.NewMapDatastore())))
	}
	if err != nil {
		tr.Add("Construct", "err", err.Error(), "panic", "", "failwanted", false, "left", []string{}, "subsleft", 0)
		tr.Add("End")
		return tr.Events
	}
	tr.Add("Construct", "err", "", "panic", "", "failwanted", false, "left", []string{}, "subsleft", 0)
	var p swProvider = inner
	if sc.Comp == "bufsweep" {
		p = buffered.New(inner, dssync.MutexWrap(ds.NewMapDatastore()))
	}
	// wait until the measurement's lookups are in flight
	for i := 0; i < 1000 && router.nParked() == 0; i++ {
		time.Sleep(10 * time.Millisecond)
	}
	time.Sleep(50 * time.Millisecond)
	if sc.FailFirst {
		router.mu.Lock()
		for _, c := range router.parked {
			c <- errors.New("sim: lookup failed")
		}
		router.mu.Unlock()
		time.Sleep(100 * time.Millisecond)
	}
	tr.Add("CloseStart", "j", 1)
	closed := make(chan error, 1)
	go func() { closed <- p.Close() }()
	select {
	case err := <-closed:
		tr.Add("CloseEnd", "j", 1, "err", errS(err), "panic", "", "left", []string{})
		tr.Add("Quiesce", "pending", []string{}, "left", []string{}, "subsleft", 0)
	case <-time.After(30 * time.Second):
		tr.Add("Quiesce", "pending", []string{"close1"}, "left", []string{}, "subsleft", 0)
	}
	_ = ks.Close()
	tr.Add("End")
	return tr.Events
}

func TestLifecycleRT(t *testing.T) {
	e := getEnv(t)
	rec := newRecorder(t, e, "lifecycle-realtime", "one run per (component, measurement lookups left in flight / failed just before Close); real time, judged only on whether Close returns")
	defer rec.Close(t, e)
	if e.Replay != "" {
		var wrap struct {
			Replay struct {
				Scenario *LCRTScenario `json:"scenario"`
			} `json:"replay"`
		}
		if err := readJSON(e.Replay, &wrap); err != nil {
			t.Fatal(err)
		}
		rec.Record(runLCRT(wrap.Replay.Scenario), map[string]any{"scenario": wrap.Replay.Scenario}, true)
		return
	}
	scs := []*LCRTScenario{{Comp: "sweep"}, {Comp: "bufsweep"}, {Comp: "sweep", FailFirst: true}, {Comp: "bufsweep", FailFirst: true}}
	res := make([][]sim.Ev, len(scs))
	var wg sync.WaitGroup
	for i := range scs {
		wg.Add(1)
		go func(i int) { defer wg.Done(); res[i] = runLCRT(scs[i]) }(i)
	}
	wg.Wait()
	for i := range scs {
		rec.Record(res[i], map[string]any{"scenario": scs[i]}, true)
		rec.Count("realtime_runs", 1)
	}
}
