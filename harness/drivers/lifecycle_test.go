package drivers

import (
	"context"
	"runtime"
	"encoding/json"
	"errors"
	"fmt"
	"math/rand"
	"strings"
	"sync"
	"testing"
	"testing/synctest"
	"time"

	"github.com/ipfs/go-cid"
	ds "github.com/ipfs/go-datastore"
	dssync "github.com/ipfs/go-datastore/sync"
	dht "github.com/libp2p/go-libp2p-kad-dht"
	"github.com/libp2p/go-libp2p-kad-dht/dual"
	"github.com/libp2p/go-libp2p-kad-dht/fullrt"
	pb "github.com/libp2p/go-libp2p-kad-dht/pb"
	"github.com/libp2p/go-libp2p-kad-dht/provider"
	"github.com/libp2p/go-libp2p-kad-dht/provider/buffered"
	"github.com/libp2p/go-libp2p-kad-dht/provider/keystore"
	"github.com/libp2p/go-libp2p-kad-dht/records"
	record "github.com/libp2p/go-libp2p-record"
	recpb "github.com/libp2p/go-libp2p-record/pb"
	"github.com/libp2p/go-libp2p/core/host"
	"github.com/libp2p/go-libp2p/core/network"
	"github.com/libp2p/go-libp2p/core/peer"
	"github.com/libp2p/go-libp2p/core/protocol"
	ma "github.com/multiformats/go-multiaddr"
	mh "github.com/multiformats/go-multihash"

	"verifharness/sim"
)

// ---------------------------------------------------------------------------
// C14: Close of every component while operations and background work are in
// flight; repeated and concurrent Close; constructors that fail. After Close
// has returned (and the operations have ended) no goroutine the instance
// started may be left in the bubble.
// ---------------------------------------------------------------------------

type LCScenario struct {
	Seed    int64  `json:"seed"`
	Comp    string `json:"comp"`    // ipfsdht | dual | fullrt | provmgr | valuestore | keystore | rkeystore | sweep | bufsweep
	Variant string `json:"variant"` // component specific
	NOps    int    `json:"nops"`
	NCloses int    `json:"ncloses"`
	Steps   int    `json:"steps"`
	Fail    string `json:"fail"` // constructor failure to provoke ("" = none)
}

type lcOp struct {
	name string
	run  func(ctx context.Context) error
}

type lcInst struct {
	close   func() error
	ops     []lcOp
	extraCl []func() error // closed after the instance (what the harness owns)
}

func runLC(t *testing.T, sc *LCScenario, ch sim.Chooser) (evs []sim.Ev) {
	dl := runBubble(t, func(t *testing.T) { evs = runLCInBubble(t, sc, ch) })
	if dl != "" {
		evs = append(evs, sim.Ev{"e": "Stuck", "what": "deadlock: goroutines of the bubble blocked for ever"}, sim.Ev{"e": "End"})
	}
	return evs
}

func lcLeft(base map[int]bool) []string {
	out := []string{}
	for _, g := range sim.NewSince(base, "verifharness/drivers.runLCInBubble", "testing.tRunner", "synctest.Run") {
		out = append(out, g.Describe())
	}
	return out
}

func runLCInBubble(t *testing.T, sc *LCScenario, ch sim.Chooser) []sim.Ev {
	r := rand.New(rand.NewSource(sc.Seed))
	tr := &sim.Trace{}
	var mu sync.Mutex
	add := func(e string, kv ...any) { mu.Lock(); tr.Add(e, kv...); mu.Unlock() }
	gate := &sim.Gate{}
	self := sim.NewPeerID(r)
	h := sim.NewFakeHost(self, []ma.Multiaddr{sim.DefaultAddr(0)})
	armed := false
	h.Dial = func(ctx context.Context, p peer.ID) error {
		if !armed {
			return nil
		}
		// background work of the instance (routing-table repair) dials too: it waits here like a request
		if _, err := gate.Park(ctx, "dial", "dial/"+string(p), p); err != nil {
			return err
		}
		return nil
	}
	sender := &sim.GatedSender{G: gate}
	peers := []peer.ID{}
	for i := 0; i < 3; i++ {
		p := sim.NewPeerID(r)
		peers = append(peers, p)
		h.Peerstore().AddAddr(p, ma.StringCast(fmt.Sprintf("/ip4/8.8.1.%d/tcp/1", i+1)), time.Hour)
		h.Net().AddConn(p, ma.StringCast(fmt.Sprintf("/ip4/8.8.1.%d/tcp/1", i+1)), network.DirOutbound)
	}
	synctest.Wait()
	base := sim.BubbleSet()
	baseSubs := h.OpenSubscriptions()
	add("Reset", "comp", sc.Comp, "variant", sc.Variant, "fail", sc.Fail, "nops", sc.NOps, "ncloses", sc.NCloses, "ts", 0)

	b := make([]byte, 32)
	r.Read(b)
	hsh, _ := mh.Encode(b, mh.SHA2_256)
	c := cid.NewCidV1(cid.Raw, hsh)
	key := fmt.Sprintf("/v/lc-%d", sc.Seed)
	// every datastore access that does not come from the harness's own goroutine waits at the gate:
	// those of the operations and those of the instance's background work (sweeps, workers)
	gds := &sim.GateDS{Inner: dssync.MutexWrap(ds.NewMapDatastore()), G: gate, ActorOf: func() string {
		if !armed {
			return ""
		}
		if sim.OwnStackHas("lcOpMarker") {
			return "op"
		}
		if sim.OwnStackHas("runLCInBubble") && !sim.OwnStackHas("runLCInBubble.func") {
			return ""
		}
		return "bg"
	}}
	senderOpt := dht.WithCustomMessageSender(func(host.Host, []protocol.ID) pb.MessageSenderWithDisconnect { return sender })
	val := dht.Validator(record.NamespacedValidator{"v": simValidator{}})
	var inst *lcInst
	var cerr error
	build := func() {
		switch sc.Comp {
		case "ipfsdht":
			opts := []dht.Option{dht.ProtocolPrefix("/veriflc"), dht.BucketSize(3), senderOpt, val, dht.Datastore(dssync.MutexWrap(ds.NewMapDatastore()))}
			switch sc.Variant {
			case "client":
				opts = append(opts, dht.Mode(dht.ModeClient))
			case "server":
				opts = append(opts, dht.Mode(dht.ModeServer))
			case "novalues":
				opts = append(opts, dht.Mode(dht.ModeServer), dht.DisableValues())
			case "noproviders":
				opts = append(opts, dht.Mode(dht.ModeServer), dht.DisableProviders())
			case "bare":
				opts = append(opts, dht.Mode(dht.ModeClient), dht.DisableValues(), dht.DisableProviders(), dht.DisableAutoRefresh())
			}
			switch sc.Fail {
			case "mode":
				opts = append(opts, dht.Mode(dht.ModeOpt(99)))
			case "option":
				// a namespaced validator cannot be added to a validator that is not namespaced
				opts = append(opts, dht.Validator(simValidator{}), dht.NamespacedValidator("w", simValidator{}))
			}
			d, err := dht.New(h, opts...)
			if err != nil {
				cerr = err
				return
			}
			for _, p := range peers {
				_, _ = d.RoutingTable().TryAddPeer(p, true, false)
			}
			inst = &lcInst{close: d.Close, ops: []lcOp{
				{"closest", func(ctx context.Context) error { _, err := d.GetClosestPeers(ctx, key); return err }},
				{"getvalue", func(ctx context.Context) error { _, err := d.GetValue(ctx, key); return err }},
				{"putvalue", func(ctx context.Context) error { return d.PutValue(ctx, key, []byte("V1")) }},
				{"provide", func(ctx context.Context) error { return d.Provide(ctx, c, true) }},
				{"findprov", func(ctx context.Context) error {
					for range d.FindProvidersAsync(ctx, c, 0) {
					}
					return nil
				}},
				{"refresh", func(ctx context.Context) error {
					select {
					case err := <-d.RefreshRoutingTable():
						return err
					case <-ctx.Done():
						return ctx.Err()
					}
				}},
			}}
		case "dual":
			opts := []dht.Option{dht.ProtocolPrefix("/veriflc"), dht.BucketSize(3), senderOpt, val, dht.Datastore(dssync.MutexWrap(ds.NewMapDatastore())), dht.Mode(dht.ModeClient)}
			dopts := []dual.Option{dual.DHTOption(opts...)}
			if sc.Fail == "lanmode" {
				dopts = append(dopts, dual.LanDHTOption(dht.Mode(dht.ModeOpt(99))))
			}
			d, err := dual.New(h, dopts...)
			if err != nil {
				cerr = err
				return
			}
			for _, p := range peers {
				_, _ = d.WAN.RoutingTable().TryAddPeer(p, true, false)
				_, _ = d.LAN.RoutingTable().TryAddPeer(p, true, false)
			}
			inst = &lcInst{close: d.Close, ops: []lcOp{
				{"getvalue", func(ctx context.Context) error { _, err := d.GetValue(ctx, key); return err }},
				{"putvalue", func(ctx context.Context) error { return d.PutValue(ctx, key, []byte("V1")) }},
				{"provide", func(ctx context.Context) error { return d.Provide(ctx, c, true) }},
				{"findprov", func(ctx context.Context) error {
					for range d.FindProvidersAsync(ctx, c, 0) {
					}
					return nil
				}},
				{"findpeer", func(ctx context.Context) error { _, err := d.FindPeer(ctx, sim.NewPeerID(r)); return err }},
			}}
		case "fullrt":
			fc := &scriptedCrawler{set: peers}
			fopts := []fullrt.Option{fullrt.WithCrawler(fc), fullrt.WithCrawlInterval(time.Hour),
				fullrt.DHTOption(dht.BucketSize(3), dht.BootstrapPeers(), senderOpt, val, dht.Datastore(dssync.MutexWrap(ds.NewMapDatastore())))}
			if sc.Fail == "pmoption" {
				fopts = append(fopts, fullrt.WithProviderManagerOptions(func(*records.ProviderManager) error { return errors.New("sim: failing option") }))
			}
			d, err := fullrt.NewFullRT(h, "/veriflc", fopts...)
			if err != nil {
				cerr = err
				return
			}
			inst = &lcInst{close: d.Close, ops: []lcOp{
				{"getvalue", func(ctx context.Context) error { _, err := d.GetValue(ctx, key); return err }},
				{"putvalue", func(ctx context.Context) error { return d.PutValue(ctx, key, []byte("V1")) }},
				{"provide", func(ctx context.Context) error { return d.Provide(ctx, c, true) }},
				{"providemany", func(ctx context.Context) error { return d.ProvideMany(ctx, []mh.Multihash{hsh}) }},
				{"refresh", func(ctx context.Context) error { return d.TriggerRefresh(ctx) }},
			}}
		case "provmgr":
			// a short sweep interval, so that a sweep is often under way (parked at the datastore) when Close comes
			popts := []records.Option{records.CleanupInterval(2 * time.Minute)}
			if sc.Fail == "option" {
				popts = append(popts, func(*records.ProviderManager) error { return errors.New("sim: failing option") })
			}
			pm, err := records.NewProviderManager(self, h.Peerstore(), gds, popts...)
			if err != nil {
				cerr = err
				return
			}
			inst = &lcInst{close: pm.Close, ops: []lcOp{
				{"add", func(ctx context.Context) error {
					return lcOpMarker(func() error {
						return pm.AddProvider(ctx, hsh, peer.AddrInfo{ID: peers[0], Addrs: []ma.Multiaddr{sim.DefaultAddr(3)}})
					})
				}},
				{"get", func(ctx context.Context) error {
					return lcOpMarker(func() error { _, err := pm.GetProviders(ctx, hsh); return err })
				}},
			}}
		case "valuestore":
			vs := records.NewValueStore(gds, simValidator{}, time.Hour)
			gcCtx, gcCancel := context.WithCancel(context.Background())
			vs.StartGC(gcCtx, 2*time.Minute)
			inst = &lcInst{close: func() error { gcCancel(); return vs.Close() }, ops: []lcOp{
				{"put", func(ctx context.Context) error {
					return lcOpMarker(func() error { return vs.Put(ctx, key, lcRecord(key, "V2")) })
				}},
				{"get", func(ctx context.Context) error {
					return lcOpMarker(func() error { _, err := vs.Get(ctx, key); return err })
				}},
			}}
		case "keystore", "rkeystore":
			var ks keystore.Keystore
			var err error
			if sc.Comp == "keystore" {
				ks, err = keystore.NewKeystore(gds)
			} else {
				ks, err = keystore.NewResettableKeystore(gds)
			}
			if err != nil {
				cerr = err
				return
			}
			ops := []lcOp{
				{"put", func(ctx context.Context) error {
					return lcOpMarker(func() error { _, err := ks.Put(ctx, hsh); return err })
				}},
				{"size", func(ctx context.Context) error {
					return lcOpMarker(func() error { _, err := ks.Size(ctx); return err })
				}},
				{"get", func(ctx context.Context) error {
					return lcOpMarker(func() error { _, err := ks.Get(ctx, ""); return err })
				}},
			}
			if rk, ok := ks.(*keystore.ResettableKeystore); ok {
				ops = append(ops, lcOp{"reset", func(ctx context.Context) error {
					return lcOpMarker(func() error {
						chn := make(chan cid.Cid, 2)
						chn <- c
						close(chn)
						return rk.ResetCids(ctx, chn)
					})
				}})
			}
			inst = &lcInst{close: ks.Close, ops: ops}
		case "sweep", "bufsweep":
			env := &swEnv{sc: &SWScenario{R: 2, K: 2}, peerIdx: map[peer.ID]int{}, keyIdx: map[string]int{}, swarm: map[int]bool{}, online: true, start: time.Now(), tr: &sim.Trace{}}
			env.self = self
			env.addrs = []ma.Multiaddr{sim.DefaultAddr(0)}
			for i, p := range peers {
				env.peers = append(env.peers, p)
				env.peerIdx[p] = i + 1
				env.swarm[i+1] = true
			}
			ks, err := keystore.NewKeystore(dssync.MutexWrap(ds.NewMapDatastore()))
			if err != nil {
				cerr = err
				return
			}
			popts := []provider.Option{provider.WithPeerID(self), provider.WithRouter(env), provider.WithMessageSender(sender),
				provider.WithSelfAddrs(func() []ma.Multiaddr { return env.addrs }), provider.WithReplicationFactor(2),
				provider.WithReprovideInterval(time.Hour), provider.WithMaxReprovideDelay(10 * time.Minute),
				provider.WithKeystore(ks), provider.WithDatastore(dssync.MutexWrap(ds.NewMapDatastore()))}
			if sc.Fail == "replication" {
				popts = append(popts, provider.WithReplicationFactor(0))
			}
			if sc.Fail == "checkinterval" {
				// a failure late in the constructor: the interval is only rejected by the connectivity checker, after
				// the provider has started the keystore it owns (none is given here)
				popts = []provider.Option{provider.WithPeerID(self), provider.WithRouter(env), provider.WithMessageSender(sender),
					provider.WithSelfAddrs(func() []ma.Multiaddr { return env.addrs }), provider.WithReplicationFactor(2),
					provider.WithConnectivityCheckOnlineInterval(0)}
			}
			inner, err := provider.New(popts...)
			if err != nil {
				cerr = err
				_ = ks.Close()
				return
			}
			var p swProvider = inner
			if sc.Comp == "bufsweep" {
				p = buffered.New(inner, dssync.MutexWrap(ds.NewMapDatastore()))
			}
			inst = &lcInst{close: p.Close, extraCl: []func() error{ks.Close}, ops: []lcOp{
				{"start", func(ctx context.Context) error { return p.StartProviding(true, hsh) }},
				{"once", func(ctx context.Context) error { return p.ProvideOnce(hsh) }},
				{"stop", func(ctx context.Context) error { return p.StopProviding(hsh) }},
			}}
		}
	}
	var cpanic string
	func() {
		defer func() {
			if x := recover(); x != nil {
				cpanic = fmt.Sprint(x)
			}
		}()
		build()
	}()
	if cpanic != "" || cerr != nil || inst == nil {
		synctest.Wait()
		// nothing may be left behind by a constructor that failed
		for i := 0; i < 5; i++ {
			time.Sleep(time.Millisecond)
			synctest.Wait()
		}
		add("Construct", "err", errS(cerr), "panic", cpanic, "failwanted", sc.Fail != "", "left", lcLeft(base), "subsleft", h.OpenSubscriptions()-baseSubs)
		_ = h.Close()
		synctest.Wait()
		add("End")
		return tr.Events
	}
	add("Construct", "err", "", "panic", "", "failwanted", sc.Fail != "", "left", []string{}, "subsleft", 0)
	armed = true

	type opState struct {
		done   chan struct{}
		cancel context.CancelFunc
	}
	ops := []*opState{}
	closes := []chan struct{}{}
	startOp := func(i int) {
		op := inst.ops[i%len(inst.ops)]
		ctx, cancel := context.WithCancel(context.Background())
		st := &opState{done: make(chan struct{}), cancel: cancel}
		ops = append(ops, st)
		n := len(ops)
		add("OpStart", "op", n, "name", op.name)
		go func() {
			defer close(st.done)
			var err error
			pmsg := ""
			func() {
				defer func() {
					if x := recover(); x != nil {
						pmsg = fmt.Sprint(x)
					}
				}()
				err = op.run(ctx)
			}()
			add("OpEnd", "op", n, "name", op.name, "err", errS(err), "panic", pmsg)
		}()
	}
	startClose := func() {
		done := make(chan struct{})
		closes = append(closes, done)
		n := len(closes)
		add("CloseStart", "j", n)
		go func() {
			defer close(done)
			var err error
			pmsg := ""
			func() {
				defer func() {
					if x := recover(); x != nil {
						pmsg = fmt.Sprint(x)
					}
				}()
				err = inst.close()
			}()
			// what is still there at the very moment Close has returned (goroutines that were waited for
			// and are on their way out get a moment to finish; no time passes, nothing is released)
			for i := 0; i < 300; i++ {
				runtime.Gosched()
			}
			left := []string{}
			for _, l := range lcLeft(base) {
				// only goroutines that are blocked count (one that is running is on its way out), and not
				// the worker of the keystore the harness itself owns when the instance is a provider
				blocked := strings.HasPrefix(l, "chan ") || strings.HasPrefix(l, "select") || strings.HasPrefix(l, "sync.") || strings.HasPrefix(l, "sleep")
				own := (sc.Comp == "sweep" || sc.Comp == "bufsweep") && strings.Contains(l, "keystore.NewKeystore")
				// helpers a Close call started for itself belong to that call, which may still be running
				if i := strings.LastIndex(l, "<- "); i >= 0 && strings.HasSuffix(l[i:], ").Close") {
					own = true
				}
				if blocked && !own && !strings.Contains(l, "verifharness/drivers") {
					left = append(left, l)
				}
			}
			add("CloseEnd", "j", n, "err", errS(err), "panic", pmsg, "left", left)
			// A keystore does not own its datastore: once Close has returned its owner may close the datastore.
			// Later Close calls must not go back to it (with no operation ever started nothing else can).
			if (sc.Comp == "keystore" || sc.Comp == "rkeystore") && sc.NOps == 0 {
				_ = gds.Close()
			}
		}()
	}
	release := func(it *sim.Parked, fail bool) {
		switch it.Kind {
		case "ds":
			gate.Release(it, nil)
		case "dial":
			gate.Release(it, nil)
		default:
			rpc := it.Payload.(*sim.RPC)
			o := sim.RPCOutcome{}
			if fail {
				o.Err = errors.New("sim: request failed")
			} else if rpc.Request {
				o.Resp = &pb.Message{Type: rpc.Msg.GetType(), Key: rpc.Msg.GetKey()}
				if rpc.Msg.GetType() == pb.Message_PUT_VALUE {
					o.Resp.Record = rpc.Msg.GetRecord()
				}
			}
			gate.Release(it, o)
		}
	}
	// A goroutine parked at the datastore gate may hold one of the instance's mutexes, and whoever waits
	// for that mutex is not idle in the runtime's eyes: quiescence is then judged from goroutine states,
	// and virtual time is only advanced while nothing is parked at the datastore.
	dsParked := func() bool {
		for _, it := range gate.Pending() {
			if it.Kind == "ds" {
				return true
			}
		}
		return false
	}
	probe := sc.Comp == "provmgr" || sc.Comp == "valuestore" || sc.Comp == "keystore" || sc.Comp == "rkeystore"
	settle := func() {
		if probe || dsParked() {
			sim.SettleBubble()
		} else {
			synctest.Wait()
		}
	}
	started, closesStarted := 0, 0
	for step := 0; step < sc.Steps; step++ {
		settle()
		type action func()
		as := []action{}
		if started < sc.NOps {
			as = append(as, func() { startOp(started); started++ })
		}
		if closesStarted < sc.NCloses {
			as = append(as, func() { startClose(); closesStarted++ })
		}
		for _, it := range gate.Pending() {
			it := it
			as = append(as, func() { release(it, false) })
		}
		if !dsParked() {
			as = append(as, func() { time.Sleep(time.Minute) })
		}
		as[ch.Choose(len(as))]()
	}
	for closesStarted < sc.NCloses || closesStarted == 0 {
		startClose()
		closesStarted++
	}
	// the environment answers everything that is still parked (with errors), time passes
	hang := false
	for round := 0; ; round++ {
		for _, it := range gate.Pending() {
			release(it, true)
		}
		settle()
		all := true
		for _, c := range closes {
			select {
			case <-c:
			default:
				all = false
			}
		}
		for _, o := range ops {
			select {
			case <-o.done:
			default:
				all = false
			}
		}
		if all {
			break
		}
		if round > 200 {
			hang = true
			break
		}
		if len(gate.Pending()) == 0 {
			time.Sleep(time.Minute)
		}
	}
	pend := []string{}
	for j, c := range closes {
		select {
		case <-c:
		default:
			pend = append(pend, fmt.Sprintf("close%d", j+1))
		}
	}
	for i, o := range ops {
		select {
		case <-o.done:
		default:
			pend = append(pend, fmt.Sprintf("op%d", i+1))
		}
		o.cancel()
	}
	for _, f := range inst.extraCl {
		_ = f()
	}
	synctest.Wait()
	for i := 0; i < 5; i++ {
		time.Sleep(time.Millisecond)
		synctest.Wait()
	}
	left := lcLeft(base)
	// goroutines of operations the harness itself still runs are not the instance's
	kept := []string{}
	for _, l := range left {
		if !strings.Contains(l, "verifharness/drivers") {
			kept = append(kept, l)
		}
	}
	dsAfterClose := 0
	if (sc.Comp == "keystore" || sc.Comp == "rkeystore") && sc.NOps == 0 {
		dsAfterClose = gds.AfterCloseCount()
	}
	add("Quiesce", "hang", hang, "pending", pend, "left", kept, "subsleft", h.OpenSubscriptions()-baseSubs, "dsafterclose", dsAfterClose)
	for _, it := range gate.Pending() {
		release(it, true)
	}
	_ = h.Close()
	synctest.Wait()
	add("End")
	return tr.Events
}

//go:noinline
func lcOpMarker(f func() error) error { return f() }

func lcRecord(key, v string) *recpb.Record { return &recpb.Record{Key: []byte(key), Value: []byte(v)} }

var lcComps = map[string][]string{
	"ipfsdht":    {"client", "server", "novalues", "noproviders", "bare"},
	"dual":       {""},
	"fullrt":     {""},
	"provmgr":    {""},
	"valuestore": {""},
	"keystore":   {""},
	"rkeystore":  {""},
	"sweep":      {""},
	"bufsweep":   {""},
}
var lcFails = map[string][]string{
	"ipfsdht": {"mode", "option"}, "dual": {"lanmode"}, "fullrt": {"pmoption"}, "provmgr": {"option"}, "sweep": {"replication", "checkinterval"},
}

func genLCScenario(r *rand.Rand) *LCScenario {
	comps := []string{"ipfsdht", "ipfsdht", "ipfsdht", "dual", "fullrt", "provmgr", "valuestore", "keystore", "rkeystore", "sweep", "bufsweep"}
	sc := &LCScenario{Seed: r.Int63(), Comp: comps[r.Intn(len(comps))], NOps: r.Intn(4), NCloses: 1 + r.Intn(3), Steps: r.Intn(14)}
	v := lcComps[sc.Comp]
	sc.Variant = v[r.Intn(len(v))]
	return sc
}

func TestLifecycleChild(t *testing.T) {
	childMain(t, func(idx int, raw json.RawMessage, progress func(any)) any {
		var j schedJob
		var sc LCScenario
		if err := json.Unmarshal(raw, &j); err != nil {
			t.Fatal(err)
		}
		if err := json.Unmarshal(j.Sc, &sc); err != nil {
			t.Fatal(err)
		}
		return runSchedJob(&j, progress, func(ch sim.Chooser) []sim.Ev { return runLC(t, &sc, ch) })
	})
}

func TestLifecycle(t *testing.T) {
	e := getEnv(t)
	rec := newRecorder(t, e, "lifecycle", "one run per (component, variant, operations in flight, number of Close calls, schedule of starts / releases / Close calls / time); constructor failures: one run per (component, failure point); distinct by event sequence")
	defer rec.Close(t, e)
	jobs := []*schedJob{}
	scs := []*LCScenario{}
	addJob := func(sc *LCScenario, j *schedJob) {
		j.Sc, _ = json.Marshal(sc)
		jobs = append(jobs, j)
		scs = append(scs, sc)
	}
	if e.Replay != "" {
		var wrap struct {
			Replay struct {
				Scenario *LCScenario `json:"scenario"`
				Choices  []int       `json:"choices"`
				Seed     int64       `json:"seed"`
			} `json:"replay"`
		}
		if err := readJSON(e.Replay, &wrap); err != nil {
			t.Fatal(err)
		}
		addJob(wrap.Replay.Scenario, &schedJob{Replay: true, Choices: wrap.Replay.Choices, Seed: wrap.Replay.Seed})
	} else {
		r := rand.New(rand.NewSource(e.Seed))
		n := 2500
		if e.Tier == "thorough" {
			n = 60000
		}
		if e.Budget > 0 {
			n = e.Budget
		}
		for comp, fails := range lcFails {
			for _, f := range fails {
				addJob(&LCScenario{Seed: 3, Comp: comp, Variant: lcComps[comp][0], Fail: f, NCloses: 1}, &schedJob{Seed: 1 + r.Int63()})
			}
		}
		for i := 0; i < n; i++ {
			addJob(genLCScenario(r), &schedJob{Seed: 1 + r.Int63()})
		}
	}
	crashed := map[int]map[string]any{}
	var cmu sync.Mutex
	results := runChildren(t, e, "TestLifecycleChild", jobs, len(jobs), 12, func(idx int, info json.RawMessage, output string, stalled bool) any {
		cmu.Lock()
		crashed[idx] = schedReplayOf(scs[idx], info)
		cmu.Unlock()
		what := "crashed: " + crashLine(output)
		if stalled {
			what = "no progress in real time"
		}
		sc := scs[idx]
		return []schedResult{{Evs: []sim.Ev{{"e": "Reset", "comp": sc.Comp, "variant": sc.Variant, "fail": sc.Fail, "nops": sc.NOps, "ncloses": sc.NCloses, "ts": 0},
			{"e": "Stuck", "what": what}, {"e": "End"}}}}
	})
	for i, raw := range results {
		var out []schedResult
		if raw == nil || json.Unmarshal(raw, &out) != nil {
			rec.Count("skipped_after_stalls", 1)
			continue
		}
		for _, o := range out {
			rp := map[string]any{"scenario": scs[i], "choices": o.Choices}
			if c := crashed[i]; c != nil {
				rp = c
			}
			rec.Record(o.Evs, rp, true)
			rec.Count(scs[i].Comp, 1)
		}
	}
}
