package drivers

import (
	"context"
	"errors"
	"fmt"
	"math/rand"
	"strconv"
	"strings"
	"testing"
	"testing/synctest"
	"time"

	ds "github.com/ipfs/go-datastore"
	dssync "github.com/ipfs/go-datastore/sync"
	dht "github.com/libp2p/go-libp2p-kad-dht"
	"github.com/libp2p/go-libp2p-kad-dht/fullrt"
	pb "github.com/libp2p/go-libp2p-kad-dht/pb"
	record "github.com/libp2p/go-libp2p-record"
	"github.com/libp2p/go-libp2p/core/host"
	"github.com/libp2p/go-libp2p/core/peer"
	"github.com/libp2p/go-libp2p/core/protocol"
	"github.com/libp2p/go-libp2p/core/routing"
	ma "github.com/multiformats/go-multiaddr"

	"verifharness/sim"
)

// ---------------------------------------------------------------------------
// C04 (local records): a record that was valid when it was stored locally and
// is no longer valid by the validator's rules when a value lookup runs (the
// way an IPNS record passes its end of life) must not be yielded. The same
// history is run on the standard client and on the accelerated client.
// ---------------------------------------------------------------------------

// expValidator accepts "V<rank>:e<second>" until that second of the bubble's clock.
type expValidator struct{ start time.Time }

func (v expValidator) expiry(val []byte) (int, bool) {
	s := string(val)
	i := strings.Index(s, ":e")
	if i < 0 {
		return 0, false
	}
	n, err := strconv.Atoi(s[i+2:])
	return n, err == nil
}

func (v expValidator) Validate(key string, val []byte) error {
	ok, _ := valRank(val)
	if !ok {
		return errors.New("expvalidator: invalid value")
	}
	if e, has := v.expiry(val); has && int(time.Since(v.start)/time.Second) >= e {
		return errors.New("expvalidator: expired")
	}
	return nil
}

func (v expValidator) Select(key string, vals [][]byte) (int, error) {
	return simValidator{}.Select(key, vals)
}

type LVScenario struct {
	Seed   int64  `json:"seed"`
	Impl   string `json:"impl"`   // ipfsdht | fullrt
	Expiry int    `json:"expiry"` // second at which the stored value stops being valid
	Wait   int    `json:"wait"`   // seconds between the put and the lookup
	Op     string `json:"op"`     // getvalue | searchvalue
}

func runLV(t *testing.T, sc *LVScenario) (evs []sim.Ev) {
	runBubble(t, func(t *testing.T) { evs = runLVInBubble(t, sc) })
	return evs
}

func runLVInBubble(t *testing.T, sc *LVScenario) []sim.Ev {
	r := rand.New(rand.NewSource(sc.Seed))
	tr := &sim.Trace{}
	self := sim.NewPeerID(r)
	h := sim.NewFakeHost(self, []ma.Multiaddr{sim.DefaultAddr(0)})
	h.Dial = func(ctx context.Context, p peer.ID) error { return fmt.Errorf("sim: no network") }
	val := expValidator{start: time.Now()}
	key := fmt.Sprintf("/v/local-%d", sc.Seed)
	value := fmt.Sprintf("V7:e%d", sc.Expiry)
	dopts := []dht.Option{dht.ProtocolPrefix("/veriflv"), dht.BucketSize(3), dht.DisableAutoRefresh(), dht.Mode(dht.ModeClient),
		dht.Validator(record.NamespacedValidator{"v": val}), dht.Datastore(dssync.MutexWrap(ds.NewMapDatastore())), dht.BootstrapPeers(),
		dht.WithCustomMessageSender(func(host.Host, []protocol.ID) pb.MessageSenderWithDisconnect { return &sim.GatedSender{G: &sim.Gate{}} })}
	var rt routing.ValueStore
	var closer func() error
	switch sc.Impl {
	case "fullrt":
		d, err := fullrt.NewFullRT(h, "/veriflv", fullrt.WithCrawler(&scriptedCrawler{}), fullrt.DHTOption(dopts...))
		if err != nil {
			t.Fatalf("NewFullRT: %v", err)
		}
		rt, closer = d, d.Close
	default:
		d, err := dht.New(h, dopts...)
		if err != nil {
			t.Fatalf("dht.New: %v", err)
		}
		rt, closer = d, d.Close
	}
	synctest.Wait()
	tr.Add("Reset", "impl", sc.Impl, "op", sc.Op, "expiry", sc.Expiry, "wait", sc.Wait, "ts", 0)
	ctx := context.Background()
	// the put stores the record locally first; with no peers the network part fails, which is fine
	perr := rt.PutValue(ctx, key, []byte(value))
	time.Sleep(time.Duration(sc.Wait) * time.Second)
	validNow := val.Validate(key, []byte(value)) == nil
	emitted := []string{}
	var gerr error
	switch sc.Op {
	case "searchvalue":
		var ch <-chan []byte
		ch, gerr = rt.SearchValue(ctx, key)
		if gerr == nil {
			for v := range ch {
				emitted = append(emitted, string(v))
			}
		}
	default:
		var v []byte
		v, gerr = rt.GetValue(ctx, key)
		if gerr == nil {
			emitted = append(emitted, string(v))
		}
	}
	tr.Add("LocalLookup", "puterr", errS(perr), "value", value, "validnow", validNow, "emitted", emitted, "err", errS(gerr))
	_ = closer()
	_ = h.Close()
	synctest.Wait()
	tr.Add("End")
	return tr.Events
}

func TestLocalValue(t *testing.T) {
	e := getEnv(t)
	rec := newRecorder(t, e, "localvalue", "one run per (client implementation, operation, expiry of the locally stored record, delay before the lookup)")
	defer rec.Close(t, e)
	if e.Replay != "" {
		var wrap struct {
			Replay struct {
				Scenario *LVScenario `json:"scenario"`
			} `json:"replay"`
		}
		if err := readJSON(e.Replay, &wrap); err != nil {
			t.Fatal(err)
		}
		rec.Record(runLV(t, wrap.Replay.Scenario), map[string]any{"scenario": wrap.Replay.Scenario}, true)
		return
	}
	r := rand.New(rand.NewSource(e.Seed))
	for _, impl := range []string{"ipfsdht", "fullrt"} {
		for _, op := range []string{"getvalue", "searchvalue"} {
			for _, exp := range []int{50, 100000} {
				for _, wait := range []int{0, 10, 49, 50, 51, 500} {
					sc := &LVScenario{Seed: r.Int63(), Impl: impl, Op: op, Expiry: exp, Wait: wait}
					rec.Record(runLV(t, sc), map[string]any{"scenario": sc}, true)
					rec.Count(impl, 1)
				}
			}
		}
	}
}
