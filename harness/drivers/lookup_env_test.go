package drivers

import (
	crand "crypto/rand"
	"context"
	"encoding/base64"
	"errors"
	"fmt"
	"math/rand"
	"sort"
	"strconv"
	"strings"
	"testing"
	"testing/synctest"
	"time"

	"github.com/ipfs/go-cid"
	ds "github.com/ipfs/go-datastore"
	dssync "github.com/ipfs/go-datastore/sync"
	dht "github.com/libp2p/go-libp2p-kad-dht"
	pb "github.com/libp2p/go-libp2p-kad-dht/pb"
	"github.com/libp2p/go-libp2p-kad-dht/records"
	record "github.com/libp2p/go-libp2p-record"
	recpb "github.com/libp2p/go-libp2p-record/pb"
	"github.com/libp2p/go-libp2p/core/crypto"
	"github.com/libp2p/go-libp2p/core/host"
	"github.com/libp2p/go-libp2p/core/peer"
	"github.com/libp2p/go-libp2p/core/protocol"
	"github.com/libp2p/go-libp2p/core/routing"
	ma "github.com/multiformats/go-multiaddr"
	mh "github.com/multiformats/go-multihash"

	"verifharness/sim"
)

// ---------------------------------------------------------------------------
// Scenario description (fully determines a run together with the choices)
// ---------------------------------------------------------------------------

// PeerScript is the behaviour of one simulated peer.
type PeerScript struct {
	Conn    bool   `json:"conn"`    // connected before the operation starts
	Dial    string `json:"dial"`    // ok | fail
	Req     string `json:"req"`     // ok | fail | timeout
	Closer  []int  `json:"closer"`  // ranks named as closer peers (0 = the requester itself)
	NoAddr  []int  `json:"noaddr"`  // named ranks sent without addresses
	Provs   []int  `json:"provs"`   // ranks named as providers
	Val     string `json:"val"`     // value returned for GET_VALUE ("" = none)
	ValKey  string `json:"valkey"`  // "" = requested key, otherwise the (wrong) record key
	PutEcho string `json:"putecho"` // "" = echo the record, "norec", "other", "fail"
	AddProv string `json:"addprov"` // "" ok | fail
}

// Scenario describes one simulated network and one operation on it.
type Scenario struct {
	Op       string       `json:"op"` // gcp | findpeer | getvalue | searchvalue | findprov | putvalue | provide
	Seed     int64        `json:"seed"`
	K        int          `json:"K"`
	Alpha    int          `json:"alpha"`
	Beta     int          `json:"beta"`
	N        int          `json:"N"`
	RT       []int        `json:"rt"`     // ranks put into the routing table
	Reject   []int        `json:"reject"` // ranks rejected by the query filter
	Scripts  []PeerScript `json:"scripts"`
	Count    int          `json:"count"`
	Quorum   int          `json:"quorum"`
	LocalVal string       `json:"localval"`
	LocalPrv []int        `json:"localprv"`
	PutVal   string       `json:"putval"`
	Cancel   bool         `json:"cancel"` // cancellation is one of the scheduler's options
	OptProv  bool         `json:"optprov"`
	Timeout  int          `json:"timeout"` // seconds; 0 = no deadline on the op ctx
	Warm     int          `json:"warm"`     // completed warm-up lookups before the operation (feeds the network size estimator)
	WarmBig  bool         `json:"warmbig"`  // the warm-up makes the estimator believe in a huge network
	NAddrs   int          `json:"naddrs"`   // number of host addresses (0/1 = one, -1 = none)
	AddrDrop []int        `json:"addrdrop"` // indices of host addresses removed by the address filter
	SlowCons bool         `json:"slowcons"` // the consumer of the result channel is scheduled like any other actor
	SlowEv   bool         `json:"slowev,omitempty"` // so is the consumer of the lookup events (several answers can then be waiting while the lookup is blocked publishing)
	Honest   bool         `json:"honest"`  // every peer answers with the K nearest peers of a k-bucket-complete table
	Full     bool         `json:"full"`    // honest and every peer knows every other peer
}

// ---------------------------------------------------------------------------
// Test validator: values are "<class><rank>[:tag]"; class V = valid, I = invalid.
// ---------------------------------------------------------------------------

type simValidator struct{}

func valRank(v []byte) (bool, int) {
	s := string(v)
	if len(s) < 2 {
		return false, -1
	}
	body := s[1:]
	if i := strings.IndexByte(body, ':'); i >= 0 {
		body = body[:i]
	}
	r, err := strconv.Atoi(body)
	if err != nil {
		return false, -1
	}
	return s[0] == 'V', r
}

func (simValidator) Validate(key string, value []byte) error {
	ok, _ := valRank(value)
	if !ok {
		return errors.New("simvalidator: invalid value")
	}
	return nil
}

func (simValidator) Select(key string, vals [][]byte) (int, error) {
	best, bi := -1, -1
	for i, v := range vals {
		ok, r := valRank(v)
		if ok && r > best {
			best, bi = r, i
		}
	}
	if bi < 0 {
		return 0, errors.New("simvalidator: no valid value")
	}
	return bi, nil
}

// ---------------------------------------------------------------------------
// Environment construction
// ---------------------------------------------------------------------------

type lookupEnv struct {
	hung   map[*sim.Parked]bool // store requests whose recipient hangs: never released, only ever aborted
	sc     *Scenario
	u      *sim.Universe
	host   *sim.FakeHost
	gate   *sim.Gate
	sender *sim.GatedSender
	d      *dht.IpfsDHT
	tr     *sim.Trace
	key    string
	cid    cid.Cid
	start  time.Time
	reject map[peer.ID]bool
	quiet  bool // warm-up phase: nothing is logged
	fastCons bool // the slow consumer has been switched off (after a cancellation)
	dstore ds.Batching
	hostAddrs []ma.Multiaddr
	target    peer.ID
}

func (e *lookupEnv) now() int { return int(time.Since(e.start) / time.Millisecond) }

func addrOf(rank int) ma.Multiaddr { return sim.DefaultAddr(rank + 1) }

func (e *lookupEnv) script(p peer.ID) *PeerScript {
	r := e.u.Rank(p)
	if r < 1 || r > len(e.sc.Scripts) {
		return &PeerScript{Dial: "fail", Req: "fail"}
	}
	return &e.sc.Scripts[r-1]
}

type rsaKey struct {
	id  peer.ID
	pub []byte
}

var rsaCache []rsaKey

// fixed RSA public keys (marshalled, base64), so that peer ids, ranks and
// therefore replays are identical in every process
var rsaPubB64 = []string{
	"CAASpgIwggEiMA0GCSqGSIb3DQEBAQUAA4IBDwAwggEKAoIBAQDhRHODkGeWeTGLktPrb59V3n0b5ajaEhckXXdhV/maxD3DNMJfv2WWzYp6u5EaCLVaP/i/c/DkVxwmJH3dCtodAtU12p1s9CIoAZU9hMlOlQZvRHGDORLA+SBlg+YauEPqVswUHsR35TdIOMzxyg7VF8nmLFqKxEy2uczeNxMAY0J3IFPTY23txxxzKTZfpKMSVVqh4yeBM+TH4/3LVx/ECnXvRuckpwFMyVRYizcOGJQsPNQBYZqKGkHiV1HwtqKMc7mwJ1nczBv92hPSSg+wqk70JfhxSSbJVgDUoPpLsN3jYcU0pIYJThijmg5f5k5eT6lIe7hAQSdRnCj+DvWlAgMBAAE=",
	"CAASpgIwggEiMA0GCSqGSIb3DQEBAQUAA4IBDwAwggEKAoIBAQDMSbljitchr+ZNr/8Kdu3/xlfZuJja9W/KQGKAdmn0u5IZyIAPguwKMMsaZyCuC6fY69NoJqj94jwfGWPHGvFLR712lzCQygzkIYfZVSev/SOTp8O+dMrUdWIugotKZBePxCm5ehoYk6pa1D/fNr7pM/mKb/sbEHiaY93Q8Wo2HACvsBgwhOU8XBN1W3SED+guiRnwwQZ+83UBRbareUW1gDlapHnM4l+Sfa0I3Lxyg2pSi+Fy+4dTDW5FYEF9JN1autXHsoJZWmKSymCH8rwiKDvLhStIXCES2L8fnLO2ky+K7ovNgGPbqsC1vqAOnHkoEfr2hlvwfOU9O8XvNIyZAgMBAAE=",
}

// rsaKeys returns two RSA identities whose ids do not inline the key.
func rsaKeys() []rsaKey {
	if rsaCache != nil {
		return rsaCache
	}
	for _, s := range rsaPubB64 {
		b, err := base64.StdEncoding.DecodeString(s)
		if err != nil {
			panic(err)
		}
		pub, err := crypto.UnmarshalPublicKey(b)
		if err != nil {
			panic(err)
		}
		id, _ := peer.IDFromPublicKey(pub)
		rsaCache = append(rsaCache, rsaKey{id, b})
	}
	return rsaCache
}

func pkValue(v string) []byte {
	switch v {
	case "pk:right":
		return rsaKeys()[0].pub
	case "pk:other":
		return rsaKeys()[1].pub
	default:
		return []byte("not a public key")
	}
}

// lookupKeyFor is the key of value / closest-peers scenarios.
func lookupKeyFor(sc *Scenario) string { return fmt.Sprintf("/v/key-%d", sc.Seed) }

func typName(t pb.Message_MessageType) string { return t.String() }

func buildLookupEnv(t *testing.T, sc *Scenario) *lookupEnv {
	r := rand.New(rand.NewSource(sc.Seed))
	self := sim.NewPeerID(r)
	peers := make([]peer.ID, sc.N)
	for i := range peers {
		peers[i] = sim.NewPeerID(r)
	}
	e := &lookupEnv{sc: sc, gate: &sim.Gate{}, tr: &sim.Trace{}, start: time.Now(), reject: map[peer.ID]bool{}}
	switch sc.Op {
	case "getpubkey":
		// the target is a peer whose id does not inline its (RSA) public key
		tk := rsaKeys()[0]
		peers[r.Intn(len(peers))] = tk.id
		e.key = routing.KeyForPublicKey(tk.id)
		e.target = tk.id
	case "findpeer":
		// the target is one of the peers; it becomes rank 1 (distance 0)
		e.key = string(peers[r.Intn(len(peers))])
	case "findprov", "provide":
		b := make([]byte, 32)
		r.Read(b)
		h, _ := mh.Encode(b, mh.SHA2_256)
		e.key = string(h)
		e.cid = cid.NewCidV1(cid.Raw, h)
	default:
		e.key = lookupKeyFor(sc)
	}
	e.u = sim.NewUniverse(self, e.key, peers)
	for _, rk := range sc.Reject {
		e.reject[e.u.P(rk)] = true
	}
	e.hostAddrs = []ma.Multiaddr{sim.DefaultAddr(0)}
	for i := 1; i < sc.NAddrs; i++ {
		e.hostAddrs = append(e.hostAddrs, ma.StringCast(fmt.Sprintf("/ip4/10.0.%d.1/tcp/4001", i)))
	}
	if sc.NAddrs < 0 {
		e.hostAddrs = nil
	}
	e.host = sim.NewFakeHost(self, e.hostAddrs)
	label := func(p peer.ID, kind, typ string) string {
		return fmt.Sprintf("%04d/%s/%s", e.u.Rank(p), kind, typ)
	}
	e.sender = &sim.GatedSender{G: e.gate, LabelOf: func(r *sim.RPC) string {
		k := "req"
		if !r.Request {
			k = "msg"
		}
		return label(r.Peer, k, typName(r.Msg.GetType()))
	}}
	e.host.Dial = func(ctx context.Context, p peer.ID) error {
		v, err := e.gate.Park(ctx, "dial", label(p, "dial", ""), p)
		if err != nil {
			return err
		}
		if v == nil {
			return nil
		}
		return v.(error)
	}
	e.gate.OnPark = func(it *sim.Parked) {
		if e.quiet || it.Kind == "consume" {
			return
		}
		switch it.Kind {
		case "dial":
			e.tr.AddBuf(1, it.Label, "Sent", "p", e.u.Rank(it.Payload.(peer.ID)), "kind", "dial", "typ", "", "ts", e.now())
		default:
			rpc := it.Payload.(*sim.RPC)
			kv := []any{"p", e.u.Rank(rpc.Peer), "kind", it.Kind, "typ", typName(rpc.Msg.GetType()), "ts", e.now()}
			switch rpc.Msg.GetType() {
			case pb.Message_PUT_VALUE:
				rec := rpc.Msg.GetRecord()
				kv = append(kv, "val", string(rec.GetValue()), "keyok", string(rec.GetKey()) == e.key && string(rpc.Msg.GetKey()) == e.key,
					"haslocal", e.localValue())
			case pb.Message_ADD_PROVIDER:
				provs := []int{}
				addrsOK := true
				want := e.wantAddrs()
				for _, pp := range rpc.Msg.GetProviderPeers() {
					provs = append(provs, e.u.Rank(peer.ID(pp.GetId())))
					got := map[string]bool{}
					for _, a := range pp.GetAddrs() {
						got[string(a)] = true
					}
					if len(got) != len(want) || len(got) == 0 {
						addrsOK = false
					}
					for a := range want {
						if !got[a] {
							addrsOK = false
						}
					}
				}
				kv = append(kv, "provs", provs, "addrsok", addrsOK, "keyok", string(rpc.Msg.GetKey()) == e.key)
			case pb.Message_FIND_NODE, pb.Message_GET_VALUE, pb.Message_GET_PROVIDERS:
				if e.sc.Op == "putvalue" {
					kv = append(kv, "haslocal", e.localValue())
				}
			}
			e.tr.AddBuf(1, it.Label, "Sent", kv...)
		}
	}
	e.gate.OnAbort = func(it *sim.Parked) {
		if e.quiet {
			return
		}
		var p peer.ID
		typ := ""
		if it.Kind == "dial" {
			p = it.Payload.(peer.ID)
		} else {
			rpc := it.Payload.(*sim.RPC)
			p, typ = rpc.Peer, typName(rpc.Msg.GetType())
		}
		e.tr.AddBuf(1, it.Label, "Abort", "p", e.u.Rank(p), "kind", it.Kind, "typ", typ, "ts", e.now())
	}
	e.dstore = dssync.MutexWrap(ds.NewMapDatastore())
	opts := []dht.Option{
		dht.ProtocolPrefix("/verif"),
		dht.BucketSize(sc.K),
		dht.Concurrency(sc.Alpha),
		dht.Resiliency(sc.Beta),
		dht.DisableAutoRefresh(),
		dht.Mode(dht.ModeClient),
		dht.Validator(record.NamespacedValidator{"v": simValidator{}, "pk": record.PublicKeyValidator{}}),
		dht.Datastore(e.dstore),
		dht.WithCustomMessageSender(func(h host.Host, protos []protocol.ID) pb.MessageSenderWithDisconnect { return e.sender }),
		dht.QueryFilter(func(_ any, ai peer.AddrInfo) bool { return !e.reject[ai.ID] }),
	}
	if sc.OptProv {
		opts = append(opts, dht.EnableOptimisticProvide())
	}
	if len(sc.AddrDrop) > 0 {
		opts = append(opts, dht.AddressFilter(e.filterAddrs))
	}
	d, err := dht.New(e.host, opts...)
	if err != nil {
		t.Fatalf("dht.New: %v", err)
	}
	e.d = d
	for i := range sc.Scripts {
		if sc.Scripts[i].Conn {
			e.host.Net().SetConnected(e.u.P(i+1), true)
		}
	}
	for _, rk := range sc.RT {
		p := e.u.P(rk)
		e.host.Peerstore().AddAddr(p, addrOf(rk), time.Hour)
		_, _ = d.RoutingTable().TryAddPeer(p, true, false)
	}
	return e
}

// localValue reads the value currently stored locally for the scenario key
// ("" if none), through the public ValueStore API with a permissive validator.
func (e *lookupEnv) localValue() string {
	vs := records.NewValueStore(e.dstore, anyValidator{}, 0)
	rec, err := vs.Get(context.Background(), e.key)
	if err != nil || rec == nil {
		return ""
	}
	return string(rec.GetValue())
}

// wantAddrs is the set of addresses an ADD_PROVIDER must carry: the host's
// addresses that pass the scenario's address filter.
func (e *lookupEnv) wantAddrs() map[string]bool {
	m := map[string]bool{}
	for _, a := range e.filterAddrs(e.host.Addrs()) {
		m[string(a.Bytes())] = true
	}
	return m
}

// filterAddrs is the scenario's address filter (drops the addresses whose
// index in the host's address list is in AddrDrop).
func (e *lookupEnv) filterAddrs(as []ma.Multiaddr) []ma.Multiaddr {
	if len(e.sc.AddrDrop) == 0 {
		return as
	}
	drop := map[string]bool{}
	for _, i := range e.sc.AddrDrop {
		if i < len(e.hostAddrs) {
			drop[string(e.hostAddrs[i].Bytes())] = true
		}
	}
	out := []ma.Multiaddr{}
	for _, a := range as {
		if !drop[string(a.Bytes())] {
			out = append(out, a)
		}
	}
	return out
}

// rtRanks lists the current routing-table members as sorted ranks.
func (e *lookupEnv) rtRanks() []int {
	rs := e.u.Ranks(e.d.RoutingTable().ListPeers())
	sort.Ints(rs)
	return rs
}

func (e *lookupEnv) pbPeers(ranks []int, noaddr []int) []*pb.Message_Peer {
	na := map[int]bool{}
	for _, r := range noaddr {
		na[r] = true
	}
	out := make([]*pb.Message_Peer, 0, len(ranks))
	for _, rk := range ranks {
		p := &pb.Message_Peer{Id: []byte(e.u.P(rk))}
		if !na[rk] {
			p.Addrs = [][]byte{addrOf(rk).Bytes()}
		}
		out = append(out, p)
	}
	return out
}

// release completes one parked item according to the peer's script and logs
// the Deliver event.
// live: the parked items the schedule may still pick (hung store requests are out of its hands)
func (e *lookupEnv) live(items []*sim.Parked) []*sim.Parked {
	if len(e.hung) == 0 {
		return items
	}
	out := items[:0:0]
	for _, it := range items {
		if !e.hung[it] {
			out = append(out, it)
		}
	}
	return out
}

func (e *lookupEnv) release(it *sim.Parked) {
	if it.Kind == "dial" {
		p := it.Payload.(peer.ID)
		s := e.script(p)
		var out any
		res := "ok"
		if s.Dial == "fail" {
			out = errors.New("sim: dial failed")
			res = "fail"
		}
		if e.gate.Release(it, out) {
			e.tr.Add("Deliver", "p", e.u.Rank(p), "kind", "dial", "typ", "", "out", res,
				"closer", []int{}, "provs", []int{}, "val", "", "vkey", true, "vvalid", false, "vrank", -1, "ts", e.now())
		}
		return
	}
	rpc := it.Payload.(*sim.RPC)
	s := e.script(rpc.Peer)
	typ := rpc.Msg.GetType()
	if (typ == pb.Message_ADD_PROVIDER && s.AddProv == "hang") || (typ == pb.Message_PUT_VALUE && s.PutEcho == "hang") {
		// the recipient of a store request neither answers nor fails: the request stays where it is until
		// whoever sent it gives up (its own time budget, the caller's deadline or cancellation, Close)
		if e.hung == nil {
			e.hung = map[*sim.Parked]bool{}
		}
		e.hung[it] = true
		return
	}
	o := sim.RPCOutcome{}
	res := "ok"
	closer, provs, val, vkey := []int{}, []int{}, "", true
	fail := s.Req == "fail" || s.Req == "timeout"
	if typ == pb.Message_ADD_PROVIDER {
		fail = s.AddProv == "fail"
	}
	if typ == pb.Message_PUT_VALUE {
		fail = s.PutEcho == "fail"
	}
	switch {
	case fail:
		if s.Req == "timeout" && typ != pb.Message_ADD_PROVIDER && typ != pb.Message_PUT_VALUE {
			time.Sleep(10 * time.Second)
			o.Err = dht.ErrReadTimeout
			res = "timeout"
		} else {
			o.Err = errors.New("sim: request failed")
			res = "fail"
		}
	case !rpc.Request:
		// SendMessage: nothing to return
	default:
		resp := &pb.Message{Type: typ, Key: rpc.Msg.GetKey()}
		switch typ {
		case pb.Message_FIND_NODE:
			resp.CloserPeers = e.pbPeers(s.Closer, s.NoAddr)
			closer = sim.Ints(s.Closer)
		case pb.Message_GET_VALUE:
			resp.CloserPeers = e.pbPeers(s.Closer, s.NoAddr)
			closer = sim.Ints(s.Closer)
			if strings.HasPrefix(s.Val, "pk:") {
				resp.Record = &recpb.Record{Key: rpc.Msg.GetKey(), Value: pkValue(s.Val)}
				val = s.Val
			} else if s.Val != "" {
				k := rpc.Msg.GetKey()
				if s.ValKey != "" {
					k = []byte(s.ValKey)
					vkey = false
				}
				resp.Record = &recpb.Record{Key: k, Value: []byte(s.Val)}
				val = s.Val
			}
		case pb.Message_GET_PROVIDERS:
			resp.CloserPeers = e.pbPeers(s.Closer, s.NoAddr)
			resp.ProviderPeers = e.pbPeers(s.Provs, s.NoAddr)
			closer, provs = sim.Ints(s.Closer), sim.Ints(s.Provs)
		case pb.Message_PUT_VALUE:
			switch s.PutEcho {
			case "norec":
			case "other":
				resp.Record = &recpb.Record{Key: rpc.Msg.GetKey(), Value: []byte("V0:other")}
			default:
				resp.Record = rpc.Msg.GetRecord()
			}
		}
		o.Resp = resp
	}
	vvalid, vrank := valRank([]byte(val))
	if strings.HasPrefix(val, "pk:") {
		vvalid, vrank = val == "pk:right", 0
	}
	// the events caused by the release are buffered until the next flush, so
	// logging right after a successful release keeps the causal order
	if e.gate.Release(it, o) {
		e.tr.Add("Deliver", "p", e.u.Rank(rpc.Peer), "kind", it.Kind, "typ", typName(typ), "out", res,
			"closer", closer, "provs", provs, "val", val, "vkey", vkey, "vvalid", vvalid, "vrank", vrank, "ts", e.now())
	}
}

func errClass(err error) string {
	switch {
	case err == nil:
		return ""
	case errors.Is(err, context.Canceled):
		return "canceled"
	case errors.Is(err, context.DeadlineExceeded):
		return "deadline"
	case errors.Is(err, routing.ErrNotFound):
		return "notfound"
	case strings.Contains(err.Error(), "failed to find any peer in table"):
		return "lookupfail"
	default:
		return "other:" + err.Error()
	}
}

// runBubble runs f inside a synctest bubble and reports a panic of the bubble
// (including synctest's deadlock report) as a string.
func runBubble(t *testing.T, f func(t *testing.T)) (deadlock string) {
	defer func() {
		if r := recover(); r != nil {
			msg := fmt.Sprint(r)
			if strings.Contains(msg, "deadlock") {
				// goroutines of the code under test are blocked forever; they stay
				// behind in their dead bubble and the run is reported as such
				deadlock = msg
				return
			}
			panic(r)
		}
	}()
	// Whatever the code under test draws from crypto/rand (refresh targets, network size estimation, ...) is the
	// same stream in every run, so that a run can be repeated from its replay descriptor. Drivers whose scenarios
	// carry a seed substitute a stream derived from it.
	oldReader := crand.Reader
	crand.Reader = sim.SeededReader(0x5eed)
	defer func() { crand.Reader = oldReader }()
	synctest.Test(t, f)
	return ""
}
