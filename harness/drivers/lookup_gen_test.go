package drivers

import (
	"context"
	"encoding/json"
	"fmt"
	"math/rand"
	"os"
	"testing"

	"github.com/libp2p/go-libp2p-kad-dht/records"
	recpb "github.com/libp2p/go-libp2p-record/pb"
	ma "github.com/multiformats/go-multiaddr"

	"verifharness/sim"
)

type anyValidator struct{}

func (anyValidator) Validate(string, []byte) error        { return nil }
func (anyValidator) Select(string, [][]byte) (int, error) { return 0, nil }

// putLocalRecord files a record in the node's value datastore through the
// public ValueStore API with a permissive validator, so that records the
// node's own validator would refuse can be planted too.
func putLocalRecord(e *lookupEnv, rec *recpb.Record) error {
	vs := records.NewValueStore(e.dstore, anyValidator{}, 0)
	return vs.Put(context.Background(), string(rec.GetKey()), rec)
}

func addrsOf(rank int) []ma.Multiaddr { return []ma.Multiaddr{addrOf(rank)} }

// subset draws a random subset of 1..n with each element kept with probability p.
func subset(r *rand.Rand, n int, p float64) []int {
	out := []int{}
	for i := 1; i <= n; i++ {
		if r.Float64() < p {
			out = append(out, i)
		}
	}
	return out
}

func pick(r *rand.Rand, xs ...string) string { return xs[r.Intn(len(xs))] }

// genLookupScenario draws a scenario for the given op. The mix is biased so
// that failures, lies, filter rejections and long answers are common.
func genLookupScenario(r *rand.Rand, op string, small bool) *Scenario {
	sc := &Scenario{Op: op, Seed: r.Int63()}
	if small {
		sc.N = 3 + r.Intn(4) // 3..6
		sc.K = 1 + r.Intn(3)
		sc.Alpha = 1 + r.Intn(3)
		sc.Beta = 1 + r.Intn(3)
	} else {
		sc.N = 8 + r.Intn(40)
		sc.K = []int{2, 3, 5, 20}[r.Intn(4)]
		sc.Alpha = []int{1, 3, 10}[r.Intn(3)]
		sc.Beta = []int{1, 3}[r.Intn(2)]
	}
	// routing table: a few random peers (at least one most of the time)
	prt := 0.15 + r.Float64()*0.6
	sc.RT = subset(r, sc.N, prt)
	if len(sc.RT) == 0 && r.Intn(10) > 0 {
		sc.RT = []int{1 + r.Intn(sc.N)}
	}
	if r.Intn(3) == 0 {
		sc.Reject = subset(r, sc.N, 0.2)
	}
	failP := []float64{0, 0.1, 0.3, 0.6}[r.Intn(4)]
	sc.Scripts = make([]PeerScript, sc.N)
	for i := range sc.Scripts {
		s := &sc.Scripts[i]
		s.Conn = r.Intn(4) == 0
		s.Dial, s.Req = "ok", "ok"
		if r.Float64() < failP {
			switch r.Intn(3) {
			case 0:
				s.Dial = "fail"
			case 1:
				s.Req = "fail"
			default:
				s.Req = "timeout"
			}
		}
		// closer peers: usually a handful, sometimes more than 2K, sometimes
		// naming the requester (0) or the answering peer itself
		density := []float64{0.1, 0.3, 0.6, 1.0}[r.Intn(4)]
		s.Closer = subset(r, sc.N, density)
		r.Shuffle(len(s.Closer), func(a, b int) { s.Closer[a], s.Closer[b] = s.Closer[b], s.Closer[a] })
		if r.Intn(5) == 0 {
			s.Closer = append(s.Closer, 0)
		}
		if r.Intn(6) == 0 && len(s.Closer) > 0 {
			s.Closer = append(s.Closer, s.Closer[0]) // duplicate
		}
		if r.Intn(5) == 0 {
			s.NoAddr = subset(r, sc.N, 0.3)
		}
	}
	sc.Cancel = r.Intn(4) == 0
	return sc
}

// nontrivialLookup: at least one peer failed, lied (named self / >2K peers /
// a rejected peer) or the run was cancelled.
func nontrivialLookup(sc *Scenario, evs []sim.Ev) bool {
	for _, ev := range evs {
		switch ev["e"] {
		case "Cancel":
			return true
		case "Deliver":
			if ev["out"] != "ok" {
				return true
			}
			if c, ok := ev["closer"].([]int); ok {
				if len(c) > 2*sc.K {
					return true
				}
				for _, x := range c {
					if x == 0 {
						return true
					}
					for _, rj := range sc.Reject {
						if rj == x {
							return true
						}
					}
				}
			}
		}
	}
	return false
}

type replayDesc struct {
	Scenario *Scenario `json:"scenario"`
	Choices  []int     `json:"choices"`
}

func loadReplay(path string) (*replayDesc, error) {
	b, err := os.ReadFile(path)
	if err != nil {
		return nil, err
	}
	var wrap struct {
		Replay replayDesc `json:"replay"`
	}
	if err := json.Unmarshal(b, &wrap); err == nil && wrap.Replay.Scenario != nil {
		return &wrap.Replay, nil
	}
	var d replayDesc
	if err := json.Unmarshal(b, &d); err != nil {
		return nil, err
	}
	return &d, nil
}

// TestLookupGCP drives GetClosestPeers: exhaustive delivery orders on small
// networks plus seeded random schedules on larger ones.
func TestLookupGCP(t *testing.T) {
	e := getEnv(t)
	rec := newRecorder(t, e, "lookup-gcp", "trace = scenario x schedule; distinct by event-sequence hash; non-trivial iff a peer failed, lied (self / >2K / filter-rejected peer named) or the lookup was cancelled")
	defer rec.Close(t, e)
	if e.Replay != "" {
		d, err := loadReplay(e.Replay)
		if err != nil {
			t.Fatal(err)
		}
		ch := &sim.ReplayChooser{Seq: d.Choices}
		evs := runLookup(t, d.Scenario, ch)
		rec.Record(evs, replayDesc{d.Scenario, ch.Taken()}, nontrivialLookup(d.Scenario, evs))
		return
	}
	r := rand.New(rand.NewSource(e.Seed))
	nSmall, maxPer, nLarge := 40, 60, 150
	if e.Tier == "thorough" {
		nSmall, maxPer, nLarge = 400, 400, 3000
	}
	if e.Budget > 0 {
		nSmall, nLarge = e.Budget, e.Budget
	}
	// exhaustive schedules of small scenarios
	for i := 0; i < nSmall; i++ {
		sc := genLookupScenario(r, "gcp", true)
		dfs := &sim.DFS{}
		for n := 0; n < maxPer; n++ {
			evs := runLookup(t, sc, dfs)
			rec.Record(evs, replayDesc{sc, dfs.Taken()}, nontrivialLookup(sc, evs))
			rec.Count("dfs_runs", 1)
			if !dfs.Next() {
				rec.Count("dfs_exhausted_scenarios", 1)
				break
			}
		}
	}
	// random schedules of larger scenarios
	for i := 0; i < nLarge; i++ {
		sc := genLookupScenario(r, "gcp", false)
		// (SlowEv - lookup events consumed slowly, so that several answers wait while the lookup is blocked
		// publishing - is implemented in the runner but not generated: the monitor reconstructs the lookup's
		// state from the events in lockstep with the deliveries and would have to be rebuilt for late events)
		if os.Getenv("VERIF_SLOWEV") != "" {
			sc.SlowEv = i%4 == 3
		}
		ch := sim.NewRandomChooser(r.Int63())
		evs := runLookup(t, sc, ch)
		rec.Record(evs, replayDesc{sc, ch.Taken()}, nontrivialLookup(sc, evs))
		rec.Count("random_runs", 1)
	}
}

// TestLookupEvents: closest-peers lookups whose event consumer is scheduled like any other actor (SlowEv): while
// it does not read, the lookup blocks publishing and further answers queue up behind it. The traces are judged
// by EventsTrace.tla only (what the events claim against what the delivered answers named); the lockstep
// monitor DhtTrace.tla is not applied to them.
func TestLookupEvents(t *testing.T) {
	e := getEnv(t)
	rec := newRecorder(t, e, "lookup-events", "trace = scenario x schedule (deliveries and event consumption interleaved); distinct by event-sequence hash")
	defer rec.Close(t, e)
	if e.Replay != "" {
		d, err := loadReplay(e.Replay)
		if err != nil {
			t.Fatal(err)
		}
		ch := &sim.ReplayChooser{Seq: d.Choices}
		evs := runLookup(t, d.Scenario, ch)
		rec.Record(evs, replayDesc{d.Scenario, ch.Taken()}, true)
		return
	}
	r := rand.New(rand.NewSource(e.Seed))
	n := 150
	if e.Tier == "thorough" {
		n = 3000
	}
	if e.Budget > 0 {
		n = e.Budget
	}
	for i := 0; i < n; i++ {
		sc := genLookupScenario(r, "gcp", i%3 == 0)
		sc.SlowEv = true
		sc.Alpha = 3
		ch := sim.NewRandomChooser(r.Int63())
		evs := runLookup(t, sc, ch)
		rec.Record(evs, replayDesc{sc, ch.Taken()}, true)
		rec.Count("slow_event_runs", 1)
	}
}

func randVal(r *rand.Rand) string {
	switch r.Intn(6) {
	case 0:
		return ""
	case 1:
		return fmt.Sprintf("I%d", r.Intn(4))
	default:
		return fmt.Sprintf("V%d:%d", r.Intn(4), r.Intn(2))
	}
}

// genOpScenario draws a scenario for any routing operation.
func genOpScenario(r *rand.Rand, op string, small bool) *Scenario {
	sc := genLookupScenario(r, op, small)
	switch op {
	case "getvalue", "searchvalue":
		for i := range sc.Scripts {
			s := &sc.Scripts[i]
			s.Val = randVal(r)
			if s.Val != "" && r.Intn(6) == 0 {
				s.ValKey = "/v/other"
			}
		}
		if r.Intn(2) == 0 {
			sc.LocalVal = randVal(r)
		}
		sc.Quorum = []int{-1, 0, 1, 2, 3}[r.Intn(5)]
		sc.SlowCons = op == "searchvalue" && sc.Quorum <= 0 && r.Intn(2) == 0
	case "getpubkey":
		for i := range sc.Scripts {
			sc.Scripts[i].Val = pick(r, "", "", "pk:right", "pk:other", "pk:other", "pk:garbage")
		}
	case "findprov":
		for i := range sc.Scripts {
			if r.Intn(2) == 0 {
				sc.Scripts[i].Provs = subset(r, sc.N, 0.15+r.Float64()*0.3)
				if r.Intn(8) == 0 {
					sc.Scripts[i].Provs = append(sc.Scripts[i].Provs, 0)
				}
			}
		}
		if r.Intn(2) == 0 {
			sc.LocalPrv = subset(r, sc.N, 0.2)
		}
		sc.Count = []int{0, 1, 2, sc.K, 20}[r.Intn(5)]
		sc.SlowCons = r.Intn(2) == 0
	case "putvalue":
		sc.PutVal = fmt.Sprintf("V%d:%d", r.Intn(4), r.Intn(2))
		if r.Intn(8) == 0 {
			sc.PutVal = fmt.Sprintf("I%d", r.Intn(4))
		}
		if r.Intn(2) == 0 {
			sc.LocalVal = randVal(r)
		}
		for i := range sc.Scripts {
			sc.Scripts[i].PutEcho = pick(r, "", "", "", "other", "fail", "hang")
		}
	case "provide":
		for i := range sc.Scripts {
			sc.Scripts[i].AddProv = pick(r, "", "", "fail", "hang")
		}
		sc.Timeout = []int{0, 0, 5, 40, 300}[r.Intn(5)]
		sc.NAddrs = []int{1, 1, 3, 4}[r.Intn(4)]
		if sc.NAddrs > 1 && r.Intn(2) == 0 {
			sc.AddrDrop = []int{1 + r.Intn(sc.NAddrs-1)}
		}
	}
	return sc
}

// genOptProvScenario: optimistic provide after warm-up lookups; the peers
// then fail much more often, so that few (or no) ADD_PROVIDER RPCs get scheduled.
func genOptProvScenario(r *rand.Rand) *Scenario {
	sc := genOpScenario(r, "provide", false)
	sc.OptProv = true
	sc.Warm = 5 + r.Intn(2)
	sc.WarmBig = r.Intn(2) == 0
	sc.Timeout = 0
	sc.K = []int{2, 3}[r.Intn(2)]
	sc.N = 8 + r.Intn(25)
	sc.Scripts = sc.Scripts[:0]
	failP := []float64{0.2, 0.6, 1.0}[r.Intn(3)]
	for i := 0; i < sc.N; i++ {
		s := PeerScript{Dial: "ok", Req: "ok", Closer: subset(r, sc.N, 0.4), AddProv: pick(r, "", "", "fail")}
		if r.Float64() < failP {
			if r.Intn(2) == 0 {
				s.Dial = "fail"
			} else {
				s.Req = "fail"
			}
		}
		sc.Scripts = append(sc.Scripts, s)
	}
	sc.RT = []int{1 + r.Intn(sc.N), 1 + r.Intn(sc.N), 1 + r.Intn(sc.N)} // the warm-up adds more
	sc.Reject = nil
	return sc
}

func TestOpsOptProvide(t *testing.T) {
	e := getEnv(t)
	rec := newRecorder(t, e, "ops-optprovide", "optimistic provide after warm-up lookups; seeded scenarios and schedules; non-trivial iff a peer failed or the operation was cancelled")
	defer rec.Close(t, e)
	if e.Replay != "" {
		d, err := loadReplay(e.Replay)
		if err != nil {
			t.Fatal(err)
		}
		ch := &sim.ReplayChooser{Seq: d.Choices}
		evs := runLookup(t, d.Scenario, ch)
		rec.Record(evs, replayDesc{d.Scenario, ch.Taken()}, nontrivialLookup(d.Scenario, evs))
		return
	}
	r := rand.New(rand.NewSource(e.Seed))
	n := 150
	if e.Tier == "thorough" {
		n = 3000
	}
	if e.Budget > 0 {
		n = e.Budget
	}
	for i := 0; i < n; i++ {
		sc := genOptProvScenario(r)
		ch := sim.NewRandomChooser(r.Int63())
		writeCurrent(e, replayDesc{sc, nil})
		evs := runLookup(t, sc, ch)
		rec.Record(evs, replayDesc{sc, ch.Taken()}, nontrivialLookup(sc, evs))
		rec.Count("random_runs", 1)
	}
}

var allOps = []string{"gcp", "findpeer", "getvalue", "searchvalue", "findprov", "putvalue", "provide"}

// runOpsDriver is the common body of the operation drivers.
func runOpsDriver(t *testing.T, name string, ops []string, nSmallQ, maxPerQ, nLargeQ int) {
	e := getEnv(t)
	rec := newRecorder(t, e, name, "trace = operation x scenario x schedule (delivery order, cancellation point); distinct by event-sequence hash; non-trivial iff a peer failed, lied or the operation was cancelled")
	defer rec.Close(t, e)
	if e.Replay != "" {
		d, err := loadReplay(e.Replay)
		if err != nil {
			t.Fatal(err)
		}
		ch := &sim.ReplayChooser{Seq: d.Choices}
		evs := runLookup(t, d.Scenario, ch)
		rec.Record(evs, replayDesc{d.Scenario, ch.Taken()}, nontrivialLookup(d.Scenario, evs))
		return
	}
	r := rand.New(rand.NewSource(e.Seed))
	nSmall, maxPer, nLarge := nSmallQ, maxPerQ, nLargeQ
	if e.Tier == "thorough" {
		nSmall, maxPer, nLarge = 10*nSmallQ, 5*maxPerQ, 20*nLargeQ
	}
	if e.Budget > 0 {
		nSmall, nLarge = e.Budget, e.Budget
	}
	for i := 0; i < nSmall; i++ {
		op := ops[i%len(ops)]
		sc := genOpScenario(r, op, true)
		dfs := &sim.DFS{}
		for n := 0; n < maxPer; n++ {
			writeCurrent(e, replayDesc{sc, nil})
			evs := runLookup(t, sc, dfs)
			rec.Record(evs, replayDesc{sc, dfs.Taken()}, nontrivialLookup(sc, evs))
			rec.Count("dfs_runs_"+op, 1)
			if !dfs.Next() {
				rec.Count("dfs_exhausted_scenarios", 1)
				break
			}
		}
	}
	for i := 0; i < nLarge; i++ {
		op := ops[i%len(ops)]
		sc := genOpScenario(r, op, false)
		ch := sim.NewRandomChooser(r.Int63())
		writeCurrent(e, replayDesc{sc, nil})
		evs := runLookup(t, sc, ch)
		rec.Record(evs, replayDesc{sc, ch.Taken()}, nontrivialLookup(sc, evs))
		rec.Count("random_runs_"+op, 1)
	}
}

// writeCurrent notes the scenario about to run, so that a crash of the
// process (a panic inside a goroutine of the code under test) can be
// attributed and replayed.
func writeCurrent(e Env, d replayDesc) {
	_ = writeJSON(e.Out+".current.json", map[string]any{"replay": d})
}

func TestOpsAll(t *testing.T) { runOpsDriver(t, "ops-all", allOps, 42, 40, 210) }
func TestOpsValue(t *testing.T) {
	runOpsDriver(t, "ops-value", []string{"getvalue", "searchvalue", "getpubkey"}, 45, 50, 240)
}
func TestOpsProviders(t *testing.T) {
	runOpsDriver(t, "ops-findprov", []string{"findprov"}, 40, 50, 200)
}
func TestOpsPut(t *testing.T) {
	runOpsDriver(t, "ops-put", []string{"putvalue", "provide"}, 40, 50, 200)
}
