package drivers

import (
	"math/rand"
	"sort"
	"testing"

	"github.com/libp2p/go-libp2p/core/peer"

	"verifharness/sim"
)

// genHonestScenario builds a network that satisfies C02's assumption: every
// peer answers, its table holds every peer of each of its non-full k-buckets
// and K peers of each full one, and it replies with the K nearest peers it
// knows. With full=true every peer knows every other peer.
func genHonestScenario(r *rand.Rand, small, full, clustered bool) *Scenario {
	sc := &Scenario{Op: "gcp", Seed: r.Int63(), Honest: true, Full: full}
	if small {
		sc.N = 3 + r.Intn(4)
		sc.K = 1 + r.Intn(3)
		sc.Alpha = 1 + r.Intn(3)
		sc.Beta = 1 + r.Intn(3)
	} else {
		sc.N = 8 + r.Intn(120)
		sc.K = []int{2, 3, 5, 20}[r.Intn(4)]
		sc.Alpha = []int{1, 3, 10}[r.Intn(3)]
		sc.Beta = []int{1, 3}[r.Intn(2)]
	}
	// recreate the ids exactly as buildLookupEnv will (same PRNG sequence)
	ir := rand.New(rand.NewSource(sc.Seed))
	self := sim.NewPeerID(ir)
	peers := make([]peer.ID, sc.N)
	for i := range peers {
		peers[i] = sim.NewPeerID(ir)
	}
	key := lookupKeyFor(sc)
	u := sim.NewUniverse(self, key, peers)
	kad := make([][32]byte, sc.N+1)
	for rk := 1; rk <= sc.N; rk++ {
		kad[rk] = sim.KadID([]byte(u.P(rk)))
	}
	sc.Scripts = make([]PeerScript, sc.N)
	for rk := 1; rk <= sc.N; rk++ {
		known := []int{}
		if full {
			for q := 1; q <= sc.N; q++ {
				if q != rk {
					known = append(known, q)
				}
			}
		} else {
			buckets := map[int][]int{}
			for q := 1; q <= sc.N; q++ {
				if q != rk {
					c := sim.CommonPrefixLen(kad[rk], kad[q])
					buckets[c] = append(buckets[c], q)
				}
			}
			for _, b := range buckets {
				if len(b) > sc.K {
					r.Shuffle(len(b), func(i, j int) { b[i], b[j] = b[j], b[i] })
					b = b[:sc.K]
				}
				known = append(known, b...)
			}
		}
		sort.Ints(known) // ranks are distances to the key: ascending = nearest first
		if len(known) > sc.K {
			known = known[:sc.K]
		}
		r.Shuffle(len(known), func(i, j int) { known[i], known[j] = known[j], known[i] })
		sc.Scripts[rk-1] = PeerScript{Dial: "ok", Req: "ok", Closer: known, Conn: r.Intn(3) == 0}
	}
	// any non-empty routing table
	sc.RT = subset(r, sc.N, 0.1+r.Float64()*0.5)
	if clustered {
		// seeds far away from the key only: convergence has to do all the work
		sc.RT = []int{sc.N - r.Intn(1+sc.N/4)}
	}
	if len(sc.RT) == 0 {
		sc.RT = []int{1 + r.Intn(sc.N)}
	}
	return sc
}

func TestLookupHonest(t *testing.T) {
	e := getEnv(t)
	rec := newRecorder(t, e, "lookup-honest", "honest k-bucket-complete networks (generator enforces C02's assumption); trace = network x seed table x arrival order; non-trivial iff the lookup needed at least two answers")
	defer rec.Close(t, e)
	if e.Replay != "" {
		d, err := loadReplay(e.Replay)
		if err != nil {
			t.Fatal(err)
		}
		ch := &sim.ReplayChooser{Seq: d.Choices}
		evs := runLookup(t, d.Scenario, ch)
		rec.Record(evs, replayDesc{d.Scenario, ch.Taken()}, true)
		return
	}
	r := rand.New(rand.NewSource(e.Seed))
	nSmall, maxPer, nLarge := 40, 60, 200
	if e.Tier == "thorough" {
		nSmall, maxPer, nLarge = 400, 400, 4000
	}
	if e.Budget > 0 {
		nSmall, nLarge = e.Budget, e.Budget
	}
	nontriv := func(evs []sim.Ev) bool {
		n := 0
		for _, ev := range evs {
			if ev["e"] == "Deliver" && ev["kind"] == "req" {
				n++
			}
		}
		return n >= 2
	}
	for i := 0; i < nSmall; i++ {
		sc := genHonestScenario(r, true, i%3 == 0, i%4 == 1)
		dfs := &sim.DFS{}
		for n := 0; n < maxPer; n++ {
			evs := runLookup(t, sc, dfs)
			rec.Record(evs, replayDesc{sc, dfs.Taken()}, nontriv(evs))
			rec.Count("dfs_runs", 1)
			if !dfs.Next() {
				rec.Count("dfs_exhausted_scenarios", 1)
				break
			}
		}
	}
	for i := 0; i < nLarge; i++ {
		sc := genHonestScenario(r, false, i%3 == 0, i%4 == 1)
		ch := sim.NewRandomChooser(r.Int63())
		evs := runLookup(t, sc, ch)
		rec.Record(evs, replayDesc{sc, ch.Taken()}, nontriv(evs))
		rec.Count("random_runs", 1)
	}
}
