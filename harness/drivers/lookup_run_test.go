package drivers

import (
	"context"
	"fmt"
	"sort"
	"testing"
	"testing/synctest"
	"time"

	dht "github.com/libp2p/go-libp2p-kad-dht"
	"github.com/libp2p/go-libp2p/core/peer"
	"github.com/libp2p/go-libp2p/core/routing"
	record "github.com/libp2p/go-libp2p-record"

	"verifharness/sim"
)

// runLookup executes one scenario under one schedule and returns its trace.
func runLookup(t *testing.T, sc *Scenario, ch sim.Chooser) (evs []sim.Ev) {
	runBubble(t, func(t *testing.T) {
		evs = runLookupInBubble(t, sc, ch)
	})
	return evs
}

func scriptsForTrace(sc *Scenario) []any {
	out := make([]any, 0, len(sc.Scripts))
	for _, s := range sc.Scripts {
		out = append(out, map[string]any{
			"conn": s.Conn, "dial": s.Dial, "req": s.Req, "closer": sim.Ints(s.Closer),
			"provs": sim.Ints(s.Provs), "val": s.Val, "vkey": s.ValKey == "", "putecho": s.PutEcho, "addprov": s.AddProv,
		})
	}
	return out
}

func runLookupInBubble(t *testing.T, sc *Scenario, ch sim.Chooser) []sim.Ev {
	base0 := sim.BubbleSet()
	e := buildLookupEnv(t, sc)
	tr := e.tr
	d := e.d

	// local state seeded before the operation
	bg := context.Background()
	if sc.LocalVal != "" {
		rec := record.MakePutRecord(e.key, []byte(sc.LocalVal))
		rec.TimeReceived = time.Now().UTC().Format(time.RFC3339Nano)
		if err := putLocalRecord(e, rec); err != nil {
			t.Fatalf("seed local value: %v", err)
		}
	}
	for _, rk := range sc.LocalPrv {
		if err := d.ProviderStore().AddProvider(bg, []byte(e.key), peer.AddrInfo{ID: e.u.P(rk), Addrs: addrsOf(rk)}); err != nil {
			t.Fatalf("seed local provider: %v", err)
		}
	}

	rt := e.rtRanks()
	seeds := e.u.Ranks(sim.SortByDistance(d.RoutingTable().ListPeers(), e.key))
	if len(seeds) > sc.K {
		seeds = seeds[:sc.K]
	}
	conn := []int{}
	for i, s := range sc.Scripts {
		if s.Conn {
			conn = append(conn, i+1)
		}
	}
	lvOK, lvRank := valRank([]byte(sc.LocalVal))
	pvOK, pvRank := valRank([]byte(sc.PutVal))
	tr.Add("Reset", "op", sc.Op, "K", sc.K, "alpha", sc.Alpha, "beta", sc.Beta, "N", sc.N,
		"rt", rt, "seeds", sim.Ints(seeds), "reject", sim.Ints(sc.Reject), "conn", conn,
		"count", sc.Count, "quorum", sc.Quorum, "localval", sc.LocalVal, "localprv", sim.Ints(sc.LocalPrv),
		"putval", sc.PutVal, "lvvalid", lvOK, "lvrank", lvRank, "pvvalid", pvOK, "pvrank", pvRank,
		"timeout", sc.Timeout*1000, "optprov", sc.OptProv, "honest", sc.Honest, "full", sc.Full, "selfrank", e.u.SelfRank(), "scr", scriptsForTrace(sc), "ts", 0)

	regCtx, regCancel := context.WithCancel(context.Background())
	lctx, lev := dht.RegisterForLookupEvents(regCtx)
	levDone := make(chan struct{})
	go func() {
		defer close(levDone)
		for ev := range lev {
			switch {
			case ev.Request != nil:
				tr.AddBuf(0, "", "Req", "cause", e.kadRank(ev.Request.Cause), "p", firstRank(e, ev.Request.Waiting), "ts", e.now())
			case ev.Response != nil:
				tr.AddBuf(0, "", "Resp", "cause", e.kadRank(ev.Response.Cause),
					"heard", e.kadRanks(ev.Response.Heard), "queried", e.kadRanks(ev.Response.Queried),
					"unreach", e.kadRanks(ev.Response.Unreachable), "ts", e.now())
			case ev.Terminate != nil:
				tr.AddBuf(0, "", "Term", "reason", ev.Terminate.Reason.String(), "ts", e.now())
			}
		}
	}()

	var opCtx context.Context
	var opCancel context.CancelFunc
	if sc.Timeout > 0 {
		opCtx, opCancel = context.WithTimeout(lctx, time.Duration(sc.Timeout)*time.Second)
	} else {
		opCtx, opCancel = context.WithCancel(lctx)
	}
	defer opCancel()

	synctest.Wait()
	base := sim.BubbleSet()
	opDone := make(chan struct{})
	go func() {
		defer close(opDone)
		defer func() {
			if r := recover(); r != nil {
				tr.AddBuf(3, "", "Panic", "msg", fmt.Sprint(r), "ts", e.now())
			}
		}()
		e.runOp(opCtx)
	}()

	cancelled := false
	idle := 0
	hang := false
	for steps := 0; steps < 100000; steps++ {
		synctest.Wait()
		tr.Flush()
		tr.Add("Q", "ts", e.now())
		done := false
		select {
		case <-opDone:
			done = true
		default:
		}
		items := e.gate.Pending()
		if done && len(items) == 0 {
			break
		}
		n := len(items)
		canCancel := sc.Cancel && !cancelled && !done
		if canCancel {
			n++
		}
		if n == 0 {
			// nothing to schedule: only timers can make progress
			idle++
			if idle > 400 {
				hang = true
				break
			}
			time.Sleep(time.Second)
			continue
		}
		idle = 0
		i := ch.Choose(n)
		if i == len(items) {
			cancelled = true
			tr.Add("Cancel", "ts", e.now())
			opCancel()
			continue
		}
		e.release(items[i])
	}
	synctest.Wait()
	tr.Flush()
	tr.Add("Q", "ts", e.now())
	if hang {
		tr.Add("Hang", "ts", e.now())
	} else {
		// everything the operation started must end by itself within the
		// operation's own timeouts: let three minutes of virtual time pass
		time.Sleep(3 * time.Minute)
		synctest.Wait()
		tr.Flush()
		left := sim.NewSince(base, "verifharness")
		descs := []string{}
		for _, g := range left {
			descs = append(descs, g.Describe())
		}
		sort.Strings(descs)
		tr.Add("Bg", "n", len(left), "what", descs, "pending", e.gate.Len(), "ts", e.now())
	}
	tr.Add("PreClose", "rt", e.rtRanks(), "ts", e.now())
	// shut down; anything still parked is released by context cancellation
	opCancel()
	closeDone := make(chan struct{})
	go func() {
		defer close(closeDone)
		_ = d.Close()
	}()
	synctest.Wait()
	select {
	case <-closeDone:
		tr.Add("Closed", "ok", true, "ts", e.now())
	default:
		tr.Add("Closed", "ok", false, "ts", e.now())
	}
	// drain whatever Close left parked (none expected)
	for _, it := range e.gate.Pending() {
		e.gate.Release(it, failOutcome(it))
	}
	regCancel()
	<-levDone
	if hang {
		// let a hung operation's goroutines go away if they can; otherwise the
		// bubble reports the deadlock itself
		<-opDone
	}
	<-closeDone
	_ = e.host.Close()
	synctest.Wait()
	tr.Flush()
	{
		left := sim.NewSince(base0, "verifharness")
		descs := []string{}
		for _, g := range left {
			descs = append(descs, g.Describe())
		}
		sort.Strings(descs)
		tr.Add("Left", "n", len(left), "what", descs, "ts", e.now())
	}
	tr.Add("End", "ts", e.now())
	return tr.Events
}

func failOutcome(it *sim.Parked) any {
	if it.Kind == "dial" {
		return fmt.Errorf("sim: shutdown")
	}
	return sim.RPCOutcome{Err: fmt.Errorf("sim: shutdown")}
}

func (e *lookupEnv) kadRank(p *dht.PeerKadID) int {
	if p == nil {
		return -1
	}
	return e.u.Rank(p.Peer)
}

func (e *lookupEnv) kadRanks(ps []*dht.PeerKadID) []int {
	out := make([]int, 0, len(ps))
	for _, p := range ps {
		out = append(out, e.u.Rank(p.Peer))
	}
	return out
}

func firstRank(e *lookupEnv, ps []*dht.PeerKadID) int {
	if len(ps) == 0 {
		return -1
	}
	return e.u.Rank(ps[0].Peer)
}

// runOp performs the scenario's operation and logs its result.
func (e *lookupEnv) runOp(ctx context.Context) {
	tr, d, sc := e.tr, e.d, e.sc
	switch sc.Op {
	case "gcp":
		peers, err := d.GetClosestPeers(ctx, e.key)
		tr.AddBuf(3, "", "Return", "peers", e.u.Ranks(peers), "err", errClass(err), "ts", e.now())
	case "findpeer":
		ai, err := d.FindPeer(ctx, peer.ID(e.key))
		tr.AddBuf(3, "", "Return", "peers", e.u.Ranks(nonEmpty(ai.ID)), "naddrs", len(ai.Addrs), "err", errClass(err), "ts", e.now())
	case "getvalue":
		opts := []routing.Option{}
		if sc.Quorum >= 0 {
			opts = append(opts, dht.Quorum(sc.Quorum))
		}
		v, err := d.GetValue(ctx, e.key, opts...)
		okv, rkv := valRank(v)
		tr.AddBuf(3, "", "Return", "val", string(v), "valid", okv, "rank", rkv, "err", errClass(err), "ts", e.now())
	case "searchvalue":
		opts := []routing.Option{}
		if sc.Quorum >= 0 {
			opts = append(opts, dht.Quorum(sc.Quorum))
		}
		ch, err := d.SearchValue(ctx, e.key, opts...)
		if err != nil {
			tr.AddBuf(3, "", "Return", "val", "", "valid", false, "rank", -1, "err", errClass(err), "ts", e.now())
			return
		}
		last := ""
		for v := range ch {
			last = string(v)
			ok, rk := valRank(v)
			tr.AddBuf(3, "", "Emit", "val", string(v), "p", -1, "naddrs", 0, "valid", ok, "rank", rk, "ts", e.now())
		}
		tr.AddBuf(3, "", "ChanClosed", "ts", e.now())
		okl, rkl := valRank([]byte(last))
		tr.AddBuf(3, "", "Return", "val", last, "valid", okl, "rank", rkl, "err", errClass(ctx.Err()), "ts", e.now())
	case "findprov":
		ch := d.FindProvidersAsync(ctx, e.cid, sc.Count)
		got := []int{}
		for ai := range ch {
			got = append(got, e.u.Rank(ai.ID))
			tr.AddBuf(3, "", "Emit", "val", "", "p", e.u.Rank(ai.ID), "naddrs", len(ai.Addrs), "valid", false, "rank", -1, "ts", e.now())
		}
		tr.AddBuf(3, "", "ChanClosed", "ts", e.now())
		tr.AddBuf(3, "", "Return", "peers", got, "err", errClass(ctx.Err()), "ts", e.now())
	case "putvalue":
		err := d.PutValue(ctx, e.key, []byte(sc.PutVal))
		tr.AddBuf(3, "", "Return", "err", errClass(err), "localval", e.localValue(), "ts", e.now())
	case "provide":
		err := d.Provide(ctx, e.cid, true)
		selfLocal := false
		if ps, perr := d.ProviderStore().GetProviders(context.Background(), []byte(e.key)); perr == nil {
			for _, ai := range ps {
				if ai.ID == e.u.Self {
					selfLocal = true
				}
			}
		}
		tr.AddBuf(3, "", "Return", "err", errClass(err), "selflocal", selfLocal, "ts", e.now())
	default:
		panic("unknown op " + sc.Op)
	}
}

func nonEmpty(p peer.ID) []peer.ID {
	if p == "" {
		return nil
	}
	return []peer.ID{p}
}

func sortedCopy(x []int) []int {
	y := append([]int{}, x...)
	sort.Ints(y)
	return y
}
