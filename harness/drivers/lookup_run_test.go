package drivers

import (
	"context"
	"fmt"
	"sort"
	"testing"
	"testing/synctest"
	"time"

	dht "github.com/libp2p/go-libp2p-kad-dht"
	pb "github.com/libp2p/go-libp2p-kad-dht/pb"
	"github.com/libp2p/go-libp2p/core/peer"
	"github.com/libp2p/go-libp2p/core/routing"
	record "github.com/libp2p/go-libp2p-record"

	"verifharness/sim"
)

// runLookup executes one scenario under one schedule and returns its trace.
func runLookup(t *testing.T, sc *Scenario, ch sim.Chooser) (evs []sim.Ev) {
	dl := runBubble(t, func(t *testing.T) {
		evs = runLookupInBubble(t, sc, ch)
	})
	if dl != "" {
		// insert before the End line
		end := evs[len(evs)-1]
		evs = append(evs[:len(evs)-1], sim.Ev{"e": "Stuck", "msg": dl, "ts": end["ts"]}, end)
	}
	return evs
}

func scriptsForTrace(sc *Scenario) []any {
	out := make([]any, 0, len(sc.Scripts))
	for _, s := range sc.Scripts {
		out = append(out, map[string]any{
			"conn": s.Conn, "dial": s.Dial, "req": s.Req, "closer": sim.Ints(s.Closer),
			"provs": sim.Ints(s.Provs), "val": s.Val, "vkey": s.ValKey == "", "putecho": s.PutEcho, "addprov": s.AddProv,
		})
	}
	return out
}

func runLookupInBubble(t *testing.T, sc *Scenario, ch sim.Chooser) []sim.Ev {
	base0 := sim.BubbleSet()
	e := buildLookupEnv(t, sc)
	tr := e.tr
	d := e.d

	// local state seeded before the operation
	bg := context.Background()
	if sc.LocalVal != "" {
		rec := record.MakePutRecord(e.key, []byte(sc.LocalVal))
		rec.TimeReceived = time.Now().UTC().Format(time.RFC3339Nano)
		if err := putLocalRecord(e, rec); err != nil {
			t.Fatalf("seed local value: %v", err)
		}
	}
	for _, rk := range sc.LocalPrv {
		if err := d.ProviderStore().AddProvider(bg, []byte(e.key), peer.AddrInfo{ID: e.u.P(rk), Addrs: addrsOf(rk)}); err != nil {
			t.Fatalf("seed local provider: %v", err)
		}
	}

	if sc.Warm > 0 {
		e.warmUp(t, sc.Warm, sc.WarmBig)
	}

	rt := e.rtRanks()
	seeds := e.u.Ranks(sim.SortByDistance(d.RoutingTable().ListPeers(), e.key))
	if len(seeds) > sc.K {
		seeds = seeds[:sc.K]
	}
	conn := []int{}
	for i, s := range sc.Scripts {
		if s.Conn {
			conn = append(conn, i+1)
		}
	}
	lvOK, lvRank := valRank([]byte(sc.LocalVal))
	pvOK, pvRank := valRank([]byte(sc.PutVal))
	tr.Add("Reset", "op", sc.Op, "K", sc.K, "alpha", sc.Alpha, "beta", sc.Beta, "N", sc.N,
		"rt", rt, "seeds", sim.Ints(seeds), "reject", sim.Ints(sc.Reject), "conn", conn,
		"count", sc.Count, "quorum", sc.Quorum, "localval", sc.LocalVal, "localprv", sim.Ints(sc.LocalPrv),
		"putval", sc.PutVal, "lvvalid", lvOK, "lvrank", lvRank, "pvvalid", pvOK, "pvrank", pvRank,
		"timeout", sc.Timeout*1000, "optprov", sc.OptProv, "slowcons", sc.SlowCons, "honest", sc.Honest, "full", sc.Full, "selfrank", e.u.SelfRank(), "scr", scriptsForTrace(sc), "ts", 0)

	regCtx, regCancel := context.WithCancel(context.Background())
	lctx, lev := dht.RegisterForLookupEvents(regCtx)
	levDone := make(chan struct{})
	go func() {
		defer close(levDone)
		for ev := range lev {
			if sc.SlowEv && !e.fastCons {
				_, _ = e.gate.Park(nil, "consume", "events", nil)
			}
			switch {
			case ev.Request != nil:
				tr.AddBuf(0, "", "Req", "cause", e.kadRank(ev.Request.Cause), "p", firstRank(e, ev.Request.Waiting), "ts", e.now())
			case ev.Response != nil:
				tr.AddBuf(0, "", "Resp", "cause", e.kadRank(ev.Response.Cause),
					"heard", e.kadRanks(ev.Response.Heard), "queried", e.kadRanks(ev.Response.Queried),
					"unreach", e.kadRanks(ev.Response.Unreachable), "ts", e.now())
			case ev.Terminate != nil:
				tr.AddBuf(0, "", "Term", "reason", ev.Terminate.Reason.String(), "ts", e.now())
			}
		}
	}()

	var opCtx context.Context
	var opCancel context.CancelFunc
	if sc.Timeout > 0 {
		opCtx, opCancel = context.WithTimeout(lctx, time.Duration(sc.Timeout)*time.Second)
	} else {
		opCtx, opCancel = context.WithCancel(lctx)
	}
	defer opCancel()

	synctest.Wait()
	base := sim.BubbleSet()
	opDone := make(chan struct{})
	go func() {
		defer close(opDone)
		defer func() {
			if r := recover(); r != nil {
				tr.AddBuf(3, "", "Panic", "msg", fmt.Sprint(r), "ts", e.now())
			}
		}()
		e.runOp(opCtx)
	}()

	cancelled := false
	idle := 0
	hang := false
	for steps := 0; steps < 100000; steps++ {
		synctest.Wait()
		tr.Flush()
		tr.Add("Q", "ts", e.now())
		done := false
		select {
		case <-opDone:
			done = true
		default:
		}
		items := e.live(e.gate.Pending())
		if done && len(items) == 0 {
			break
		}
		n := len(items)
		canCancel := sc.Cancel && !cancelled && !done
		if canCancel {
			n++
		}
		if n == 0 {
			// nothing to schedule: only timers can make progress
			idle++
			if idle > 400 {
				hang = true
				break
			}
			time.Sleep(time.Second)
			continue
		}
		idle = 0
		i := ch.Choose(n)
		if i == len(items) {
			cancelled = true
			tr.Add("Cancel", "ts", e.now())
			// a cancelled caller stops consuming slowly (it just drains)
			e.fastCons = true
			for _, it := range items {
				if it.Kind == "consume" {
					e.gate.Release(it, nil)
				}
			}
			opCancel()
			continue
		}
		if items[i].Kind == "consume" {
			e.gate.Release(items[i], nil)
			continue
		}
		e.release(items[i])
	}
	synctest.Wait()
	tr.Flush()
	tr.Add("Q", "ts", e.now())
	if hang {
		tr.Add("Hang", "ts", e.now())
	} else {
		// everything the operation started must end by itself within the
		// operation's own timeouts: let three minutes of virtual time pass
		time.Sleep(3 * time.Minute)
		synctest.Wait()
		tr.Flush()
		left := sim.NewSince(base, "verifharness")
		descs := []string{}
		for _, g := range left {
			descs = append(descs, g.Describe())
		}
		sort.Strings(descs)
		tr.Add("Bg", "n", len(left), "what", descs, "pending", e.gate.Len(), "ts", e.now())
	}
	tr.Add("PreClose", "rt", e.rtRanks(), "ts", e.now())
	// shut down; anything still parked is released by context cancellation
	opCancel()
	closeDone := make(chan struct{})
	go func() {
		defer close(closeDone)
		_ = d.Close()
	}()
	synctest.Wait()
	select {
	case <-closeDone:
		tr.Add("Closed", "ok", true, "ts", e.now())
	default:
		tr.Add("Closed", "ok", false, "ts", e.now())
	}
	// drain whatever Close left parked (none expected)
	e.fastCons = true
	for _, it := range e.gate.Pending() {
		if it.Kind == "consume" {
			e.gate.Release(it, nil)
			continue
		}
		e.gate.Release(it, failOutcome(it))
	}
	regCancel()
	<-levDone
	if closed := func() bool {
		select {
		case <-closeDone:
			return true
		default:
			return false
		}
	}(); !closed {
		// Close is blocked for good; the bubble exit will report the deadlock
		tr.Flush()
		tr.Add("End", "ts", e.now())
		return tr.Events
	}
	_ = e.host.Close()
	synctest.Wait()
	tr.Flush()
	{
		left := sim.NewSince(base0, "verifharness")
		descs := []string{}
		for _, g := range left {
			descs = append(descs, g.Describe())
		}
		sort.Strings(descs)
		tr.Add("Left", "n", len(left), "what", descs, "ts", e.now())
	}
	tr.Add("End", "ts", e.now())
	return tr.Events
}

// warmUp completes n closest-peers lookups without logging, so that the
// network size estimator has data. With big=false every peer answers with
// every peer (the estimator sees a small network). With big=true the lookups
// find K fabricated peers that are extremely close to the warm-up keys, so the
// estimator believes in a huge network and the optimistic thresholds become
// tiny. The fabricated peers are removed from the routing table afterwards
// and connectedness is reset to the script.
func (e *lookupEnv) warmUp(t *testing.T, n int, big bool) {
	e.quiet = true
	all := make([]int, 0, e.sc.N)
	for i := 1; i <= e.sc.N; i++ {
		all = append(all, i)
	}
	var fabricated []peer.ID
	for i := 0; i < n; i++ {
		key := fmt.Sprintf("/v/warm-%d", i)
		var near []*pb.Message_Peer
		if big {
			for _, p := range nearPeers(key, e.sc.K) {
				near = append(near, &pb.Message_Peer{Id: []byte(p), Addrs: [][]byte{addrOf(0).Bytes()}})
				fabricated = append(fabricated, p)
			}
		}
		done := make(chan struct{})
		go func() {
			defer close(done)
			_, _ = e.d.GetClosestPeers(context.Background(), key)
		}()
		for {
			synctest.Wait()
			items := e.gate.Pending()
			if len(items) == 0 {
				break
			}
			for _, it := range items {
				if it.Kind == "dial" {
					e.gate.Release(it, nil)
					continue
				}
				rpc := it.Payload.(*sim.RPC)
				closer := e.pbPeers(all, nil)
				if big {
					closer = near
				}
				e.gate.Release(it, sim.RPCOutcome{Resp: &pb.Message{Type: rpc.Msg.GetType(), Key: rpc.Msg.GetKey(), CloserPeers: closer}})
			}
		}
		<-done
	}
	for _, p := range fabricated {
		e.d.RoutingTable().RemovePeer(p)
		e.host.Net().SetConnected(p, false)
	}
	for i := range e.sc.Scripts {
		e.host.Net().SetConnected(e.u.P(i+1), e.sc.Scripts[i].Conn)
	}
	synctest.Wait()
	e.quiet = false
}

var nearCache = map[string][]peer.ID{}

// nearPeers returns k peer ids whose Kademlia ids share at least 16 leading
// bits with the Kademlia id of key (found by search, cached per process).
func nearPeers(key string, k int) []peer.ID {
	ck := fmt.Sprintf("%s/%d", key, k)
	if v, ok := nearCache[ck]; ok {
		return v
	}
	target := sim.KadID([]byte(key))
	var out []peer.ID
	buf := make([]byte, 34)
	buf[0], buf[1] = 0x12, 0x20 // sha2-256 multihash header
	for ctr := uint64(0); len(out) < k; ctr++ {
		for j := 0; j < 8; j++ {
			buf[2+j] = byte(ctr >> (8 * j))
		}
		copy(buf[10:], key)
		id := sim.KadID(buf)
		if id[0] == target[0] && id[1] == target[1] {
			out = append(out, peer.ID(append([]byte(nil), buf...)))
		}
	}
	nearCache[ck] = out
	return out
}

func failOutcome(it *sim.Parked) any {
	if it.Kind == "consume" {
		return nil
	}
	if it.Kind == "dial" {
		return fmt.Errorf("sim: shutdown")
	}
	return sim.RPCOutcome{Err: fmt.Errorf("sim: shutdown")}
}

func (e *lookupEnv) kadRank(p *dht.PeerKadID) int {
	if p == nil {
		return -1
	}
	return e.u.Rank(p.Peer)
}

func (e *lookupEnv) kadRanks(ps []*dht.PeerKadID) []int {
	out := make([]int, 0, len(ps))
	for _, p := range ps {
		out = append(out, e.u.Rank(p.Peer))
	}
	return out
}

func firstRank(e *lookupEnv, ps []*dht.PeerKadID) int {
	if len(ps) == 0 {
		return -1
	}
	return e.u.Rank(ps[0].Peer)
}

// runOp performs the scenario's operation and logs its result.
func (e *lookupEnv) runOp(ctx context.Context) {
	tr, d, sc := e.tr, e.d, e.sc
	switch sc.Op {
	case "gcp":
		peers, err := d.GetClosestPeers(ctx, e.key)
		tr.AddBuf(3, "", "Return", "peers", e.u.Ranks(peers), "err", errClass(err), "ts", e.now())
	case "findpeer":
		ai, err := d.FindPeer(ctx, peer.ID(e.key))
		tr.AddBuf(3, "", "Return", "peers", e.u.Ranks(nonEmpty(ai.ID)), "naddrs", len(ai.Addrs), "err", errClass(err), "ts", e.now())
	case "getvalue":
		opts := []routing.Option{}
		if sc.Quorum >= 0 {
			opts = append(opts, dht.Quorum(sc.Quorum))
		}
		v, err := d.GetValue(ctx, e.key, opts...)
		okv, rkv := valRank(v)
		tr.AddBuf(3, "", "Return", "val", string(v), "valid", okv, "rank", rkv, "err", errClass(err), "ts", e.now())
	case "searchvalue":
		opts := []routing.Option{}
		if sc.Quorum >= 0 {
			opts = append(opts, dht.Quorum(sc.Quorum))
		}
		ch, err := d.SearchValue(ctx, e.key, opts...)
		if err != nil {
			tr.AddBuf(3, "", "Return", "val", "", "valid", false, "rank", -1, "err", errClass(err), "ts", e.now())
			return
		}
		last := ""
		for {
			e.consumeTurn()
			v, ok := <-ch
			if !ok {
				break
			}
			last = string(v)
			ok, rk := valRank(v)
			tr.AddBuf(3, "", "Emit", "val", string(v), "p", -1, "naddrs", 0, "valid", ok, "rank", rk, "ts", e.now())
		}
		tr.AddBuf(3, "", "ChanClosed", "ts", e.now())
		okl, rkl := valRank([]byte(last))
		tr.AddBuf(3, "", "Return", "val", last, "valid", okl, "rank", rkl, "err", errClass(ctx.Err()), "ts", e.now())
	case "findprov":
		ch := d.FindProvidersAsync(ctx, e.cid, sc.Count)
		got := []int{}
		for {
			e.consumeTurn()
			ai, ok := <-ch
			if !ok {
				break
			}
			got = append(got, e.u.Rank(ai.ID))
			tr.AddBuf(3, "", "Emit", "val", "", "p", e.u.Rank(ai.ID), "naddrs", len(ai.Addrs), "valid", false, "rank", -1, "ts", e.now())
		}
		tr.AddBuf(3, "", "ChanClosed", "ts", e.now())
		tr.AddBuf(3, "", "Return", "peers", got, "err", errClass(ctx.Err()), "ts", e.now())
	case "getpubkey":
		pk, err := d.GetPublicKey(ctx, e.target)
		match := false
		if pk != nil {
			id, ierr := peer.IDFromPublicKey(pk)
			match = ierr == nil && id == e.target
		}
		tr.AddBuf(3, "", "Return", "val", "", "valid", match, "rank", 0, "match", match, "haskey", pk != nil, "err", errClass(err), "ts", e.now())
	case "putvalue":
		err := d.PutValue(ctx, e.key, []byte(sc.PutVal))
		tr.AddBuf(3, "", "Return", "err", errClass(err), "localval", e.localValue(), "ts", e.now())
	case "provide":
		err := d.Provide(ctx, e.cid, true)
		selfLocal := false
		if ps, perr := d.ProviderStore().GetProviders(context.Background(), []byte(e.key)); perr == nil {
			for _, ai := range ps {
				if ai.ID == e.u.Self {
					selfLocal = true
				}
			}
		}
		tr.AddBuf(3, "", "Return", "err", errClass(err), "selflocal", selfLocal, "ts", e.now())
	default:
		panic("unknown op " + sc.Op)
	}
}

// consumeTurn makes the consumer of a result channel wait for the scheduler
// before every receive (slow consumer scenarios).
func (e *lookupEnv) consumeTurn() {
	if e.sc.SlowCons && !e.fastCons {
		_, _ = e.gate.Park(nil, "consume", "zzzz/consume", nil)
	}
}

func nonEmpty(p peer.ID) []peer.ID {
	if p == "" {
		return nil
	}
	return []peer.ID{p}
}

func sortedCopy(x []int) []int {
	y := append([]int{}, x...)
	sort.Ints(y)
	return y
}
