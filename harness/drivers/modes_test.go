package drivers

import (
	"context"
	"runtime"
	"encoding/json"
	"fmt"
	"math/rand"
	"sync"
	"testing"
	"testing/synctest"
	"time"

	ds "github.com/ipfs/go-datastore"
	dssync "github.com/ipfs/go-datastore/sync"
	dht "github.com/libp2p/go-libp2p-kad-dht"
	pb "github.com/libp2p/go-libp2p-kad-dht/pb"
	"github.com/libp2p/go-libp2p/core/event"
	"github.com/libp2p/go-libp2p/core/host"
	"github.com/libp2p/go-libp2p/core/network"
	"github.com/libp2p/go-libp2p/core/peer"
	"github.com/libp2p/go-libp2p/core/protocol"
	ma "github.com/multiformats/go-multiaddr"

	"verifharness/sim"
)

// ---------------------------------------------------------------------------
// C13: client/server mode. A real DHT node receives reachability events over
// the host's event bus and inbound streams delivered the way a libp2p host
// does it (handler lookup, then protocol set + handler invoked), while the
// steps the library takes towards the host (handler registration/removal,
// stream resets) and towards the datastore are parked at a gate; the chooser
// decides the interleaving.
// ---------------------------------------------------------------------------

type ModeStep struct {
	Kind   string `json:"kind"` // emit | lookup | invoke | req | settle
	Reach  string `json:"reach,omitempty"`
	Stream int    `json:"stream,omitempty"`
	Typ    string `json:"typ,omitempty"` // PING | FIND_NODE | GET_VALUE
	// lookup: the stream arrives over a connection this node dialed itself
	OutConn bool `json:"outconn,omitempty"`
}

type ModeScenario struct {
	Seed  int64      `json:"seed"`
	Cfg   string     `json:"cfg"` // auto | autoserver | client | server
	Gates bool       `json:"gates"` // park the library's steps towards host and datastore
	Steps []ModeStep `json:"steps"`
}

const modeProto = protocol.ID("/verifmode/kad/1.0.0")

type modeStream struct {
	s       *sim.FakeStream
	hd      network.StreamHandler
	invoked bool
	nreq    int
}

func runMode(t *testing.T, sc *ModeScenario, ch sim.Chooser) (evs []sim.Ev) {
	dl := runBubble(t, func(t *testing.T) { evs = runModeInBubble(t, sc, ch) })
	if dl != "" {
		evs = append(evs, sim.Ev{"e": "Stuck", "what": "deadlock"}, sim.Ev{"e": "End"})
	}
	return evs
}

func runModeInBubble(t *testing.T, sc *ModeScenario, ch sim.Chooser) []sim.Ev {
	r := rand.New(rand.NewSource(sc.Seed))
	tr := &sim.Trace{}
	var trMu sync.Mutex
	add := func(e string, kv ...any) {
		trMu.Lock()
		tr.Add(e, kv...)
		trMu.Unlock()
	}
	self := sim.NewPeerID(r)
	remotes := []peer.ID{}
	for i := 0; i < 4; i++ {
		remotes = append(remotes, sim.NewPeerID(r))
	}
	h := sim.NewFakeHost(self, []ma.Multiaddr{sim.DefaultAddr(0)})
	h.Dial = func(ctx context.Context, p peer.ID) error { return fmt.Errorf("sim: no network") }
	gate := &sim.Gate{}
	gate.OnPark = func(it *sim.Parked) { add("Park", "what", it.Label) }
	streams := map[int]*modeStream{}
	var smu sync.Mutex
	idOf := func(s *sim.FakeStream) int { return s.Tag }
	started := false // the hooks are silent while the node is being constructed
	h.HandlerHook = func(op string, pid protocol.ID) {
		if !started {
			return
		}
		// the mode variable has been changed; this is where the switch becomes visible
		add("Switch", "to", map[string]string{"set": "server", "remove": "client"}[op])
		if sc.Gates {
			_, _ = gate.Park(nil, "handlers", "0/handlers/"+op, nil)
		}
	}
	h.StreamHook = func(s *sim.FakeStream, what string) {
		if !started || s.Tag == 0 {
			return
		}
		switch what {
		case "reset":
			if sc.Gates {
				_, _ = gate.Park(nil, "reset", fmt.Sprintf("1/reset/%d", idOf(s)), nil)
			}
			add("LocalReset", "s", idOf(s))
		case "write":
			msgs, _ := sim.Unframe(s.PeekWritten())
			add("Wrote", "s", idOf(s), "n", len(msgs))
		}
	}
	actors := sim.NewActors()
	valDS := &sim.GateDS{Inner: dssync.MutexWrap(ds.NewMapDatastore())}
	if sc.Gates {
		valDS.G = gate
		valDS.ActorOf = func() string {
			if started && sim.OwnStackHas("handleGetValue") {
				return "2/handler"
			}
			return ""
		}
	}
	mode := map[string]dht.ModeOpt{"auto": dht.ModeAuto, "autoserver": dht.ModeAutoServer, "client": dht.ModeClient, "server": dht.ModeServer}[sc.Cfg]
	d, err := dht.New(h, dht.ProtocolPrefix("/verifmode"), dht.BucketSize(3), dht.DisableAutoRefresh(), dht.Mode(mode),
		dht.Validator(simValidator{}), dht.Datastore(valDS),
		dht.WithCustomMessageSender(func(host.Host, []protocol.ID) pb.MessageSenderWithDisconnect {
			return &sim.GatedSender{G: &sim.Gate{}}
		}))
	if err != nil {
		t.Fatalf("dht.New: %v", err)
	}
	em, err := h.EventBus().Emitter(new(event.EvtLocalReachabilityChanged))
	if err != nil {
		t.Fatal(err)
	}
	synctest.Wait()
	started = true
	add("Reset", "cfg", sc.Cfg, "gates", sc.Gates, "handlers", h.Handler(modeProto) != nil, "ts", 0)

	reqBytes := func(typ string) []byte {
		switch typ {
		case "FIND_NODE":
			return sim.FrameMsg(&pb.Message{Type: pb.Message_FIND_NODE, Key: []byte(remotes[3])})
		case "GET_VALUE":
			return sim.FrameMsg(&pb.Message{Type: pb.Message_GET_VALUE, Key: []byte("/v/modes")})
		default:
			return sim.FrameMsg(&pb.Message{Type: pb.Message_PING})
		}
	}
	// synctest.Wait does not return while a goroutine waits for a mutex, which happens when a parked
	// switch holds the mode lock; with gates the goroutine-state probe is used instead
	settle := func() bool {
		if sc.Gates {
			return sim.SettleBubble()
		}
		synctest.Wait()
		return true
	}
	observe := func(kind string) {
		smu.Lock()
		defer smu.Unlock()
		sts := []any{}
		for id := 1; id <= 8; id++ {
			ms := streams[id]
			if ms == nil {
				continue
			}
			msgs, _ := sim.Unframe(ms.s.PeekWritten())
			sts = append(sts, map[string]any{"s": id, "invoked": ms.invoked, "finished": ms.s.Finished() || ms.s.IsReset(),
				"nreq": ms.nreq, "nresp": len(msgs)})
		}
		add(kind, "handlers", h.Handler(modeProto) != nil, "streams", sts, "parked", gate.Len())
	}
	doStep := func(st ModeStep) {
		switch st.Kind {
		case "emit":
			rc := map[string]network.Reachability{"public": network.ReachabilityPublic, "private": network.ReachabilityPrivate,
				"unknown": network.ReachabilityUnknown}[st.Reach]
			add("Emit", "reach", st.Reach)
			_ = em.Emit(event.EvtLocalReachabilityChanged{Reachability: rc})
		case "lookup":
			if streams[st.Stream] != nil {
				return
			}
			hd := h.Handler(modeProto)
			if hd == nil {
				add("Lookup", "s", st.Stream, "accepted", false)
				return
			}
			// the stream exists on the connection; its protocol is set only just before the handler runs
			rp := remotes[st.Stream%3]
			if len(h.Net().ConnsToPeer(rp)) == 0 {
				dir := network.DirInbound
				if st.OutConn {
					dir = network.DirOutbound
				}
				h.Net().AddConn(rp, sim.DefaultAddr(20+st.Stream), dir)
			}
			s := h.InboundStream(rp, sim.DefaultAddr(20+st.Stream), "")
			s.Tag = st.Stream
			smu.Lock()
			streams[st.Stream] = &modeStream{s: s, hd: hd}
			smu.Unlock()
			add("Lookup", "s", st.Stream, "accepted", true)
		case "invoke":
			ms := streams[st.Stream]
			if ms == nil || ms.invoked {
				return
			}
			ms.invoked = true
			_ = ms.s.SetProtocol(modeProto)
			add("Invoke", "s", st.Stream)
			actors.Go(fmt.Sprintf("handler%d", st.Stream), func() { ms.hd(ms.s) })
		case "req":
			ms := streams[st.Stream]
			if ms == nil || ms.s.IsReset() || ms.s.Finished() {
				return
			}
			ms.nreq++
			add("Req", "s", st.Stream, "n", ms.nreq, "typ", st.Typ)
			ms.s.RemoteWrite(reqBytes(st.Typ))
		case "settle":
			// everything that is parked is let go, in an order the chooser picks
			quiet := 0
			for {
				if !settle() {
					add("Stuck", "what", "no quiescence")
					return
				}
				p := gate.Pending()
				if len(p) == 0 {
					// look twice: the goroutine-state probe is the only evidence of quiescence
					quiet++
					if quiet >= 2 || !sc.Gates {
						break
					}
					for i := 0; i < 50; i++ {
						runtime.Gosched()
					}
					continue
				}
				quiet = 0
				it := p[ch.Choose(len(p))]
				add("Release", "what", it.Label)
				gate.Release(it, nil)
			}
			observe("Settle")
		}
	}
	next := 0
	for next < len(sc.Steps) {
		if !settle() {
			add("Stuck", "what", "no quiescence")
			break
		}
		p := gate.Pending()
		// either the next harness step or the release of one parked library step
		k := ch.Choose(1 + len(p))
		if k == 0 {
			doStep(sc.Steps[next])
			next++
		} else {
			add("Release", "what", p[k-1].Label)
			gate.Release(p[k-1], nil)
		}
	}
	doStep(ModeStep{Kind: "settle"})
	// the remote ends go away, the node closes
	smu.Lock()
	for _, ms := range streams {
		ms.s.RemoteReset()
	}
	smu.Unlock()
	started = false
	closed := make(chan struct{})
	go func() { _ = d.Close(); close(closed) }()
	for i := 0; i < 1000; i++ {
		select {
		case <-closed:
			i = 1000
		default:
			settle()
			for _, it := range gate.Pending() {
				gate.Release(it, nil)
			}
			time.Sleep(time.Millisecond)
		}
	}
	_ = em.Close()
	_ = h.Close()
	synctest.Wait()
	add("End")
	return tr.Events
}

func genModeScenario(r *rand.Rand) *ModeScenario {
	sc := &ModeScenario{Seed: r.Int63(), Cfg: []string{"auto", "auto", "autoserver", "autoserver", "client", "server"}[r.Intn(6)], Gates: r.Intn(3) != 0}
	n := 6 + r.Intn(14)
	nstreams := 1 + r.Intn(4)
	for i := 0; i < n; i++ {
		switch x := r.Intn(20); {
		case x < 4:
			sc.Steps = append(sc.Steps, ModeStep{Kind: "emit", Reach: []string{"public", "private", "unknown"}[r.Intn(3)]})
		case x < 8:
			sc.Steps = append(sc.Steps, ModeStep{Kind: "lookup", Stream: 1 + r.Intn(nstreams), OutConn: r.Intn(3) == 0})
		case x < 11:
			sc.Steps = append(sc.Steps, ModeStep{Kind: "invoke", Stream: 1 + r.Intn(nstreams)})
		case x < 17:
			sc.Steps = append(sc.Steps, ModeStep{Kind: "req", Stream: 1 + r.Intn(nstreams), Typ: []string{"PING", "FIND_NODE", "GET_VALUE"}[r.Intn(3)]})
		default:
			sc.Steps = append(sc.Steps, ModeStep{Kind: "settle"})
		}
	}
	return sc
}

// modeSystematic lists small scenarios whose whole choice tree is explored.
func modeSystematic() []*ModeScenario {
	out := []*ModeScenario{}
	for _, cfg := range []string{"auto", "autoserver"} {
		for _, first := range []string{"public", "private", "unknown"} {
			for _, second := range []string{"public", "private", "unknown"} {
				// a stream that is being served when reachability changes, one that was looked up before
				// the change and is invoked afterwards, and one opened afterwards
				out = append(out, &ModeScenario{Seed: 7, Cfg: cfg, Gates: true, Steps: []ModeStep{
					{Kind: "emit", Reach: first}, {Kind: "settle"},
					{Kind: "lookup", Stream: 1}, {Kind: "invoke", Stream: 1}, {Kind: "req", Stream: 1, Typ: "GET_VALUE"},
					{Kind: "lookup", Stream: 2, OutConn: true},
					{Kind: "emit", Reach: second},
					{Kind: "req", Stream: 1, Typ: "PING"},
					{Kind: "invoke", Stream: 2}, {Kind: "req", Stream: 2, Typ: "PING"},
					{Kind: "lookup", Stream: 3}, {Kind: "invoke", Stream: 3}, {Kind: "req", Stream: 3, Typ: "FIND_NODE"},
				}})
			}
		}
	}
	return out
}

func TestModesChild(t *testing.T) {
	childMain(t, func(idx int, raw json.RawMessage, progress func(any)) any {
		var j schedJob
		var sc ModeScenario
		if err := json.Unmarshal(raw, &j); err != nil {
			t.Fatal(err)
		}
		if err := json.Unmarshal(j.Sc, &sc); err != nil {
			t.Fatal(err)
		}
		return runSchedJob(&j, progress, func(ch sim.Chooser) []sim.Ev { return runMode(t, &sc, ch) })
	})
}

func modeCrashRun(sc *ModeScenario, output string, stalled bool) []sim.Ev {
	what := "crashed: " + crashLine(output)
	if stalled {
		what = "no progress in real time"
	}
	init := sc.Cfg == "autoserver" || sc.Cfg == "server"
	return []sim.Ev{{"e": "Reset", "cfg": sc.Cfg, "gates": sc.Gates, "handlers": init, "ts": 0}, {"e": "Stuck", "what": what}, {"e": "End"}}
}

func TestModes(t *testing.T) {
	e := getEnv(t)
	rec := newRecorder(t, e, "modes", "one run per (configured mode, sequence of reachability events / stream deliveries / requests, schedule of the library's parked steps); systematic scenarios are explored over their whole choice tree (bounded), random ones under seeded schedules; distinct by event sequence")
	defer rec.Close(t, e)
	jobs := []*schedJob{}
	scs := []*ModeScenario{}
	addJob := func(sc *ModeScenario, j *schedJob) {
		j.Sc, _ = json.Marshal(sc)
		jobs = append(jobs, j)
		scs = append(scs, sc)
	}
	if e.Replay != "" {
		var wrap struct {
			Replay struct {
				Scenario *ModeScenario `json:"scenario"`
				Choices  []int         `json:"choices"`
				Seed     int64         `json:"seed"`
			} `json:"replay"`
		}
		if err := readJSON(e.Replay, &wrap); err != nil {
			t.Fatal(err)
		}
		addJob(wrap.Replay.Scenario, &schedJob{Replay: true, Choices: wrap.Replay.Choices, Seed: wrap.Replay.Seed})
	} else {
		r := rand.New(rand.NewSource(e.Seed))
		perTree, nrand := 60, 1500
		if e.Tier == "thorough" {
			perTree, nrand = 1500, 30000
		}
		if e.Budget > 0 {
			nrand = e.Budget
		}
		for _, sc := range modeSystematic() {
			addJob(sc, &schedJob{Tree: true, PerTree: perTree})
		}
		for i := 0; i < nrand; i++ {
			addJob(genModeScenario(r), &schedJob{Seed: 1 + r.Int63()})
		}
	}
	crashed := map[int]map[string]any{}
	var cmu sync.Mutex
	results := runChildren(t, e, "TestModesChild", jobs, len(jobs), 12, func(idx int, info json.RawMessage, output string, stalled bool) any {
		cmu.Lock()
		crashed[idx] = schedReplayOf(scs[idx], info)
		cmu.Unlock()
		return []schedResult{{Evs: modeCrashRun(scs[idx], output, stalled)}}
	})
	for i, raw := range results {
		var out []schedResult
		if raw == nil || json.Unmarshal(raw, &out) != nil {
			rec.Count("skipped_after_stalls", 1)
			continue
		}
		for _, o := range out {
			rp := map[string]any{"scenario": scs[i], "choices": o.Choices}
			if c := crashed[i]; c != nil {
				rp = c
			}
			rec.Record(o.Evs, rp, true)
			if jobs[i].Tree {
				rec.Count("systematic", 1)
				if o.Exhausted {
					rec.Count("trees_exhausted", 1)
				}
			} else {
				rec.Count("random/"+scs[i].Cfg, 1)
			}
		}
	}
}
