package drivers

import (
	"context"
	"fmt"
	"math/rand"
	"sort"
	"strings"
	"testing"
	"testing/synctest"
	"time"

	lru "github.com/hashicorp/golang-lru/simplelru"
	ds "github.com/ipfs/go-datastore"
	dssync "github.com/ipfs/go-datastore/sync"
	"github.com/libp2p/go-libp2p-kad-dht/records"
	"github.com/libp2p/go-libp2p/core/peer"
	"github.com/libp2p/go-libp2p/p2p/host/peerstore/pstoremem"

	"verifharness/sim"
)

// PSOp is one step of a provider-store history.
type PSOp struct {
	Kind string `json:"kind"` // add | get | tick | restart | close
	K    int    `json:"k"`
	P    int    `json:"p"`
	Secs int    `json:"secs"`
	Sub  []PSOp `json:"sub"` // conc: operations run concurrently, their datastore accesses interleaved
}

// PSScenario is a history on one provider store; the scheduler interleaves the
// datastore accesses of the background GC with the foreground operations.
type PSScenario struct {
	Seed     int64  `json:"seed"`
	NK       int    `json:"nk"`
	NP       int    `json:"np"`
	CacheCap int    `json:"cachecap"`
	Validity int    `json:"validity"` // seconds
	Cleanup  int    `json:"cleanup"`  // seconds
	Ops      []PSOp `json:"ops"`
}

func runPS(t *testing.T, sc *PSScenario, ch sim.Chooser) (evs []sim.Ev) {
	dl := runBubble(t, func(t *testing.T) { evs = runPSInBubble(t, sc, ch) })
	if dl != "" {
		end := evs[len(evs)-1]
		evs = append(evs[:len(evs)-1], sim.Ev{"e": "Stuck", "msg": dl, "ts": end["ts"]}, end)
	}
	return evs
}

func runPSInBubble(t *testing.T, sc *PSScenario, ch sim.Chooser) []sim.Ev {
	r := rand.New(rand.NewSource(sc.Seed))
	tr := &sim.Trace{}
	start := time.Now()
	now := func() int { return int(time.Since(start) / time.Millisecond) }
	self := sim.NewPeerID(r)
	provs := make([]peer.ID, sc.NP)
	pnum := map[peer.ID]int{}
	for i := range provs {
		provs[i] = sim.NewPeerID(r)
		pnum[provs[i]] = i
	}
	keys := make([][]byte, sc.NK)
	for i := range keys {
		keys[i] = []byte(fmt.Sprintf("provkey-%d-%d", sc.Seed, i))
	}
	inner := dssync.MutexWrap(ds.NewMapDatastore())
	gate := &sim.Gate{}
	gds := &sim.GateDS{Inner: inner, G: gate}
	actors := sim.NewActors()
	gds.ActorOf = func() string {
		if n := actors.Name(); n != "" {
			return n
		}
		if sim.OwnStackHas("ProviderManager).gcLoop") {
			return "gc"
		}
		return ""
	}
	// datastore key -> (k, p), learned from the foreground writes
	type kp struct{ k, p int }
	known := map[string]kp{}
	var cur *kp // the (k,p) of the foreground add in progress
	curOf := map[string]*kp{} // per concurrent actor
	closedAt := -1
	gds.OnApply = func(op *sim.DSOp) {
		who := op.Actor
		if who == "" {
			who = "fg"
		}
		if op.Op == "put" && cur != nil {
			known[op.Key] = *cur
		}
		if op.Op == "put" && curOf[op.Actor] != nil {
			known[op.Key] = *curOf[op.Actor]
		}
		if who != "gc" {
			who = "fg"
		}
		x, ok := known[op.Key]
		if !ok {
			x = kp{-1, -1}
		}
		switch op.Op {
		case "put", "delete":
			tr.Add("DS", "actor", who, "op", op.Op, "k", x.k, "p", x.p, "afterclose", closedAt >= 0, "ts", now())
		case "query":
			tr.Add("DS", "actor", who, "op", "query", "k", -1, "p", -1, "afterclose", closedAt >= 0, "ts", now())
		default:
			if closedAt >= 0 {
				tr.Add("DS", "actor", who, "op", op.Op, "k", x.k, "p", x.p, "afterclose", true, "ts", now())
			}
		}
	}
	pstore, _ := pstoremem.NewPeerstore()
	defer pstore.Close()
	mk := func() *records.ProviderManager {
		cache, _ := lru.NewLRU(sc.CacheCap, nil)
		pm, err := records.NewProviderManager(self, pstore, gds,
			records.Cache(cache),
			records.ProvideValidity(time.Duration(sc.Validity)*time.Second),
			records.CleanupInterval(time.Duration(sc.Cleanup)*time.Second))
		if err != nil {
			t.Fatalf("NewProviderManager: %v", err)
		}
		return pm
	}
	pm := mk()
	tr.Add("Reset", "nk", sc.NK, "np", sc.NP, "cachecap", sc.CacheCap, "validity", sc.Validity*1000, "cleanup", sc.Cleanup*1000, "ts", 0)
	bg := context.Background()

	// let the scheduler run some (or none) of the GC's pending datastore accesses
	gcSteps := func() {
		for i := 0; i < 64; i++ {
			synctest.Wait()
			items := gate.Pending()
			if len(items) == 0 {
				return
			}
			if ch.Choose(2) == 0 {
				return // leave the sweeper parked where it is
			}
			gate.Release(items[0], nil)
		}
	}
	drainGC := func() {
		for i := 0; i < 100000; i++ {
			synctest.Wait()
			items := gate.Pending()
			if len(items) == 0 {
				return
			}
			gate.Release(items[0], nil)
		}
	}
	closed := false
	for _, op := range sc.Ops {
		gcSteps()
		switch op.Kind {
		case "add":
			c := kp{op.K, op.P}
			cur = &c
			err := pm.AddProvider(bg, keys[op.K], peer.AddrInfo{ID: provs[op.P]})
			cur = nil
			tr.Add("Add", "k", op.K, "p", op.P, "err", errStr(err), "closed", closed, "ts", now())
		case "get":
			res, err := pm.GetProviders(bg, keys[op.K])
			out := []int{}
			for _, ai := range res {
				if n, ok := pnum[ai.ID]; ok {
					out = append(out, n)
				} else {
					out = append(out, -1)
				}
			}
			sort.Ints(out)
			tr.Add("Get", "k", op.K, "provs", out, "err", errStr(err), "closed", closed, "ts", now())
		case "conc":
			// foreground operations running concurrently: every datastore access of
			// theirs (and of the GC) is a scheduling point
			isGC := func(g sim.GInfo) bool {
				for _, f := range g.Frames {
					if strings.Contains(f, "ProviderManager).gcLoop") {
						return true
					}
				}
				return false
			}
			for i, so := range op.Sub {
				so := so
				name := fmt.Sprintf("c%d", i)
				switch so.Kind {
				case "add":
					tr.Add("AddStart", "k", so.K, "p", so.P, "ts", now())
					c := kp{so.K, so.P}
					curOf[name] = &c
					closedAtStart := closed
					actors.Go(name, func() {
						err := pm.AddProvider(bg, keys[so.K], peer.AddrInfo{ID: provs[so.P]})
						if err == records.ErrClosed && !closedAtStart {
							// overlapped a concurrent Close: being refused is fine, and so is succeeding
							tr.Add("AddRefused", "k", so.K, "p", so.P, "ts", now())
							return
						}
						tr.Add("Add", "k", so.K, "p", so.P, "err", errStr(err), "closed", closedAtStart, "ts", now())
					})
				case "get":
					tr.Add("GetStart", "k", so.K, "ts", now())
					closedAtStart := closed
					actors.Go(name, func() {
						res, err := pm.GetProviders(bg, keys[so.K])
						if err == records.ErrClosed && !closedAtStart {
							return
						}
						out := []int{}
						for _, ai := range res {
							out = append(out, pnum[ai.ID])
						}
						sort.Ints(out)
						tr.Add("Get", "k", so.K, "provs", out, "err", errStr(err), "closed", closedAtStart, "ts", now())
					})
				case "close":
					if closed {
						continue
					}
					actors.Go(name, func() {
						_ = pm.Close()
						closed = true
						closedAt = now()
						tr.Add("Close", "ts", now())
					})
				}
			}
			for steps := 0; steps < 10000; steps++ {
				actors.Settle(isGC)
				items := gate.Pending()
				if len(items) == 0 {
					if !actors.AnyAlive() {
						break
					}
					continue
				}
				gate.Release(items[ch.Choose(len(items))], nil)
			}
			tr.Add("ConcEnd", "ts", now())
			for k := range curOf {
				delete(curOf, k)
			}
		case "tick":
			// time passes; a GC tick may fire and park the sweeper at its first access
			time.Sleep(time.Duration(op.Secs) * time.Second)
			synctest.Wait()
			tr.Add("Tick", "ts", now())
		case "restart":
			if closed {
				continue
			}
			done := make(chan struct{})
			go func() { defer close(done); _ = pm.Close() }()
			drainGC()
			<-done
			tr.Add("Restart", "ts", now())
			pm = mk()
		case "close":
			if closed {
				continue
			}
			done := make(chan struct{})
			go func() { defer close(done); _ = pm.Close() }()
			drainGC()
			<-done
			closed = true
			closedAt = now()
			tr.Add("Close", "ts", now())
		}
	}
	if !closed {
		done := make(chan struct{})
		go func() { defer close(done); _ = pm.Close() }()
		drainGC()
		<-done
		closedAt = now()
		tr.Add("Close", "ts", now())
	}
	// nothing may touch the datastore any more
	time.Sleep(time.Duration(2*sc.Cleanup+1) * time.Second)
	synctest.Wait()
	drainGC()
	tr.Add("End", "ts", now())
	return tr.Events
}

func errStr(err error) string {
	switch {
	case err == nil:
		return ""
	case err == records.ErrClosed:
		return "closed"
	default:
		return "other"
	}
}

func genPSScenario(r *rand.Rand, long bool) *PSScenario {
	sc := &PSScenario{Seed: r.Int63(), NK: 3, NP: 2, CacheCap: 1 + r.Intn(2), Validity: 7200, Cleanup: 3600}
	n := 4 + r.Intn(4)
	if long {
		n = 20 + r.Intn(60)
		sc.NK = 3 + r.Intn(4)
		sc.NP = 2 + r.Intn(3)
		sc.CacheCap = 1 + r.Intn(3)
	}
	for i := 0; i < n; i++ {
		k, p := r.Intn(sc.NK), r.Intn(sc.NP)
		switch r.Intn(10) {
		case 0, 1, 2:
			sc.Ops = append(sc.Ops, PSOp{Kind: "add", K: k, P: p})
		case 3, 4, 5:
			sc.Ops = append(sc.Ops, PSOp{Kind: "get", K: k})
		case 6, 7:
			sc.Ops = append(sc.Ops, PSOp{Kind: "tick", Secs: []int{1, 1800, 3600, 3601, 7199, 7200, 7201, 9000}[r.Intn(8)]})
		case 8:
			if r.Intn(2) == 0 {
				sc.Ops = append(sc.Ops, PSOp{Kind: "restart"})
			} else {
				a := PSOp{Kind: "add", K: k, P: p}
				b := PSOp{Kind: "get", K: k}
				switch r.Intn(4) {
				case 0:
					b = PSOp{Kind: "add", K: k, P: r.Intn(sc.NP)}
				case 1:
					b = PSOp{Kind: "close"}
				}
				sc.Ops = append(sc.Ops, PSOp{Kind: "conc", Sub: []PSOp{a, b}}, PSOp{Kind: "get", K: k})
			}
		case 9:
			if r.Intn(3) == 0 {
				sc.Ops = append(sc.Ops, PSOp{Kind: "close"})
			} else {
				sc.Ops = append(sc.Ops, PSOp{Kind: "get", K: k})
			}
		}
	}
	return sc
}

type psReplay struct {
	Scenario *PSScenario `json:"scenario"`
	Choices  []int       `json:"choices"`
}

func TestProviderStore(t *testing.T) {
	e := getEnv(t)
	rec := newRecorder(t, e, "provider-store", "trace = history (add/get/tick/restart/close) x placement of the background GC's datastore accesses between foreground calls; non-trivial iff some provider expired or was swept during the run")
	defer rec.Close(t, e)
	nontriv := func(evs []sim.Ev) bool {
		for _, ev := range evs {
			if ev["e"] == "DS" && ev["op"] == "delete" {
				return true
			}
		}
		return false
	}
	if e.Replay != "" {
		var wrap struct {
			Replay psReplay `json:"replay"`
		}
		if err := readJSON(e.Replay, &wrap); err != nil {
			t.Fatal(err)
		}
		// Which of two goroutines waiting for the manager's mutex gets it is the runtime's choice, not the
		// schedule's: the recorded schedule is repeated a number of times (a breach counts if any repetition shows it)
		for i := 0; i < 24; i++ {
			ch := &sim.ReplayChooser{Seq: wrap.Replay.Choices}
			evs := runPS(t, wrap.Replay.Scenario, ch)
			rec.Record(evs, psReplay{wrap.Replay.Scenario, ch.Taken()}, nontriv(evs))
		}
		return
	}
	r := rand.New(rand.NewSource(e.Seed))
	nSmall, maxPer, nLong := 60, 40, 150
	if e.Tier == "thorough" {
		nSmall, maxPer, nLong = 600, 300, 3000
	}
	if e.Budget > 0 {
		nSmall, nLong = e.Budget, e.Budget
	}
	for i := 0; i < nSmall; i++ {
		sc := genPSScenario(r, false)
		dfs := &sim.DFS{}
		for n := 0; n < maxPer; n++ {
			evs := runPS(t, sc, dfs)
			rec.Record(evs, psReplay{sc, dfs.Taken()}, nontriv(evs))
			rec.Count("dfs_runs", 1)
			if !dfs.Next() {
				rec.Count("dfs_exhausted_scenarios", 1)
				break
			}
		}
	}
	for i := 0; i < nLong; i++ {
		sc := genPSScenario(r, true)
		ch := sim.NewRandomChooser(r.Int63())
		evs := runPS(t, sc, ch)
		rec.Record(evs, psReplay{sc, ch.Taken()}, nontriv(evs))
		rec.Count("random_runs", 1)
	}
}
