package drivers

import (
	"context"
	crand "crypto/rand"
	"errors"
	"fmt"
	"math/rand"
	"sort"
	"testing"
	"testing/synctest"
	"time"

	dht "github.com/libp2p/go-libp2p-kad-dht"
	pb "github.com/libp2p/go-libp2p-kad-dht/pb"
	"github.com/libp2p/go-libp2p/core/event"
	"github.com/libp2p/go-libp2p/core/host"
	"github.com/libp2p/go-libp2p/core/network"
	"github.com/libp2p/go-libp2p/core/peer"
	"github.com/libp2p/go-libp2p/core/protocol"
	ma "github.com/multiformats/go-multiaddr"

	"verifharness/sim"
)

// RTScenario drives routing-table membership (C12): a list of external events
// that the scheduler interleaves with the completion of pending dials / RPCs.
type RTScenario struct {
	Seed     int64     `json:"seed"`
	N        int       `json:"N"`
	K        int       `json:"K"`
	Alpha    int       `json:"alpha"`
	Seeded   []int     `json:"seeded"`   // peers put into the table before the run
	FilterNo []int     `json:"filterno"` // peers the routing-table filter rejects
	Closer   [][]int   `json:"closer"`   // closer peers each peer names
	Events   []RTEvent `json:"events"`
}

// RTEvent is one external event.
type RTEvent struct {
	Kind   string `json:"kind"` // identify | proto | kill | revive | empty | lookup (Secs > 0: with that deadline) | cancel | refresh | advance | close
	P      int    `json:"p"`
	Speaks bool   `json:"speaks"`
	Force  bool   `json:"force"`
	Secs   int    `json:"secs"`
}

const rtProto = protocol.ID("/verifrt/kad/1.0.0")

type rtEnv struct {
	lkCtx     context.Context // the context of the latest user lookup
	lkExpired bool            // its deadline has passed and that has been logged
	sc        *RTScenario
	ids       []peer.ID // index = peer number (0 = self)
	num       map[peer.ID]int
	host      *sim.FakeHost
	gate      *sim.Gate
	sender    *sim.GatedSender
	d         *dht.IpfsDHT
	tr        *sim.Trace
	start     time.Time
	dead      map[int]bool
	silent    map[int]bool
	empty     map[int]bool
	speaks    map[int]bool
	lkKey     string // key of the active user lookup ("" if none)
}

func (e *rtEnv) now() int { return int(time.Since(e.start) / time.Millisecond) }
func (e *rtEnv) n(p peer.ID) int {
	if v, ok := e.num[p]; ok {
		return v
	}
	return -1
}

func (e *rtEnv) rt() []int {
	out := []int{}
	for _, p := range e.d.RoutingTable().ListPeers() {
		out = append(out, e.n(p))
	}
	sort.Ints(out)
	return out
}

// classify a FIND_NODE by its key: probe (the peer's own id), user lookup, or refresh traffic
func (e *rtEnv) class(rpc *sim.RPC) string {
	k := string(rpc.Msg.GetKey())
	switch {
	case rpc.Msg.GetType() != pb.Message_FIND_NODE:
		return "other"
	case k == string(rpc.Peer):
		return "probe"
	case e.lkKey != "" && k == e.lkKey:
		return "lookup"
	default:
		return "refresh"
	}
}

func runRT(t *testing.T, sc *RTScenario, ch sim.Chooser) (evs []sim.Ev) {
	dl := runBubble(t, func(t *testing.T) { evs = runRTInBubble(t, sc, ch) })
	if dl != "" {
		end := evs[len(evs)-1]
		evs = append(evs[:len(evs)-1], sim.Ev{"e": "Stuck", "msg": dl, "ts": end["ts"]}, end)
	}
	return evs
}

func runRTInBubble(t *testing.T, sc *RTScenario, ch sim.Chooser) []sim.Ev {
	r := rand.New(rand.NewSource(sc.Seed))
	// the routing-table refresh draws its random targets from crypto/rand: make that stream a function of the
	// scenario so that a run can be repeated from its replay descriptor
	oldReader := crand.Reader
	crand.Reader = sim.SeededReader(sc.Seed ^ 0x5eed)
	defer func() { crand.Reader = oldReader }()
	e := &rtEnv{sc: sc, num: map[peer.ID]int{}, gate: &sim.Gate{}, tr: &sim.Trace{}, start: time.Now(),
		dead: map[int]bool{}, silent: map[int]bool{}, empty: map[int]bool{}, speaks: map[int]bool{}}
	for i := 0; i <= sc.N; i++ {
		id := sim.NewPeerID(r)
		e.ids = append(e.ids, id)
		e.num[id] = i
	}
	tr := e.tr
	e.host = sim.NewFakeHost(e.ids[0], []ma.Multiaddr{sim.DefaultAddr(0)})
	label := func(p peer.ID, kind, cls string) string { return fmt.Sprintf("%04d/%s/%s", e.n(p), kind, cls) }
	e.sender = &sim.GatedSender{G: e.gate, LabelOf: func(rpc *sim.RPC) string { return label(rpc.Peer, "req", e.class(rpc)) }}
	e.host.Dial = func(ctx context.Context, p peer.ID) error {
		v, err := e.gate.Park(ctx, "dial", label(p, "dial", ""), p)
		if err != nil {
			return err
		}
		if v == nil {
			return nil
		}
		return v.(error)
	}
	e.gate.OnPark = func(it *sim.Parked) {
		if it.Kind == "dial" {
			tr.AddBuf(1, it.Label, "Sent", "p", e.n(it.Payload.(peer.ID)), "kind", "dial", "cls", "", "speaks", false, "ts", e.now())
			return
		}
		rpc := it.Payload.(*sim.RPC)
		// member: the peer is in the routing table at the instant the request leaves (a probe to a member is a
		// liveness ping, a probe to a non-member an admission probe)
		member := e.d != nil && e.d.RoutingTable().Find(rpc.Peer) != ""
		tr.AddBuf(1, it.Label, "Sent", "p", e.n(rpc.Peer), "kind", "req", "cls", e.class(rpc), "speaks", e.speaks[e.n(rpc.Peer)], "member", member, "ts", e.now())
	}
	e.gate.OnAbort = func(it *sim.Parked) {
		why := "canceled"
		if it.Ctx != nil && errors.Is(it.Ctx.Err(), context.DeadlineExceeded) {
			why = "deadline" // the operation's own timeout expired: the peer did not answer in time
			// ... unless it is the caller's deadline for the whole lookup that expired: the lookup ended the
			// request, which says nothing about the peer (same as a cancellation by the caller)
			if e.lkCtx != nil && errors.Is(e.lkCtx.Err(), context.DeadlineExceeded) && (it.Kind == "dial" || e.class(it.Payload.(*sim.RPC)) == "lookup") {
				why = "canceled"
			}
		}
		if it.Kind == "dial" {
			tr.AddBuf(1, it.Label, "Abort", "p", e.n(it.Payload.(peer.ID)), "kind", "dial", "cls", "", "why", why, "ts", e.now())
			return
		}
		rpc := it.Payload.(*sim.RPC)
		tr.AddBuf(1, it.Label, "Abort", "p", e.n(rpc.Peer), "kind", "req", "cls", e.class(rpc), "why", why, "ts", e.now())
	}
	filterNo := map[peer.ID]bool{}
	for _, p := range sc.FilterNo {
		filterNo[e.ids[p]] = true
	}
	d, err := dht.New(e.host,
		dht.ProtocolPrefix("/verifrt"),
		dht.BucketSize(sc.K), dht.Concurrency(sc.Alpha), dht.Resiliency(1),
		dht.DisableAutoRefresh(), dht.Mode(dht.ModeClient),
		dht.RoutingTableRefreshPeriod(10*time.Minute),
		dht.RoutingTableFilter(func(_ any, p peer.ID) bool { return !filterNo[p] }),
		dht.WithCustomMessageSender(func(h host.Host, _ []protocol.ID) pb.MessageSenderWithDisconnect { return e.sender }),
	)
	if err != nil {
		t.Fatalf("dht.New: %v", err)
	}
	e.d = d
	for _, p := range sc.Seeded {
		_, _ = d.RoutingTable().TryAddPeer(e.ids[p], true, false)
	}
	idEm, _ := e.host.EventBus().Emitter(new(event.EvtPeerIdentificationCompleted))
	prEm, _ := e.host.EventBus().Emitter(new(event.EvtPeerProtocolsUpdated))
	defer idEm.Close()
	defer prEm.Close()
	synctest.Wait()
	tr.Add("Reset", "N", sc.N, "K", sc.K, "filterno", sim.Ints(sc.FilterNo), "rt", e.rt(), "ts", 0)

	type lk struct {
		cancel context.CancelFunc
		done   chan struct{}
	}
	var active *lk
	var lkCount int
	type rf struct {
		id int
		ch <-chan error
	}
	var refreshes []rf
	refreshBusy := func() bool { return len(refreshes) > 0 }
	closed := false
	var closeDone chan struct{}
	next := 0

	pollRefreshes := func() {
		keep := refreshes[:0]
		for _, x := range refreshes {
			select {
			case err, ok := <-x.ch:
				es := ""
				if err != nil {
					es = "err"
				}
				tr.Add("RefreshAns", "id", x.id, "err", es, "closed", !ok, "ts", e.now())
			default:
				keep = append(keep, x)
			}
		}
		refreshes = keep
	}

	applyExt := func(ev RTEvent) {
		kv := []any{"kind", ev.Kind, "p", ev.P, "speaks", ev.Speaks, "ts", e.now()}
		switch ev.Kind {
		case "identify", "proto":
			p := e.ids[ev.P]
			e.speaks[ev.P] = ev.Speaks
			if ev.Speaks {
				_ = e.host.Peerstore().SetProtocols(p, rtProto)
			} else {
				_ = e.host.Peerstore().SetProtocols(p)
			}
			e.host.Net().SetConnected(p, true)
			tr.Add("Ext", kv...)
			if ev.Kind == "identify" {
				_ = idEm.Emit(event.EvtPeerIdentificationCompleted{Peer: p})
			} else {
				_ = prEm.Emit(event.EvtPeerProtocolsUpdated{Peer: p})
			}
		case "kill":
			e.dead[ev.P] = true
			e.host.Net().SetConnected(e.ids[ev.P], false)
			tr.Add("Ext", kv...)
		case "revive":
			e.dead[ev.P] = false
			e.silent[ev.P] = false
			tr.Add("Ext", kv...)
		case "silence":
			e.silent[ev.P] = true
			e.host.Net().SetConnected(e.ids[ev.P], false)
			tr.Add("Ext", kv...)
		case "empty":
			e.empty[ev.P] = ev.Speaks
			tr.Add("Ext", kv...)
		case "lookup":
			if active != nil || refreshBusy() || closed {
				return
			}
			lkCount++
			id := lkCount
			e.lkKey = fmt.Sprintf("/v/rtkey-%d-%d", sc.Seed, id)
			regCtx, cancel := context.WithCancel(context.Background())
			lctx, lev := dht.RegisterForLookupEvents(regCtx)
			opCtx, opCancel := context.WithCancel(lctx)
			if ev.Secs > 0 {
				// the caller gives the lookup a deadline (odd, so that it never coincides with a request's own timeout)
				opCtx, opCancel = context.WithTimeout(lctx, time.Duration(ev.Secs)*time.Second+137*time.Millisecond)
			}
			e.lkCtx, e.lkExpired = opCtx, false
			a := &lk{cancel: opCancel, done: make(chan struct{})}
			active = a
			tr.Add("Ext", append(kv, "lk", id)...)
			go func() {
				for le := range lev {
					if le.Terminate != nil {
						tr.AddBuf(0, "", "LTerm", "lk", id, "reason", le.Terminate.Reason.String(), "ts", e.now())
					}
				}
			}()
			go func() {
				defer close(a.done)
				_, err := d.GetClosestPeers(opCtx, e.lkKey)
				tr.AddBuf(3, "", "LookupEnd", "lk", id, "err", errClass(err), "ts", e.now())
				cancel()
			}()
		case "cancel":
			if active != nil {
				tr.Add("Ext", kv...)
				active.cancel()
			}
		case "refresh":
			if active != nil || closed {
				return
			}
			id := 100 + len(refreshes) + next
			tr.Add("Ext", append(kv, "id", id)...)
			var c <-chan error
			if ev.Force {
				c = d.ForceRefresh()
			} else {
				c = d.RefreshRoutingTable()
			}
			refreshes = append(refreshes, rf{id, c})
		case "advance":
			tr.Add("Ext", append(kv, "secs", ev.Secs)...)
			time.Sleep(time.Duration(ev.Secs) * time.Second)
		case "close":
			if closed {
				return
			}
			closed = true
			tr.Add("Ext", kv...)
			closeDone = make(chan struct{})
			go func() {
				defer close(closeDone)
				_ = d.Close()
			}()
		}
	}

	release := func(it *sim.Parked) {
		// a silent peer never answers: time passes until the caller's own timeout
		// (liveness pings: 10 s) or the transport's read timeout gives up
		var sp peer.ID
		if it.Kind == "dial" {
			sp = it.Payload.(peer.ID)
		} else {
			sp = it.Payload.(*sim.RPC).Peer
		}
		if e.silent[e.n(sp)] && !e.dead[e.n(sp)] {
			cls := ""
			if it.Kind != "dial" {
				cls = e.class(it.Payload.(*sim.RPC))
			}
			time.Sleep(11 * time.Second)
			var out any = errors.New("sim: dial timed out")
			if it.Kind != "dial" {
				out = sim.RPCOutcome{Err: dht.ErrReadTimeout}
			}
			// (a request that gave up earlier - its own timeout, a cancellation, the lookup's deadline - has been
			// logged as aborted; nothing is delivered to it)
			if e.gate.Release(it, out) {
				tr.Add("Deliver", "p", e.n(sp), "kind", it.Kind, "cls", cls, "out", "timeout", "named", 0, "ts", e.now())
			}
			return
		}
		if it.Kind == "dial" {
			p := it.Payload.(peer.ID)
			var out any
			res := "ok"
			if e.dead[e.n(p)] {
				out, res = errors.New("sim: dial failed"), "fail"
			}
			if e.gate.Release(it, out) {
				tr.Add("Deliver", "p", e.n(p), "kind", "dial", "cls", "", "out", res, "named", 0, "ts", e.now())
			}
			return
		}
		rpc := it.Payload.(*sim.RPC)
		pn := e.n(rpc.Peer)
		o := sim.RPCOutcome{}
		res := "ok"
		named := 0
		if e.dead[pn] {
			o.Err, res = errors.New("sim: request failed"), "fail"
		} else {
			resp := &pb.Message{Type: rpc.Msg.GetType(), Key: rpc.Msg.GetKey()}
			if !e.empty[pn] && pn >= 1 {
				for _, c := range sc.Closer[pn-1] {
					resp.CloserPeers = append(resp.CloserPeers, &pb.Message_Peer{Id: []byte(e.ids[c]), Addrs: [][]byte{addrOf(c).Bytes()}})
				}
			}
			named = len(resp.CloserPeers)
			o.Resp = resp
		}
		cls := e.class(rpc)
		if e.gate.Release(it, o) {
			tr.Add("Deliver", "p", pn, "kind", "req", "cls", cls, "out", res, "named", named, "ts", e.now())
		}
	}

	idle := 0
	for steps := 0; steps < 20000; steps++ {
		synctest.Wait()
		if e.lkCtx != nil && errors.Is(e.lkCtx.Err(), context.DeadlineExceeded) && !e.lkExpired {
			// the caller's deadline for the lookup has passed: from here on the lookup is over for the monitor,
			// like after a cancellation (logged before the aborts it caused)
			e.lkExpired = true
			tr.Add("Ext", "kind", "cancel", "p", 0, "speaks", false, "why", "deadline", "ts", e.now())
		}
		tr.Flush()
		if active != nil {
			select {
			case <-active.done:
				active = nil
				e.lkKey = ""
				e.lkCtx = nil
			default:
			}
		}
		pollRefreshes()
		tr.Add("Q", "rt", e.rt(), "ts", e.now())
		items := e.gate.Pending()
		moreExt := next < len(sc.Events)
		if !moreExt && len(items) == 0 {
			if active == nil && !refreshBusy() {
				break
			}
			idle++
			if idle > 200 {
				tr.Add("Hang", "ts", e.now())
				break
			}
			time.Sleep(time.Second)
			continue
		}
		idle = 0
		n := len(items)
		if moreExt {
			n++
		}
		i := ch.Choose(n)
		if i == len(items) {
			ev := sc.Events[next]
			next++
			applyExt(ev)
			continue
		}
		release(items[i])
	}
	if !closed {
		applyExt(RTEvent{Kind: "close"})
	}
	// after Close everything pending is cut by contexts; refresh requests must be answered
	for i := 0; i < 50; i++ {
		synctest.Wait()
		tr.Flush()
		pollRefreshes()
		items := e.gate.Pending()
		if len(items) == 0 {
			break
		}
		release(items[0])
	}
	if active != nil {
		active.cancel()
		synctest.Wait()
	}
	synctest.Wait()
	tr.Flush()
	pollRefreshes()
	open := []int{}
	for _, x := range refreshes {
		open = append(open, x.id)
	}
	select {
	case <-closeDone:
		tr.Add("Closed", "ok", true, "openrefresh", open, "ts", e.now())
	default:
		tr.Add("Closed", "ok", false, "openrefresh", open, "ts", e.now())
		tr.Add("End", "ts", e.now())
		return tr.Events
	}
	_ = e.host.Close()
	synctest.Wait()
	tr.Flush()
	tr.Add("End", "ts", e.now())
	return tr.Events
}

func genRTScenario(r *rand.Rand, small bool) *RTScenario {
	sc := &RTScenario{Seed: r.Int63()}
	if small {
		sc.N = 2 + r.Intn(3)
		sc.K = 1 + r.Intn(3)
		sc.Alpha = 1 + r.Intn(2)
	} else {
		sc.N = 5 + r.Intn(12)
		sc.K = []int{2, 3, 20}[r.Intn(3)]
		sc.Alpha = []int{1, 3}[r.Intn(2)]
	}
	sc.Seeded = subset(r, sc.N, 0.3)
	if r.Intn(3) == 0 {
		sc.FilterNo = subset(r, sc.N, 0.25)
	}
	for i := 1; i <= sc.N; i++ {
		c := subset(r, sc.N, 0.4)
		if r.Intn(6) == 0 {
			c = append(c, 0)
		}
		sc.Closer = append(sc.Closer, c)
	}
	nev := 3 + r.Intn(4)
	if !small {
		nev = 6 + r.Intn(14)
	}
	for i := 0; i < nev; i++ {
		p := 1 + r.Intn(sc.N)
		switch r.Intn(12) {
		case 0, 1, 2:
			sc.Events = append(sc.Events, RTEvent{Kind: "identify", P: p, Speaks: r.Intn(4) != 0})
		case 3:
			sc.Events = append(sc.Events, RTEvent{Kind: "proto", P: p, Speaks: r.Intn(2) == 0})
		case 4, 5:
			sc.Events = append(sc.Events, RTEvent{Kind: "kill", P: p})
		case 6:
			if r.Intn(2) == 0 {
				sc.Events = append(sc.Events, RTEvent{Kind: "revive", P: p})
			} else {
				sc.Events = append(sc.Events, RTEvent{Kind: "silence", P: p})
			}
		case 7, 8:
			switch r.Intn(8) {
			case 0, 1:
				sc.Events = append(sc.Events, RTEvent{Kind: "lookup"}, RTEvent{Kind: "cancel"})
			case 2, 3:
				// the caller's deadline expires while requests are outstanding
				sc.Events = append(sc.Events, RTEvent{Kind: "lookup", Secs: 1 + r.Intn(3)}, RTEvent{Kind: "advance", Secs: 5})
			default:
				sc.Events = append(sc.Events, RTEvent{Kind: "lookup"})
			}
		case 9:
			sc.Events = append(sc.Events, RTEvent{Kind: "refresh", Force: r.Intn(2) == 0})
		case 10:
			sc.Events = append(sc.Events, RTEvent{Kind: "advance", Secs: []int{30, 700, 4000}[r.Intn(3)]})
		case 11:
			if r.Intn(3) == 0 {
				sc.Events = append(sc.Events, RTEvent{Kind: "close"})
			} else {
				sc.Events = append(sc.Events, RTEvent{Kind: "empty", P: p, Speaks: r.Intn(2) == 0})
			}
		}
	}
	return sc
}

type rtReplay struct {
	Scenario *RTScenario `json:"scenario"`
	Choices  []int       `json:"choices"`
}

func TestRTMembership(t *testing.T) {
	e := getEnv(t)
	rec := newRecorder(t, e, "rt-membership", "trace = event list x schedule; distinct by event-sequence hash; non-trivial iff a member was evicted or a peer admitted during the run")
	defer rec.Close(t, e)
	nontriv := func(evs []sim.Ev) bool {
		var first, cur string
		for _, ev := range evs {
			if ev["e"] == "Q" {
				cur = fmt.Sprint(ev["rt"])
				if first == "" {
					first = cur
				}
				if cur != first {
					return true
				}
			}
		}
		return false
	}
	if e.Replay != "" {
		var wrap struct {
			Replay rtReplay `json:"replay"`
		}
		if err := readJSON(e.Replay, &wrap); err != nil {
			t.Fatal(err)
		}
		ch := &sim.ReplayChooser{Seq: wrap.Replay.Choices}
		evs := runRT(t, wrap.Replay.Scenario, ch)
		rec.Record(evs, rtReplay{wrap.Replay.Scenario, ch.Taken()}, nontriv(evs))
		return
	}
	r := rand.New(rand.NewSource(e.Seed))
	nSmall, maxPer, nLarge := 30, 40, 250
	if e.Tier == "thorough" {
		nSmall, maxPer, nLarge = 300, 300, 3000
	}
	if e.Budget > 0 {
		nSmall, nLarge = e.Budget, e.Budget
	}
	// The trace is validated line by line: its length is budgeted (a refresh over a lively table alone can take
	// thousands of events), half for the enumerated small scenarios, half for the large random ones.
	lines, budget := 0, 400000
	if e.Tier == "thorough" {
		budget = 5000000
	}
	for i := 0; i < nSmall && lines < budget/2; i++ {
		sc := genRTScenario(r, true)
		dfs := &sim.DFS{}
		for n := 0; n < maxPer && lines < budget/2; n++ {
			evs := runRT(t, sc, dfs)
			lines += len(evs)
			rec.Record(evs, rtReplay{sc, dfs.Taken()}, nontriv(evs))
			rec.Count("dfs_runs", 1)
			if !dfs.Next() {
				rec.Count("dfs_exhausted_scenarios", 1)
				break
			}
		}
	}
	for i := 0; i < nLarge && lines < budget; i++ {
		sc := genRTScenario(r, false)
		ch := sim.NewRandomChooser(r.Int63())
		evs := runRT(t, sc, ch)
		lines += len(evs)
		rec.Record(evs, rtReplay{sc, ch.Taken()}, nontriv(evs))
		rec.Count("random_runs", 1)
	}
}

var _ = network.Connected
