package drivers

import (
	"context"
	"encoding/json"
	"fmt"
	"math/rand"
	"strconv"
	"strings"
	"sync"
	"testing"
	"testing/synctest"
	"time"

	ds "github.com/ipfs/go-datastore"
	dssync "github.com/ipfs/go-datastore/sync"
	dht "github.com/libp2p/go-libp2p-kad-dht"
	pb "github.com/libp2p/go-libp2p-kad-dht/pb"
	"github.com/libp2p/go-libp2p/core/network"
	"github.com/libp2p/go-libp2p/core/peer"
	"github.com/libp2p/go-libp2p/core/protocol"
	ma "github.com/multiformats/go-multiaddr"
	"google.golang.org/protobuf/proto"

	"verifharness/sim"
)

// ---------------------------------------------------------------------------
// C11: the repository's message sender (internal/net, reached through
// IpfsDHT.MessageSender) under concurrent SendRequest / SendMessage /
// OnDisconnect calls against scripted remote peers. Every environment step
// (stream opened or refused, reply now / late / never, garbage, reset, EOF,
// cancellation, disconnect notification, passage of time) is a choice.
// ---------------------------------------------------------------------------

type SndCall struct {
	Peer int    `json:"peer"`
	Kind string `json:"kind"` // req | msg
}

type SndScenario struct {
	Seed   int64     `json:"seed"`
	NPeers int       `json:"npeers"`
	Calls  []SndCall `json:"calls"`
	Steps  int       `json:"steps"` // scheduling decisions before the drain
}

type sndStream struct {
	id       int
	peer     int
	s        *sim.FakeStream
	buf      []byte
	inflight []int // request ids read by the remote and not answered
	remoteDead bool
}

type sndCallState struct {
	started, returned bool
	cancel            context.CancelFunc
}

func runSnd(t *testing.T, sc *SndScenario, ch sim.Chooser) (evs []sim.Ev) {
	dl := runBubble(t, func(t *testing.T) { evs = runSndInBubble(t, sc, ch) })
	if dl != "" {
		evs = append(evs, sim.Ev{"e": "Stuck", "what": "deadlock"}, sim.Ev{"e": "End"})
	}
	return evs
}

func runSndInBubble(t *testing.T, sc *SndScenario, ch sim.Chooser) []sim.Ev {
	r := rand.New(rand.NewSource(sc.Seed))
	tr := &sim.Trace{}
	var mu sync.Mutex // protects the trace and the harness state below
	add := func(e string, kv ...any) { tr.Add(e, kv...) }
	self := sim.NewPeerID(r)
	peers := []peer.ID{}
	for i := 0; i < sc.NPeers; i++ {
		peers = append(peers, sim.NewPeerID(r))
	}
	peerIdx := func(p peer.ID) int {
		for i, x := range peers {
			if x == p {
				return i + 1
			}
		}
		return 0
	}
	h := sim.NewFakeHost(self, []ma.Multiaddr{sim.DefaultAddr(0)})
	h.Dial = func(ctx context.Context, p peer.ID) error { return nil }
	gate := &sim.Gate{}
	goCall := map[int]int{}      // goroutine id -> call index
	callSeq := map[int]int{}     // call index -> sequence number of its start
	lastDisc := map[int]int{}    // peer -> sequence number of the last disconnect notification
	seq := 0
	streams := []*sndStream{}
	byFake := map[*sim.FakeStream]*sndStream{}
	started := false
	reqID := func(m *pb.Message) int {
		k := string(m.GetKey())
		if i := strings.LastIndexByte(k, '-'); i >= 0 {
			n, _ := strconv.Atoi(k[i+1:])
			return n
		}
		return 0
	}
	h.StreamHook = func(fs *sim.FakeStream, what string) {
		mu.Lock()
		defer mu.Unlock()
		st := byFake[fs]
		if st == nil {
			return
		}
		switch what {
		case "write":
			st.buf = append(st.buf, fs.TakeWritten()...)
			msgs, rest := sim.Unframe(st.buf)
			st.buf = append([]byte(nil), rest...)
			for _, raw := range msgs {
				m := new(pb.Message)
				if err := proto.Unmarshal(raw, m); err != nil {
					add("Recv", "sid", st.id, "id", 0, "kind", "junk")
					continue
				}
				kind := "req"
				if m.GetType() == pb.Message_ADD_PROVIDER {
					kind = "msg"
				} else {
					st.inflight = append(st.inflight, reqID(m))
				}
				add("Recv", "sid", st.id, "id", reqID(m), "kind", kind)
			}
		case "reset":
			add("LocalEnd", "sid", st.id, "how", "reset")
		case "close":
			add("LocalEnd", "sid", st.id, "how", "close")
		}
	}
	h.Stream = func(ctx context.Context, p peer.ID, protos []protocol.ID) (*sim.FakeStream, error) {
		if !started {
			return nil, fmt.Errorf("sim: not started")
		}
		pi := peerIdx(p)
		mu.Lock()
		add("StreamReq", "p", pi)
		mu.Unlock()
		v, err := gate.Park(ctx, "newstream", fmt.Sprintf("%d/newstream", pi), pi)
		if err != nil {
			mu.Lock()
			add("StreamAbort", "p", pi)
			mu.Unlock()
			return nil, err
		}
		if v != nil {
			mu.Lock()
			add("StreamFail", "p", pi)
			mu.Unlock()
			return nil, v.(error)
		}
		var c *sim.FakeConn
		for _, x := range h.Net().ConnsToPeer(p) {
			c = x.(*sim.FakeConn)
			break
		}
		if c == nil {
			c = h.Net().AddConn(p, sim.DefaultAddr(9), network.DirOutbound)
		}
		mu.Lock()
		st := &sndStream{id: len(streams) + 1, peer: pi}
		streams = append(streams, st)
		mu.Unlock()
		fs := c.OpenStream(protos[0], network.DirOutbound)
		mu.Lock()
		st.s = fs
		byFake[fs] = st
		// fresh: opened by a call that started after the last disconnect notification for the peer
		ci, known := goCall[sim.GoID()]
		fresh := known && callSeq[ci] > lastDisc[pi]
		add("StreamOpen", "p", pi, "sid", st.id, "fresh", fresh)
		mu.Unlock()
		return fs, nil
	}
	d, err := dht.New(h, dht.ProtocolPrefix("/verifsnd"), dht.BucketSize(3), dht.DisableAutoRefresh(), dht.Mode(dht.ModeClient),
		dht.Datastore(dssync.MutexWrap(ds.NewMapDatastore())))
	if err != nil {
		t.Fatalf("dht.New: %v", err)
	}
	ms, ok := d.MessageSender().(pb.MessageSenderWithDisconnect)
	if !ok {
		t.Fatalf("message sender does not take disconnect notifications")
	}
	synctest.Wait()
	started = true
	add("Reset", "npeers", sc.NPeers, "ncalls", len(sc.Calls), "ts", 0)

	calls := make([]*sndCallState, len(sc.Calls))
	for i := range calls {
		calls[i] = &sndCallState{}
	}
	startCall := func(i int) {
		c := sc.Calls[i]
		ctx, cancel := context.WithCancel(context.Background())
		if i%2 == 1 {
			// every other caller also brings a deadline of its own, far beyond the sender's read timeout: the read
			// timeout applies all the same
			ctx, cancel = context.WithTimeout(context.Background(), time.Hour)
		}
		calls[i].started, calls[i].cancel = true, cancel
		mu.Lock()
		seq++
		callSeq[i] = seq
		add("Call", "id", i+1, "p", c.Peer, "kind", c.Kind)
		mu.Unlock()
		go func() {
			mu.Lock()
			goCall[sim.GoID()] = i
			mu.Unlock()
			key := []byte(fmt.Sprintf("call-%d", i+1))
			var resp *pb.Message
			var err error
			if c.Kind == "req" {
				resp, err = ms.SendRequest(ctx, peers[c.Peer-1], &pb.Message{Type: pb.Message_FIND_NODE, Key: key})
			} else {
				err = ms.SendMessage(ctx, peers[c.Peer-1], &pb.Message{Type: pb.Message_ADD_PROVIDER, Key: key})
			}
			mu.Lock()
			defer mu.Unlock()
			calls[i].returned = true
			replyTo := 0
			if resp != nil {
				replyTo = reqID(resp)
			}
			add("Return", "id", i+1, "ok", err == nil, "replyto", replyTo, "err", errS(err))
		}()
	}
	ndisc := 0
	type action struct {
		name string
		run  func()
	}
	now := func() int { return 0 }
	_ = now
	enabled := func(draining bool) []action {
		mu.Lock()
		defer mu.Unlock()
		as := []action{}
		if !draining {
			for i := range sc.Calls {
				if !calls[i].started {
					i := i
					as = append(as, action{"start", func() { startCall(i) }})
					break
				}
			}
		}
		for _, it := range gate.Pending() {
			it := it
			as = append(as, action{"open", func() { gate.Release(it, nil) }})
			if !draining {
				as = append(as, action{"refuse", func() { gate.Release(it, fmt.Errorf("sim: stream refused")) }})
			}
		}
		for _, st := range streams {
			st := st
			if st.s == nil || st.remoteDead || st.s.IsReset() {
				continue
			}
			for k := range st.inflight {
				k := k
				as = append(as, action{"reply", func() {
					mu.Lock()
					id := st.inflight[k]
					st.inflight = append(st.inflight[:k:k], st.inflight[k+1:]...)
					add("Reply", "sid", st.id, "id", id)
					mu.Unlock()
					st.s.RemoteWrite(sim.FrameMsg(&pb.Message{Type: pb.Message_FIND_NODE, Key: []byte(fmt.Sprintf("call-%d", id))}))
				}})
			}
			if draining {
				continue
			}
			as = append(as, action{"garbage", func() {
				mu.Lock()
				add("Garbage", "sid", st.id)
				mu.Unlock()
				st.s.RemoteWrite(sim.Frame([]byte{0xff, 0xff, 0xff, 0x07, 0x01}))
			}})
			as = append(as, action{"rreset", func() {
				mu.Lock()
				st.remoteDead = true
				add("RemoteReset", "sid", st.id)
				mu.Unlock()
				st.s.RemoteReset()
			}})
			as = append(as, action{"reof", func() {
				mu.Lock()
				st.remoteDead = true
				add("RemoteEOF", "sid", st.id)
				mu.Unlock()
				st.s.RemoteCloseWrite()
			}})
		}
		if !draining {
			for i := range calls {
				if calls[i].started && !calls[i].returned && calls[i].cancel != nil {
					i := i
					as = append(as, action{"cancel", func() {
						mu.Lock()
						add("Cancel", "id", i+1)
						c := calls[i].cancel
						calls[i].cancel = nil
						mu.Unlock()
						c()
					}})
				}
			}
			for p := 1; p <= sc.NPeers && ndisc < 2; p++ {
				p := p
				as = append(as, action{"disconnect", func() {
					mu.Lock()
					seq++
					lastDisc[p] = seq
					ndisc++
					add("Disconnect", "p", p)
					mu.Unlock()
					ms.OnDisconnect(context.Background(), peers[p-1])
				}})
			}
		}
		as = append(as, action{"advance", func() {
			mu.Lock()
			add("Advance", "ms", 10001)
			mu.Unlock()
			time.Sleep(10001 * time.Millisecond)
		}})
		return as
	}
	for step := 0; step < sc.Steps; step++ {
		synctest.Wait()
		as := enabled(false)
		a := as[ch.Choose(len(as))]
		a.run()
	}
	// drain: remaining calls are not started; streams are granted, outstanding requests may be
	// answered or time out, until every started call has returned
	for round := 0; round < 40; round++ {
		synctest.Wait()
		mu.Lock()
		open := false
		for i := range calls {
			if calls[i].started && !calls[i].returned {
				open = true
			}
		}
		mu.Unlock()
		if !open && gate.Len() == 0 {
			break
		}
		if p := gate.Pending(); len(p) > 0 {
			gate.Release(p[0], nil)
			continue
		}
		as := enabled(true)
		a := as[ch.Choose(len(as))]
		a.run()
	}
	synctest.Wait()
	mu.Lock()
	pend := []int{}
	for i := range calls {
		if calls[i].started && !calls[i].returned {
			pend = append(pend, i+1)
		}
	}
	sts := []any{}
	for _, st := range streams {
		if st.s != nil {
			sts = append(sts, map[string]any{"sid": st.id, "p": st.peer, "localreset": st.s.WasReset(), "localclosed": st.s.LocalClosed()})
		}
	}
	add("Quiesce", "pending", pend, "streams", sts)
	for i := range calls {
		if calls[i].cancel != nil {
			calls[i].cancel()
		}
	}
	mu.Unlock()
	started = false
	for _, it := range gate.Pending() {
		gate.Release(it, fmt.Errorf("sim: shutting down"))
	}
	_ = d.Close()
	mu.Lock()
	for _, st := range streams {
		if st.s != nil {
			st.s.RemoteReset()
		}
	}
	mu.Unlock()
	_ = h.Close()
	synctest.Wait()
	mu.Lock()
	defer mu.Unlock()
	add("End")
	return tr.Events
}

func genSndScenario(r *rand.Rand) *SndScenario {
	sc := &SndScenario{Seed: r.Int63(), NPeers: 1 + r.Intn(2), Steps: 6 + r.Intn(22)}
	n := 2 + r.Intn(5)
	for i := 0; i < n; i++ {
		k := "req"
		if r.Intn(4) == 0 {
			k = "msg"
		}
		sc.Calls = append(sc.Calls, SndCall{Peer: 1 + r.Intn(sc.NPeers), Kind: k})
	}
	return sc
}

func TestSenderChild(t *testing.T) {
	childMain(t, func(idx int, raw json.RawMessage, progress func(any)) any {
		var j schedJob
		var sc SndScenario
		if err := json.Unmarshal(raw, &j); err != nil {
			t.Fatal(err)
		}
		if err := json.Unmarshal(j.Sc, &sc); err != nil {
			t.Fatal(err)
		}
		return runSchedJob(&j, progress, func(ch sim.Chooser) []sim.Ev { return runSnd(t, &sc, ch) })
	})
}

func sndCrashRun(sc *SndScenario, output string, stalled bool) []sim.Ev {
	what := "crashed: " + crashLine(output)
	if stalled {
		what = "no progress in real time: a goroutine of the sender is blocked where the runtime cannot see it as idle"
	}
	return []sim.Ev{{"e": "Reset", "npeers": sc.NPeers, "ncalls": len(sc.Calls), "ts": 0}, {"e": "Stuck", "what": what}, {"e": "End"}}
}

func TestSender(t *testing.T) {
	e := getEnv(t)
	rec := newRecorder(t, e, "sender", "one run per (calls, schedule of environment steps); small scenarios explored by DFS over the choice tree (bounded), random scenarios under seeded schedules; distinct by event sequence")
	defer rec.Close(t, e)
	jobs := []*schedJob{}
	scs := []*SndScenario{}
	addJob := func(sc *SndScenario, j *schedJob) {
		j.Sc, _ = json.Marshal(sc)
		jobs = append(jobs, j)
		scs = append(scs, sc)
	}
	if e.Replay != "" {
		var wrap struct {
			Replay struct {
				Scenario *SndScenario `json:"scenario"`
				Choices  []int        `json:"choices"`
				Seed     int64        `json:"seed"`
			} `json:"replay"`
		}
		if err := readJSON(e.Replay, &wrap); err != nil {
			t.Fatal(err)
		}
		addJob(wrap.Replay.Scenario, &schedJob{Replay: true, Choices: wrap.Replay.Choices, Seed: wrap.Replay.Seed})
	} else {
		r := rand.New(rand.NewSource(e.Seed))
		perTree, nrand := 1500, 15000
		if e.Tier == "thorough" {
			perTree, nrand = 20000, 100000
		}
		if e.Budget > 0 {
			nrand = e.Budget
		}
		// two and three concurrent requests to one peer, few steps: whole choice tree (bounded)
		for _, calls := range [][]SndCall{
			{{1, "req"}, {1, "req"}},
			{{1, "req"}, {1, "msg"}, {1, "req"}},
			{{1, "req"}, {1, "req"}, {1, "req"}},
		} {
			for _, steps := range []int{4, 5, 6} {
				addJob(&SndScenario{Seed: 11, NPeers: 1, Calls: calls, Steps: steps}, &schedJob{Tree: true, PerTree: perTree})
			}
		}
		for i := 0; i < nrand; i++ {
			addJob(genSndScenario(r), &schedJob{Seed: 1 + r.Int63()})
		}
	}
	crashed := map[int]map[string]any{}
	var cmu sync.Mutex
	results := runChildren(t, e, "TestSenderChild", jobs, len(jobs), 12, func(idx int, info json.RawMessage, output string, stalled bool) any {
		cmu.Lock()
		crashed[idx] = schedReplayOf(scs[idx], info)
		cmu.Unlock()
		return []schedResult{{Evs: sndCrashRun(scs[idx], output, stalled)}}
	})
	for i, raw := range results {
		var out []schedResult
		if raw == nil || json.Unmarshal(raw, &out) != nil {
			rec.Count("skipped_after_stalls", 1)
			continue
		}
		for _, o := range out {
			rp := map[string]any{"scenario": scs[i], "choices": o.Choices}
			if c := crashed[i]; c != nil {
				rp = c
			}
			rec.Record(o.Evs, rp, true)
			if jobs[i].Tree {
				rec.Count("systematic", 1)
				if o.Exhausted {
					rec.Count("trees_exhausted", 1)
				}
			} else {
				rec.Count("random", 1)
			}
		}
	}
}
