package drivers

import (
	"context"
	"fmt"
	"math/rand"
	"sort"
	"strings"
	"testing"
	"time"

	ds "github.com/ipfs/go-datastore"
	dssync "github.com/ipfs/go-datastore/sync"
	dht "github.com/libp2p/go-libp2p-kad-dht"
	pb "github.com/libp2p/go-libp2p-kad-dht/pb"
	"github.com/libp2p/go-libp2p-kad-dht/records"
	recpb "github.com/libp2p/go-libp2p-record/pb"
	"github.com/libp2p/go-libp2p/core/host"
	"github.com/libp2p/go-libp2p/core/network"
	"github.com/libp2p/go-libp2p/core/peer"
	"github.com/libp2p/go-libp2p/core/protocol"
	ma "github.com/multiformats/go-multiaddr"
	"google.golang.org/protobuf/proto"

	"verifharness/sim"
)

// SrvCase is one (node configuration, request) pair of the server property.
type SrvCase struct {
	Seed     int64  `json:"seed"`
	Mode     string `json:"mode"` // server | client
	Values   bool   `json:"values"`
	Provs    bool   `json:"provs"`
	K        int    `json:"K"`
	N        int    `json:"N"`      // universe size
	RT       []int  `json:"rt"`     // universe indices in the routing table
	NoAddr   []int  `json:"noaddr"` // universe peers without addresses in the peerstore
	Big      []int  `json:"big"`    // universe peers with a huge address list
	ReqPeer  int    `json:"reqpeer"` // universe index of the requester (0 = a stranger)
	Filter   bool   `json:"filter"`  // the node has an address filter (drops 10.x addresses)
	PreProvs int    `json:"preprovs"` // providers already stored for the key
	BigProvs bool   `json:"bigprovs"` // those providers have maximal address lists

	Typ      string   `json:"typ"`    // PUT_VALUE GET_VALUE ADD_PROVIDER GET_PROVIDERS FIND_NODE PING UNKNOWN
	KeyClass string   `json:"key"`    // none | ok | max80 | long | target
	Target   string   `json:"target"` // FIND_NODE: requester | self | member | known | nobody
	Rec      string   `json:"rec"`    // none | match | mismatch | invalid
	ProvEnts []string `json:"provents"` // sender+ok sender+none other+ok sender+filtered sender+mixed sender+undec sender+huge
	Stuff    int      `json:"stuff"`  // closer/provider peers stuffed into the request (echo test)
	PreRec   bool     `json:"prerec"` // the node already holds a better record (V2) for the key of a PUT_VALUE
	UnkType  int      `json:"unktype"` // UNKNOWN: the numeric message type (99, 6, -1, the smallest int32)
	Garbage  string   `json:"garbage"` // none | bytes | trunc | oversize | emptyframe
}

const srvProto = protocol.ID("/verifsrv/kad/1.0.0")

func srvBigAddrs(n int, tag int) []ma.Multiaddr {
	out := make([]ma.Multiaddr, n)
	for i := range out {
		out[i] = ma.StringCast(fmt.Sprintf("/dns4/%s%d-%d/tcp/1", strings.Repeat("a", 200), tag, i))
	}
	return out
}

func srvFilter(as []ma.Multiaddr) []ma.Multiaddr {
	out := []ma.Multiaddr{}
	for _, a := range as {
		if !strings.HasPrefix(a.String(), "/ip4/10.") {
			out = append(out, a)
		}
	}
	return out
}

func runSrvCase(t *testing.T, sc *SrvCase) (evs []sim.Ev) {
	runBubble(t, func(t *testing.T) { evs = runSrvInBubble(t, sc) })
	return evs
}

func runSrvInBubble(t *testing.T, sc *SrvCase) []sim.Ev {
	r := rand.New(rand.NewSource(sc.Seed))
	tr := &sim.Trace{}
	self := sim.NewPeerID(r)
	uni := make([]peer.ID, sc.N+1) // 1-based
	for i := 1; i <= sc.N; i++ {
		uni[i] = sim.NewPeerID(r)
	}
	stranger := sim.NewPeerID(r)
	requester := stranger
	if sc.ReqPeer > 0 {
		requester = uni[sc.ReqPeer]
	}
	h := sim.NewFakeHost(self, []ma.Multiaddr{sim.DefaultAddr(0)})
	h.Dial = func(ctx context.Context, p peer.ID) error { return fmt.Errorf("sim: no network") }
	mode := dht.ModeServer
	if sc.Mode == "client" {
		mode = dht.ModeClient
	}
	provDS := dssync.MutexWrap(ds.NewMapDatastore())
	valDS := dssync.MutexWrap(ds.NewMapDatastore())
	opts := []dht.Option{
		dht.ProtocolPrefix("/verifsrv"), dht.BucketSize(sc.K), dht.DisableAutoRefresh(), dht.Mode(mode),
		dht.Validator(simValidator{}), dht.ProviderDatastore(provDS), dht.Datastore(valDS),
		dht.WithCustomMessageSender(func(host.Host, []protocol.ID) pb.MessageSenderWithDisconnect {
			return &sim.GatedSender{G: &sim.Gate{}}
		}),
	}
	if !sc.Values {
		opts = append(opts, dht.DisableValues())
	}
	if !sc.Provs {
		opts = append(opts, dht.DisableProviders())
	}
	if sc.Filter {
		opts = append(opts, dht.AddressFilter(srvFilter))
	}
	d, err := dht.New(h, opts...)
	if err != nil {
		t.Fatalf("dht.New: %v", err)
	}
	inset := func(xs []int, v int) bool {
		for _, x := range xs {
			if x == v {
				return true
			}
		}
		return false
	}
	for i := 1; i <= sc.N; i++ {
		switch {
		case inset(sc.NoAddr, i):
		case inset(sc.Big, i):
			h.Peerstore().AddAddrs(uni[i], srvBigAddrs(120, i), time.Hour)
		default:
			h.Peerstore().AddAddrs(uni[i], []ma.Multiaddr{addrOf(i), ma.StringCast(fmt.Sprintf("/ip4/10.1.%d.1/tcp/1", i))}, time.Hour)
		}
	}
	for _, i := range sc.RT {
		_, _ = d.RoutingTable().TryAddPeer(uni[i], true, false)
	}
	// the key of the request
	var key []byte
	targetKind := ""
	switch sc.KeyClass {
	case "none":
	case "max80":
		key = []byte(strings.Repeat("k", 80))
	case "long":
		key = []byte(strings.Repeat("k", 81))
	case "target":
		targetKind = sc.Target
		switch sc.Target {
		case "requester":
			key = []byte(requester)
		case "self":
			key = []byte(self)
		case "member":
			if len(sc.RT) > 0 {
				key = []byte(uni[sc.RT[0]])
			} else {
				key = []byte(stranger)
				targetKind = "nobody"
			}
		case "known": // not in the routing table but its addresses are known
			x := 0
			for i := 1; i <= sc.N; i++ {
				if !inset(sc.RT, i) && !inset(sc.NoAddr, i) && uni[i] != requester {
					x = i
				}
			}
			if x == 0 {
				key = []byte(sim.NewPeerID(r))
				targetKind = "nobody"
			} else {
				key = []byte(uni[x])
			}
		default:
			key = []byte(sim.NewPeerID(r))
			targetKind = "nobody"
		}
	default:
		if sc.Typ == "PUT_VALUE" || sc.Typ == "GET_VALUE" {
			key = []byte(fmt.Sprintf("/v/srv-%d", sc.Seed))
		} else {
			key = make([]byte, 34)
			r.Read(key)
		}
	}
	bg := context.Background()
	if sc.Provs && sc.PreProvs > 0 && len(key) > 0 && len(key) <= 80 {
		for i := 0; i < sc.PreProvs; i++ {
			pid := sim.NewPeerID(r)
			addrs := []ma.Multiaddr{sim.DefaultAddr(5000 + i)}
			if sc.BigProvs {
				addrs = srvBigAddrs(40, 9000+i)
			}
			_ = d.ProviderStore().AddProvider(bg, key, peer.AddrInfo{ID: pid, Addrs: addrs})
		}
	}
	// ranking of the universe by distance to the key (independent computation)
	order := sim.SortByDistance(append([]peer.ID{}, uni[1:]...), string(key))
	rank := map[peer.ID]int{}
	for i, p := range order {
		rank[p] = i + 1
	}
	// the routing table as it actually is (a bucket may have refused a peer)
	rtRanks := []int{}
	for _, p := range d.RoutingTable().ListPeers() {
		rtRanks = append(rtRanks, rank[p])
	}
	sort.Ints(rtRanks)
	noAddrRanks := []int{}
	for _, i := range sc.NoAddr {
		noAddrRanks = append(noAddrRanks, rank[uni[i]])
	}
	reqRank := -1
	if sc.ReqPeer > 0 {
		reqRank = rank[requester]
	}
	targetRank := -1
	if len(key) > 0 {
		if rk, ok := rank[peer.ID(key)]; ok {
			targetRank = rk
		}
	}
	targetHasAddrs := len(key) > 0 && len(h.Peerstore().Addrs(peer.ID(key))) > 0
	if string(key) == string(self) {
		targetHasAddrs = len(h.Peerstore().Addrs(self)) > 0
	}

	// the request message
	typ := map[string]pb.Message_MessageType{"PUT_VALUE": pb.Message_PUT_VALUE, "GET_VALUE": pb.Message_GET_VALUE,
		"ADD_PROVIDER": pb.Message_ADD_PROVIDER, "GET_PROVIDERS": pb.Message_GET_PROVIDERS, "FIND_NODE": pb.Message_FIND_NODE,
		"PING": pb.Message_PING, "UNKNOWN": pb.Message_MessageType(99)}[sc.Typ]
	if sc.Typ == "UNKNOWN" && sc.UnkType != 0 {
		typ = pb.Message_MessageType(int32(sc.UnkType))
	}
	preRec := false
	if sc.PreRec && sc.Values && sc.Typ == "PUT_VALUE" && len(key) > 0 {
		// the node already holds a record the validator prefers to the one offered (V1)
		if err := records.NewValueStore(valDS, anyValidator{}, 0).Put(bg, string(key), &recpb.Record{Key: key, Value: []byte("V2")}); err == nil {
			preRec = true
		}
	}
	req := &pb.Message{Type: typ, Key: key}
	switch sc.Rec {
	case "match":
		req.Record = &recpb.Record{Key: key, Value: []byte("V1")}
	case "mismatch":
		req.Record = &recpb.Record{Key: []byte("/v/other"), Value: []byte("V1")}
	case "invalid":
		req.Record = &recpb.Record{Key: key, Value: []byte("I1")}
	}
	other := sim.NewPeerID(r)
	sentOKAddrs := 0 // filter-passing decodable addresses offered under the sender's id
	anyValidEntry := false
	for _, ent := range sc.ProvEnts {
		parts := strings.Split(ent, "+")
		id := requester
		if parts[0] == "other" {
			id = other
		}
		p := &pb.Message_Peer{Id: []byte(id)}
		pass, addrs := 0, 0
		switch parts[1] {
		case "ok":
			p.Addrs = [][]byte{sim.DefaultAddr(7001).Bytes()}
			pass, addrs = 1, 1
		case "none":
		case "filtered":
			p.Addrs = [][]byte{ma.StringCast("/ip4/10.9.9.9/tcp/1").Bytes()}
			addrs = 1
			if !sc.Filter {
				pass = 1
			}
		case "mixed":
			p.Addrs = [][]byte{ma.StringCast("/ip4/10.9.9.8/tcp/1").Bytes(), sim.DefaultAddr(7002).Bytes()}
			addrs = 2
			pass = 1
			if !sc.Filter {
				pass = 2
			}
		case "undec":
			p.Addrs = [][]byte{{0xff, 0xff, 0xff, 0xff}}
		case "huge":
			for _, a := range srvBigAddrs(200, 777) {
				p.Addrs = append(p.Addrs, a.Bytes())
			}
			addrs, pass = 200, 200
		}
		if parts[0] == "sender" {
			sentOKAddrs += pass
			if addrs > 0 {
				anyValidEntry = true
			}
		}
		req.ProviderPeers = append(req.ProviderPeers, p)
	}
	for i := 0; i < sc.Stuff; i++ {
		sp := &pb.Message_Peer{Id: []byte(sim.NewPeerID(r)), Addrs: [][]byte{sim.DefaultAddr(8000 + i).Bytes()}}
		req.CloserPeers = append(req.CloserPeers, sp)
		if typ != pb.Message_ADD_PROVIDER {
			req.ProviderPeers = append(req.ProviderPeers, sp)
		}
	}
	var framed []byte
	switch sc.Garbage {
	case "bytes":
		g := make([]byte, 40)
		r.Read(g)
		framed = sim.Frame(g)
	case "trunc":
		f := sim.FrameMsg(req)
		framed = f[:len(f)/2]
	case "oversize":
		framed = []byte{0xff, 0xff, 0xff, 0xff, 0x0f, 1, 2, 3}
	case "emptyframe":
		framed = []byte{0}
	default:
		framed = sim.FrameMsg(req)
	}

	// serve it
	panicked := ""
	var rep sim.ServerReply
	handlerPresent := h.Handler(srvProto) != nil
	func() {
		defer func() {
			if x := recover(); x != nil {
				panicked = fmt.Sprint(x)
			}
		}()
		if handlerPresent {
			rep, _ = h.ServeOnce(requester, sim.DefaultAddr(9), srvProto, framed)
		}
	}()

	describe := func(ps []*pb.Message_Peer) []any {
		out := []any{}
		for _, p := range ps {
			id := peer.ID(p.GetId())
			rk, known := rank[id]
			if !known {
				rk = -1
			}
			b, _ := proto.Marshal(p)
			undec := 0
			for _, a := range p.GetAddrs() {
				if _, err := ma.NewMultiaddrBytes(a); err != nil {
					undec++
				}
			}
			out = append(out, map[string]any{"r": rk, "self": id == self, "req": id == requester, "target": string(id) == string(key),
				"inrt": known && inset(rtRanks, rk), "na": len(p.GetAddrs()), "sz": len(b), "undec": undec})
		}
		return out
	}
	ev := sim.Ev{"e": "Case", "mode": sc.Mode, "values": sc.Values, "provs": sc.Provs, "K": sc.K, "rt": rtRanks, "noaddr": noAddrRanks,
		"reqrank": reqRank, "typ": sc.Typ, "key": sc.KeyClass, "keylen": len(key), "target": targetKind, "targetrank": targetRank,
		"targethasaddrs": targetHasAddrs, "rec": sc.Rec, "garbage": sc.Garbage, "stuff": sc.Stuff, "filter": sc.Filter,
		"anyvalident": anyValidEntry, "sentokaddrs": sentOKAddrs, "handler": handlerPresent,
		"panic": panicked != "", "reset": rep.Reset, "closed": rep.Closed, "nmsgs": len(rep.Msgs), "junk": rep.Junk, "total": rep.Bytes}
	ev["rtype"], ev["keyecho"], ev["hasrec"], ev["closer"], ev["rprovs"] = "", false, false, []any{}, []any{}
	if len(rep.Msgs) >= 1 {
		m := rep.Msgs[0]
		ev["rtype"] = m.GetType().String()
		ev["keyecho"] = string(m.GetKey()) == string(key)
		ev["hasrec"] = m.GetRecord() != nil
		ev["closer"] = describe(m.GetCloserPeers())
		ev["rprovs"] = describe(m.GetProviderPeers())
	}
	// what got stored
	storedSender, storedOther := false, false
	storedAddrsOK := true
	storedVal := ""
	if sc.Provs && len(key) > 0 && len(key) <= 80 {
		ps, _ := d.ProviderStore().GetProviders(bg, key)
		for _, ai := range ps {
			if ai.ID == requester {
				storedSender = true
			}
			if ai.ID == other {
				storedOther = true
			}
		}
	}
	for _, a := range h.Peerstore().Addrs(requester) {
		if sc.Filter && strings.HasPrefix(a.String(), "/ip4/10.9.") {
			storedAddrsOK = false
		}
	}
	if sc.Values && (sc.Typ == "PUT_VALUE") && len(key) > 0 {
		if rec, err := records.NewValueStore(valDS, anyValidator{}, 0).Get(bg, string(key)); err == nil && rec != nil {
			storedVal = string(rec.GetValue())
		}
	}
	ev["storedsender"], ev["storedother"], ev["storedaddrsok"], ev["storedval"] = storedSender, storedOther, storedAddrsOK, storedVal
	ev["prerec"] = preRec
	// the node keeps serving other peers
	alive := true
	if sc.Mode == "server" {
		func() {
			defer func() {
				if recover() != nil {
					alive = false
				}
			}()
			rep2, err := h.ServeOnce(stranger, sim.DefaultAddr(10), srvProto, sim.FrameMsg(&pb.Message{Type: pb.Message_PING}))
			alive = err == nil && len(rep2.Msgs) == 1
		}()
	}
	ev["alive"] = alive
	tr.Add("Reset", "ts", 0)
	tr.Events = append(tr.Events, ev)
	_ = d.Close()
	_ = h.Close()
	tr.Add("End")
	return tr.Events
}

func genSrvCase(r *rand.Rand) *SrvCase {
	sc := &SrvCase{Seed: r.Int63(), Mode: "server", Values: true, Provs: true, K: []int{1, 2, 3, 20}[r.Intn(4)], N: 2 + r.Intn(9), Garbage: "none"}
	if r.Intn(8) == 0 {
		sc.Mode = "client"
	}
	if r.Intn(10) == 0 {
		sc.Values = false
	}
	if r.Intn(10) == 0 {
		sc.Provs = false
	}
	sc.RT = subset(r, sc.N, []float64{0, 0.3, 0.7, 1}[r.Intn(4)])
	sc.NoAddr = subset(r, sc.N, 0.2)
	if r.Intn(6) == 0 {
		sc.Big = subset(r, sc.N, 0.3)
	}
	sc.ReqPeer = r.Intn(sc.N + 1)
	sc.Filter = r.Intn(2) == 0
	sc.Typ = []string{"PUT_VALUE", "GET_VALUE", "ADD_PROVIDER", "GET_PROVIDERS", "FIND_NODE", "PING", "UNKNOWN"}[r.Intn(7)]
	sc.KeyClass = []string{"ok", "ok", "ok", "none", "max80", "long"}[r.Intn(6)]
	// a peer id as the key: mostly for FIND_NODE, but any request type may carry one
	if (sc.Typ == "FIND_NODE" && r.Intn(4) != 0) || (sc.Typ != "FIND_NODE" && sc.Typ != "PING" && r.Intn(6) == 0) {
		sc.KeyClass = "target"
		sc.Target = []string{"requester", "self", "member", "known", "nobody"}[r.Intn(5)]
	}
	sc.Rec = "none"
	if sc.Typ == "PUT_VALUE" || r.Intn(10) == 0 {
		sc.Rec = []string{"match", "match", "mismatch", "invalid", "none"}[r.Intn(5)]
	}
	sc.PreRec = sc.Typ == "PUT_VALUE" && r.Intn(3) == 0
	if sc.Typ == "UNKNOWN" {
		sc.UnkType = []int{99, 6, -1, -2147483648}[r.Intn(4)]
	}
	if sc.Typ == "ADD_PROVIDER" || r.Intn(12) == 0 {
		ents := []string{"sender+ok", "sender+none", "other+ok", "sender+filtered", "sender+mixed", "sender+undec", "sender+huge"}
		for i := 0; i < 1+r.Intn(3); i++ {
			sc.ProvEnts = append(sc.ProvEnts, ents[r.Intn(len(ents))])
		}
	}
	if sc.Typ == "GET_PROVIDERS" {
		sc.PreProvs = []int{0, 1, 3, 30}[r.Intn(4)]
		sc.BigProvs = r.Intn(3) == 0
	}
	if r.Intn(4) == 0 {
		sc.Stuff = 1 + r.Intn(5)
	}
	if r.Intn(10) == 0 {
		sc.Garbage = []string{"bytes", "trunc", "oversize", "emptyframe"}[r.Intn(4)]
	}
	return sc
}

func TestServer(t *testing.T) {
	e := getEnv(t)
	rec := newRecorder(t, e, "server", "one run per (node configuration, request) case: request classes (type, key class, record class, provider entries, stuffed peer records, garbage frames) x configurations (mode, subsystems, routing table vs K, requester / target roles, address knowledge, filter, provider-store load); distinct by case content")
	defer rec.Close(t, e)
	if e.Replay != "" {
		var wrap struct {
			Replay struct {
				Scenario *SrvCase `json:"scenario"`
			} `json:"replay"`
		}
		if err := readJSON(e.Replay, &wrap); err != nil {
			t.Fatal(err)
		}
		rec.Record(runSrvCase(t, wrap.Replay.Scenario), map[string]any{"scenario": wrap.Replay.Scenario}, true)
		return
	}
	r := rand.New(rand.NewSource(e.Seed))
	n := 2500
	if e.Tier == "thorough" {
		n = 40000
	}
	if e.Budget > 0 {
		n = e.Budget
	}
	for i := 0; i < n; i++ {
		sc := genSrvCase(r)
		writeCurrent2(e, map[string]any{"scenario": sc})
		rec.Record(runSrvCase(t, sc), map[string]any{"scenario": sc}, true)
		rec.Count(sc.Typ, 1)
	}
	// a few heavy cases: provider sets that cannot fit the transport limit
	heavy := 3
	if e.Tier == "thorough" {
		heavy = 12
	}
	for i := 0; i < heavy; i++ {
		sc := genSrvCase(r)
		sc.Mode, sc.Provs, sc.Typ, sc.KeyClass, sc.Garbage = "server", true, "GET_PROVIDERS", "ok", "none"
		sc.PreProvs, sc.BigProvs = 600, true
		rec.Record(runSrvCase(t, sc), map[string]any{"scenario": sc}, true)
		rec.Count("heavy", 1)
	}
	_ = network.MessageSizeMax
}

func writeCurrent2(e Env, d any) {
	_ = writeJSON(e.Out+".current.json", map[string]any{"replay": d})
}
