//go:build !verif

package drivers

func sweepSetHook(f func(point, prefix string)) {}
