//go:build verif

package drivers

import "github.com/libp2p/go-libp2p-kad-dht/provider"

func sweepSetHook(f func(point, prefix string)) { provider.VerifPoint = f }
