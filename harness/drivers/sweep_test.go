package drivers

import (
	"bytes"
	crand "crypto/rand"
	"os"
	"context"
	"crypto/sha256"
	"encoding/json"
	"errors"
	"fmt"
	"math/rand"
	"sort"
	"sync"
	"testing"
	"testing/synctest"
	"time"

	ds "github.com/ipfs/go-datastore"
	dssync "github.com/ipfs/go-datastore/sync"
	pb "github.com/libp2p/go-libp2p-kad-dht/pb"
	"github.com/libp2p/go-libp2p-kad-dht/provider"
	"github.com/libp2p/go-libp2p-kad-dht/provider/buffered"
	"github.com/libp2p/go-libp2p-kad-dht/provider/keystore"
	"github.com/libp2p/go-libp2p/core/peer"
	ma "github.com/multiformats/go-multiaddr"
	mh "github.com/multiformats/go-multihash"

	"verifharness/sim"
)

// ---------------------------------------------------------------------------
// C17: the sweeping provider over a simulated swarm. The closest-peers router
// answers from the current swarm (the K nearest peers of any key), the message
// sender records every ADD_PROVIDER (key, recipient, virtual time, addresses).
// Histories: start / provide-once / stop, swarm growth and shrinkage,
// connectivity loss and return, restarts, over several reprovide cycles of
// virtual time.
// ---------------------------------------------------------------------------

type SWOp struct {
	Kind  string `json:"kind"` // start | once | stop | advance | join | leave | offline | online | failsend | healsend | swapheal | addrs | restart | settle
	Keys  []int  `json:"keys,omitempty"`
	Mins  int    `json:"mins,omitempty"`
	Peers []int  `json:"peers,omitempty"`
}

type SWScenario struct {
	Seed      int64  `json:"seed"`
	R         int    `json:"r"`         // replication factor
	K         int    `json:"K"`         // peers returned by the router
	NPeers    int    `json:"npeers"`    // universe of peers; Initial are in the swarm at the beginning
	Initial   []int  `json:"initial"`
	NKeys     int    `json:"nkeys"`
	Interval  int    `json:"interval"`  // reprovide interval, minutes
	MaxDelay  int    `json:"maxdelay"`  // minutes
	Workers   int    `json:"workers"`
	Buffered  bool   `json:"buffered"`
	Ops       []SWOp `json:"ops"`
}

type swEnv struct {
	sc      *SWScenario
	mu      sync.Mutex
	peers   []peer.ID
	peerIdx map[peer.ID]int
	keys    []mh.Multihash
	keyIdx  map[string]int
	swarm   map[int]bool
	online  bool
	start   time.Time
	tr      *sim.Trace
	self    peer.ID
	addrs   []ma.Multiaddr
	calls   int
	begun   bool // the Reset event has been logged
	sendBad bool // ADD_PROVIDER messages fail although lookups work
}

func (e *swEnv) now() int { return int(time.Since(e.start) / time.Second) }

func kadOf(b []byte) [32]byte { return sha256.Sum256(b) }

// nearest returns the n peers of the swarm nearest to the key with Kademlia id kid.
func (e *swEnv) nearest(kid [32]byte, n int) []int {
	type pd struct {
		i int
		d [32]byte
	}
	all := []pd{}
	for i := range e.swarm {
		all = append(all, pd{i, sim.XorDist(kadOf([]byte(e.peers[i-1])), kid)})
	}
	sort.Slice(all, func(a, b int) bool { return bytes.Compare(all[a].d[:], all[b].d[:]) < 0 })
	out := []int{}
	for i := 0; i < len(all) && i < n; i++ {
		out = append(out, all[i].i)
	}
	return out
}

func (e *swEnv) GetClosestPeers(ctx context.Context, key string) ([]peer.ID, error) {
	e.mu.Lock()
	defer e.mu.Unlock()
	e.calls++
	if !e.online {
		return nil, errors.New("sim: offline")
	}
	out := []peer.ID{}
	near := e.nearest(kadOf([]byte(key)), e.sc.K)
	for _, i := range near {
		out = append(out, e.peers[i-1])
	}
	if os.Getenv("VERIF_SW_DEBUG") != "" {
		kid := kadOf([]byte(key))
		bits := func(b [32]byte) string { return fmt.Sprintf("%08b%08b", b[0], b[1]) }
		s := ""
		for _, i := range near {
			s += fmt.Sprintf(" %d:%s", i, bits(kadOf([]byte(e.peers[i-1]))))
		}
		fmt.Fprintf(os.Stderr, "RT ts=%d key=%s ->%s\n", e.now(), bits(kid), s)
	}
	if len(out) == 0 {
		return nil, errors.New("sim: no peers")
	}
	if e.begun {
		e.tr.Add("Route", "peers", sim.Ints(near), "ts", e.now())
	}
	return out, nil
}

func (e *swEnv) SendRequest(ctx context.Context, p peer.ID, m *pb.Message) (*pb.Message, error) {
	return nil, errors.New("sim: unexpected request")
}

func (e *swEnv) SendMessage(ctx context.Context, p peer.ID, m *pb.Message) error {
	e.mu.Lock()
	bad := e.sendBad
	if bad {
		// logged at the instant the attempt is made, with the other records of that advertisement
		ki := e.keyIdx[string(m.GetKey())]
		e.tr.Add("SendFail", "k", ki, "p", e.peerIdx[p], "ts", e.now())
	}
	e.mu.Unlock()
	if bad {
		// an undeliverable record costs its timeout (an instantaneous failure would let the provider's
		// retries spin without the clock ever advancing)
		select {
		case <-time.After(10 * time.Second):
		case <-ctx.Done():
		}
		return errors.New("sim: unreachable")
	}
	e.mu.Lock()
	defer e.mu.Unlock()
	pi := e.peerIdx[p]
	ki, known := e.keyIdx[string(m.GetKey())]
	if !known {
		ki = 0
	}
	if !e.online || !e.swarm[pi] {
		e.tr.Add("SendFail", "k", ki, "p", pi, "ts", e.now())
		return errors.New("sim: unreachable")
	}
	// exactly the node's current addresses (byte for byte, any order)
	addrsOK := len(m.GetProviderPeers()) == 1 && peer.ID(m.GetProviderPeers()[0].GetId()) == e.self && len(m.GetProviderPeers()[0].GetAddrs()) == len(e.addrs)
	if addrsOK {
		have := map[string]bool{}
		for _, a := range m.GetProviderPeers()[0].GetAddrs() {
			have[string(a)] = true
		}
		for _, a := range e.addrs {
			if !have[string(a.Bytes())] {
				addrsOK = false
			}
		}
	}
	near := e.nearest(kadOf(m.GetKey()), e.sc.R)
	isNear := false
	for _, x := range near {
		if x == pi {
			isNear = true
		}
	}
	if os.Getenv("VERIF_SW_DEBUG") != "" {
		kid := kadOf(m.GetKey())
		pid := kadOf([]byte(p))
		fmt.Fprintf(os.Stderr, "SEND ts=%d k=%d %08b%08b -> p=%d %08b%08b near=%v nearest=%v\n", e.now(), ki, kid[0], kid[1], pi, pid[0], pid[1], isNear, near)
	}
	e.tr.Add("Send", "k", ki, "p", pi, "ts", e.now(), "typ", m.GetType().String(), "addrsok", addrsOK, "near", isNear)
	return nil
}

func runSW(t *testing.T, sc *SWScenario) (evs []sim.Ev) {
	dl := runBubble(t, func(t *testing.T) { evs = runSWInBubble(t, sc) })
	if dl != "" {
		evs = append(evs, sim.Ev{"e": "Stuck", "what": "deadlock"}, sim.Ev{"e": "End"})
	}
	return evs
}

type swProvider interface {
	StartProviding(force bool, keys ...mh.Multihash) error
	ProvideOnce(keys ...mh.Multihash) error
	StopProviding(keys ...mh.Multihash) error
	Close() error
}

func runSWInBubble(t *testing.T, sc *SWScenario) []sim.Ev {
	r := rand.New(rand.NewSource(sc.Seed))
	// the provider draws random keys (network size estimation) from crypto/rand: make that
	// stream a function of the scenario so that a run can be repeated
	oldReader := crand.Reader
	crand.Reader = sim.SeededReader(sc.Seed ^ 0x5eed)
	defer func() { crand.Reader = oldReader }()
	e := &swEnv{sc: sc, peerIdx: map[peer.ID]int{}, keyIdx: map[string]int{}, swarm: map[int]bool{}, online: true, start: time.Now(), tr: &sim.Trace{}}
	e.self = sim.NewPeerID(r)
	e.addrs = []ma.Multiaddr{sim.DefaultAddr(0)}
	for i := 1; i <= sc.NPeers; i++ {
		p := sim.NewPeerID(r)
		e.peers = append(e.peers, p)
		e.peerIdx[p] = i
	}
	for _, i := range sc.Initial {
		e.swarm[i] = true
	}
	for i := 1; i <= sc.NKeys; i++ {
		b := make([]byte, 32)
		r.Read(b)
		h, _ := mh.Encode(b, mh.SHA2_256)
		e.keys = append(e.keys, h)
		e.keyIdx[string(h)] = i
	}
	// the library reports where its swarm exploration stops early (two lookups in a row without a new peer):
	// logged with the keys under the explored prefix, whose recipients are then judged under the known finding
	sweepSetHook(func(point, prefix string) {
		// explore:gaveup   the exploration of prefix ended early
		// schedule:subsume prefix enters the schedule (not after a reprovide) and replaces the longer prefixes under it
		ev := map[string]string{"explore:gaveup": "GaveUp", "schedule:subsume": "Merged"}[point]
		if ev == "" {
			return
		}
		under := []int{}
		for i := range e.keys {
			kid := kadOf(e.keys[i])
			match := true
			for b := 0; b < len(prefix); b++ {
				if (kid[b/8]>>(7-uint(b%8)))&1 != prefix[b]-'0' {
					match = false
					break
				}
			}
			if match {
				under = append(under, i+1)
			}
		}
		e.mu.Lock()
		if e.begun {
			e.tr.Add(ev, "prefix", prefix, "keys", sim.Ints(under), "ts", e.now())
		}
		e.mu.Unlock()
	})
	defer sweepSetHook(nil)
	dstore := dssync.MutexWrap(ds.NewMapDatastore())
	ksDS := dssync.MutexWrap(ds.NewMapDatastore())
	bufDS := dssync.MutexWrap(ds.NewMapDatastore()) // the buffered wrapper's queue survives a restart, like the other stores
	var ks keystore.Keystore
	var prov swProvider
	var inner *provider.SweepingProvider
	build := func(resume bool) error {
		var err error
		ks, err = keystore.NewKeystore(ksDS)
		if err != nil {
			return err
		}
		inner, err = provider.New(
			provider.WithPeerID(e.self), provider.WithRouter(e), provider.WithMessageSender(e),
			provider.WithSelfAddrs(func() []ma.Multiaddr { e.mu.Lock(); defer e.mu.Unlock(); return e.addrs }),
			provider.WithReplicationFactor(sc.R),
			provider.WithReprovideInterval(time.Duration(sc.Interval)*time.Minute),
			provider.WithMaxReprovideDelay(time.Duration(sc.MaxDelay)*time.Minute),
			provider.WithMaxWorkers(sc.Workers), provider.WithDedicatedBurstWorkers(1), provider.WithDedicatedPeriodicWorkers(1),
			provider.WithOfflineDelay(30*time.Minute), provider.WithConnectivityCheckOnlineInterval(time.Minute),
			provider.WithKeystore(ks), provider.WithDatastore(dstore), provider.WithResumeCycle(resume),
		)
		if err != nil {
			return err
		}
		prov = inner
		if sc.Buffered {
			prov = buffered.New(inner, bufDS)
		}
		return nil
	}
	if err := build(false); err != nil {
		t.Fatalf("provider.New: %v", err)
	}
	add := func(ev string, kv ...any) { e.mu.Lock(); e.tr.Add(ev, kv...); e.mu.Unlock() }
	// what the provider itself reports: online | disconnected | offline, and the number of keys waiting to be provided
	state := func() (string, int) {
		st, err := inner.Stats(context.Background())
		if err != nil || st.Closed {
			return "closed", 0
		}
		return st.Connectivity.Status, int(st.Queues.PendingKeyProvides)
	}
	nearestOf := func() []any {
		// the r nearest peers of every key in the current swarm (independent computation)
		out := []any{}
		for i := range e.keys {
			out = append(out, e.nearest(kadOf(e.keys[i]), sc.R))
		}
		return out
	}
	synctest.Wait()
	add("Reset", "r", sc.R, "K", sc.K, "npeers", sc.NPeers, "swarm", sim.Ints(sc.Initial), "nkeys", sc.NKeys, "interval", sc.Interval*60, "maxdelay", sc.MaxDelay*60,
		"workers", sc.Workers, "buffered", sc.Buffered, "nearest", nearestOf(), "ts", 0)
	e.mu.Lock()
	e.begun = true
	e.mu.Unlock()
	mhs := func(ix []int) []mh.Multihash {
		out := []mh.Multihash{}
		for _, i := range ix {
			out = append(out, e.keys[i-1])
		}
		return out
	}
	swarmList := func() []int {
		out := []int{}
		for i := range e.swarm {
			out = append(out, i)
		}
		sort.Ints(out)
		return out
	}
	for _, op := range sc.Ops {
		switch op.Kind {
		case "start":
			add("Start", "keys", sim.Ints(op.Keys), "ts", e.now())
			err := prov.StartProviding(false, mhs(op.Keys)...)
			st, _ := state()
			add("OpResult", "op", "start", "err", errS(err), "ts", e.now(), "state", st, "keys", sim.Ints(op.Keys))
		case "once":
			add("Once", "keys", sim.Ints(op.Keys), "ts", e.now())
			err := prov.ProvideOnce(mhs(op.Keys)...)
			st, _ := state()
			add("OpResult", "op", "once", "err", errS(err), "ts", e.now(), "state", st, "keys", sim.Ints(op.Keys))
		case "stop":
			add("Stop", "keys", sim.Ints(op.Keys), "ts", e.now())
			err := prov.StopProviding(mhs(op.Keys)...)
			add("OpResult", "op", "stop", "err", errS(err), "ts", e.now())
		case "advance":
			time.Sleep(time.Duration(op.Mins) * time.Minute)
		case "join":
			synctest.Wait()
			e.mu.Lock()
			for _, p := range op.Peers {
				e.swarm[p] = true
			}
			e.tr.Add("Swarm", "swarm", swarmList(), "nearest", nearestOf(), "ts", e.now())
			e.mu.Unlock()
		case "leave":
			synctest.Wait()
			e.mu.Lock()
			for _, p := range op.Peers {
				if len(e.swarm) > sc.R+1 {
					delete(e.swarm, p)
				}
			}
			e.tr.Add("Swarm", "swarm", swarmList(), "nearest", nearestOf(), "ts", e.now())
			e.mu.Unlock()
		case "addrs":
			// the node's addresses change (Mins selects the new set: one to three addresses)
			synctest.Wait()
			e.mu.Lock()
			e.addrs = nil
			for j := 0; j <= op.Mins%3; j++ {
				e.addrs = append(e.addrs, sim.DefaultAddr(100*op.Mins+j))
			}
			e.tr.Add("Addrs", "n", len(e.addrs), "ts", e.now())
			e.mu.Unlock()
		case "offline":
			synctest.Wait()
			e.mu.Lock()
			e.online = false
			e.tr.Add("Offline", "ts", e.now())
			e.mu.Unlock()
		case "online":
			synctest.Wait()
			st, _ := state()
			e.mu.Lock()
			e.online = true
			e.tr.Add("Online", "ts", e.now(), "state", st)
			e.mu.Unlock()
		case "failsend":
			synctest.Wait()
			e.mu.Lock()
			e.sendBad = true
			e.tr.Add("FailSend", "ts", e.now())
			e.mu.Unlock()
		case "healsend":
			synctest.Wait()
			e.mu.Lock()
			e.sendBad = false
			e.tr.Add("HealSend", "ts", e.now())
			e.mu.Unlock()
		case "swapheal":
			// The unreachable swarm is replaced by a disjoint reachable one in one instant. Every attempt
			// begun before this instant allocated unreachable peers only and fails as a whole (sends to peers
			// that left fail too), every attempt begun afterwards succeeds as a whole: no advertisement is
			// half delivered, so what the library owes afterwards is unambiguous.
			synctest.Wait()
			e.mu.Lock()
			e.swarm = map[int]bool{}
			for _, p := range op.Peers {
				e.swarm[p] = true
			}
			e.sendBad = false
			e.tr.Add("Swarm", "swarm", swarmList(), "nearest", nearestOf(), "ts", e.now())
			e.tr.Add("HealSend", "ts", e.now())
			e.mu.Unlock()
		case "restart":
			synctest.Wait()
			st, queued := state()
			add("Restart", "ts", e.now(), "state", st, "queued", queued)
			_ = prov.Close()
			_ = ks.Close()
			if err := build(true); err != nil {
				add("OpResult", "op", "restart", "err", errS(err), "ts", e.now())
			}
		case "settle":
			synctest.Wait()
			e.mu.Lock()
			e.tr.Add("Settle", "ts", e.now(), "online", e.online, "nearest", nearestOf())
			e.mu.Unlock()
		}
	}
	synctest.Wait()
	e.mu.Lock()
	e.tr.Add("Settle", "ts", e.now(), "online", e.online, "nearest", nearestOf())
	e.mu.Unlock()
	closed := make(chan struct{})
	go func() { _ = prov.Close(); _ = ks.Close(); close(closed) }()
	select {
	case <-closed:
	case <-time.After(time.Hour):
		add("Stuck", "what", "close")
	}
	synctest.Wait()
	add("End")
	return e.tr.Events
}

func genSWScenario(r *rand.Rand) *SWScenario {
	sc := &SWScenario{Seed: r.Int63(), R: 1 + r.Intn(3), K: 20, NPeers: 6 + r.Intn(60), NKeys: 1 + r.Intn(12),
		Interval: []int{60, 120, 240}[r.Intn(3)], Workers: 2 + r.Intn(4), Buffered: r.Intn(4) == 0}
	sc.MaxDelay = sc.Interval / 4
	// the router is the DHT's closest-peers lookup: it returns replication-factor many peers
	sc.R = 2 + r.Intn(4)
	if os.Getenv("VERIF_SW_BIGR") != "" {
		sc.R = 20
		sc.NPeers = 100 + r.Intn(100)
	}
	sc.K = sc.R
	for i := 1; i <= sc.NPeers; i++ {
		if r.Intn(3) != 0 || i <= sc.R+2 {
			sc.Initial = append(sc.Initial, i)
		}
	}
	keys := func() []int {
		out := []int{}
		for i := 1; i <= sc.NKeys; i++ {
			if r.Intn(2) == 0 {
				out = append(out, i)
			}
		}
		if len(out) == 0 {
			out = []int{1 + r.Intn(sc.NKeys)}
		}
		return out
	}
	somePeers := func() []int {
		out := []int{}
		for j := 0; j < 1+r.Intn(5); j++ {
			out = append(out, 1+r.Intn(sc.NPeers))
		}
		return out
	}
	sc.Ops = append(sc.Ops, SWOp{Kind: "advance", Mins: 5}, SWOp{Kind: "settle"})
	n := 6 + r.Intn(14)
	for i := 0; i < n; i++ {
		switch x := r.Intn(20); {
		case x < 4:
			sc.Ops = append(sc.Ops, SWOp{Kind: "start", Keys: keys()})
		case x < 6:
			sc.Ops = append(sc.Ops, SWOp{Kind: "once", Keys: keys()})
		case x < 8:
			sc.Ops = append(sc.Ops, SWOp{Kind: "stop", Keys: keys()})
		case x < 13:
			sc.Ops = append(sc.Ops, SWOp{Kind: "advance", Mins: []int{1, 10, sc.Interval / 2, sc.Interval, 2 * sc.Interval}[r.Intn(5)]}, SWOp{Kind: "settle"})
		case x < 15:
			sc.Ops = append(sc.Ops, SWOp{Kind: "join", Peers: somePeers()})
		case x < 17:
			sc.Ops = append(sc.Ops, SWOp{Kind: "leave", Peers: somePeers()})
		case x < 18:
			sc.Ops = append(sc.Ops, SWOp{Kind: "offline"}, SWOp{Kind: "advance", Mins: []int{5, 45, sc.Interval}[r.Intn(3)]})
			if r.Intn(2) == 0 {
				// things happen during the outage: the swarm shrinks (the node will measure a shorter prefix length when
				// it is back), keys are handed over (queued while merely disconnected; kept for their regular slot, or
				// - provide-once - dropped, once the node has declared itself offline)
				if r.Intn(2) == 0 {
					gone := []int{}
					for p := 1; p <= sc.NPeers; p++ {
						if r.Intn(2) == 0 {
							gone = append(gone, p)
						}
					}
					sc.Ops = append(sc.Ops, SWOp{Kind: "leave", Peers: gone})
				}
				sc.Ops = append(sc.Ops, SWOp{Kind: []string{"start", "start", "once"}[r.Intn(3)], Keys: keys()}, SWOp{Kind: "advance", Mins: 3})
			}
			sc.Ops = append(sc.Ops, SWOp{Kind: "online"}, SWOp{Kind: "advance", Mins: 10}, SWOp{Kind: "settle"})
		case x < 19 && r.Intn(2) == 0 && os.Getenv("VERIF_SW_FAILSEND") != "":
			// (not generated by default: what is owed after partially failed deliveries could not be pinned down, DESIGN.md)
			// provider records cannot be delivered for a while although lookups work
			sc.Ops = append(sc.Ops, SWOp{Kind: "failsend"}, SWOp{Kind: []string{"start", "once"}[r.Intn(2)], Keys: keys()}, SWOp{Kind: "advance", Mins: 2},
				SWOp{Kind: "healsend"}, SWOp{Kind: "advance", Mins: 12}, SWOp{Kind: "settle"})
		case x < 19:
			sc.Ops = append(sc.Ops, SWOp{Kind: "restart"}, SWOp{Kind: "advance", Mins: 10}, SWOp{Kind: "settle"})
		default:
			if os.Getenv("VERIF_SW_NOADDRS") == "" {
				sc.Ops = append(sc.Ops, SWOp{Kind: "addrs", Mins: 1 + r.Intn(50)})
			}
			sc.Ops = append(sc.Ops, SWOp{Kind: "settle"})
		}
	}
	sc.Ops = append(sc.Ops, SWOp{Kind: "advance", Mins: 2*sc.Interval + sc.MaxDelay + 10}, SWOp{Kind: "settle"})
	return sc
}

// genSWGrowth: many keys, the swarm grows (regions split) or shrinks (regions merge) threefold between cycles,
// more keys are started afterwards, several cycles follow; no outage, no restart.
func genSWGrowth(r *rand.Rand) *SWScenario {
	sc := &SWScenario{Seed: r.Int63(), R: 2 + r.Intn(3), NPeers: 40 + r.Intn(50), NKeys: 16 + r.Intn(16), Interval: 60, Workers: 3 + r.Intn(3)}
	sc.K = sc.R
	sc.MaxDelay = 15
	half := sc.NPeers / 3
	for i := 1; i <= half; i++ {
		sc.Initial = append(sc.Initial, i)
	}
	first, second := []int{}, []int{}
	for k := 1; k <= sc.NKeys; k++ {
		if r.Intn(2) == 0 {
			first = append(first, k)
		} else {
			second = append(second, k)
		}
	}
	rest := []int{}
	for i := half + 1; i <= sc.NPeers; i++ {
		rest = append(rest, i)
	}
	sc.Ops = []SWOp{{Kind: "advance", Mins: 5}, {Kind: "settle"}, {Kind: "start", Keys: first}, {Kind: "advance", Mins: 70}, {Kind: "settle"},
		{Kind: "join", Peers: rest[:len(rest)/2]}, {Kind: "advance", Mins: 70}, {Kind: "settle"},
		{Kind: "join", Peers: rest[len(rest)/2:]}, {Kind: "advance", Mins: 70}, {Kind: "settle"},
		{Kind: "start", Keys: second}, {Kind: "advance", Mins: 15}, {Kind: "settle"}}
	if r.Intn(2) == 0 {
		// the mirror image: the swarm shrinks to a third between cycles (regions merge)
		sc.Initial = nil
		for i := 1; i <= sc.NPeers; i++ {
			sc.Initial = append(sc.Initial, i)
		}
		sc.Ops[5].Kind, sc.Ops[8].Kind = "leave", "leave"
	}
	for i := 0; i < 5; i++ {
		sc.Ops = append(sc.Ops, SWOp{Kind: "advance", Mins: 65}, SWOp{Kind: "settle"})
	}
	return sc
}

// genSWOutage: provider records cannot be delivered to anybody for a while although lookups work (every
// peer of the swarm is unreachable for ADD_PROVIDER); keys are handed over and reprovides fall due in that
// window; then the swarm is replaced by a reachable one. Everything owed has to be delivered afterwards.
func genSWOutage(r *rand.Rand) *SWScenario {
	sc := &SWScenario{Seed: r.Int63(), R: 2 + r.Intn(3), NPeers: 16 + r.Intn(40), NKeys: 6 + r.Intn(20), Interval: []int{60, 120}[r.Intn(2)], Workers: 2 + r.Intn(4), Buffered: r.Intn(4) == 0}
	sc.K = sc.R
	sc.MaxDelay = sc.Interval / 4
	half := sc.NPeers / 2
	second := []int{}
	for i := 1; i <= sc.NPeers; i++ {
		if i <= half {
			sc.Initial = append(sc.Initial, i)
		} else {
			second = append(second, i)
		}
	}
	var before, during, once []int
	for k := 1; k <= sc.NKeys; k++ {
		switch r.Intn(4) {
		case 0:
			before = append(before, k)
		case 1, 2:
			during = append(during, k)
		default:
			once = append(once, k)
		}
	}
	sc.Ops = []SWOp{{Kind: "advance", Mins: 5}, {Kind: "settle"}}
	if len(before) > 0 {
		sc.Ops = append(sc.Ops, SWOp{Kind: "start", Keys: before}, SWOp{Kind: "advance", Mins: []int{3, sc.Interval - 3, sc.Interval + 20}[r.Intn(3)]}, SWOp{Kind: "settle"})
	}
	sc.Ops = append(sc.Ops, SWOp{Kind: "failsend"})
	if len(during) > 0 {
		sc.Ops = append(sc.Ops, SWOp{Kind: "start", Keys: during})
	}
	if len(once) > 0 {
		if r.Intn(2) == 0 {
			sc.Ops = append(sc.Ops, SWOp{Kind: "advance", Mins: 1})
		}
		sc.Ops = append(sc.Ops, SWOp{Kind: "once", Keys: once})
	}
	sc.Ops = append(sc.Ops, SWOp{Kind: "advance", Mins: []int{1, 4, 12}[r.Intn(3)]}, SWOp{Kind: "swapheal", Peers: second},
		SWOp{Kind: "advance", Mins: 12}, SWOp{Kind: "settle"})
	for i := 0; i < 3; i++ {
		sc.Ops = append(sc.Ops, SWOp{Kind: "advance", Mins: sc.Interval/2 + r.Intn(sc.Interval)}, SWOp{Kind: "settle"})
	}
	return sc
}

// genSWOfflineStart: a large swarm (long scheduled prefixes), keys in some regions; the node loses connectivity for
// longer than the offline delay, the swarm shrinks to a third meanwhile, keys are started while the node is offline;
// connectivity returns (a shorter prefix length is measured, the schedule is refreshed from the keystore) and
// several cycles follow: every key started while offline has to be advertised at its regular slot at the latest.
func genSWOfflineStart(r *rand.Rand) *SWScenario {
	sc := &SWScenario{Seed: r.Int63(), R: 2 + r.Intn(3), NPeers: 40 + r.Intn(50), NKeys: 12 + r.Intn(16), Interval: 60, Workers: 3 + r.Intn(3)}
	sc.K = sc.R
	sc.MaxDelay = 15
	for i := 1; i <= sc.NPeers; i++ {
		sc.Initial = append(sc.Initial, i)
	}
	first, second := []int{}, []int{}
	for k := 1; k <= sc.NKeys; k++ {
		if r.Intn(3) == 0 {
			first = append(first, k)
		} else {
			second = append(second, k)
		}
	}
	if len(first) == 0 {
		first, second = second[:1], second[1:]
	}
	gone := []int{}
	for p := 1; p <= sc.NPeers; p++ {
		if r.Intn(3) != 0 {
			gone = append(gone, p)
		}
	}
	sc.Ops = []SWOp{{Kind: "advance", Mins: 5}, {Kind: "settle"}, {Kind: "start", Keys: first}, {Kind: "advance", Mins: 70}, {Kind: "settle"},
		{Kind: "offline"}, {Kind: "advance", Mins: 45}, {Kind: "leave", Peers: gone}, {Kind: "start", Keys: second}, {Kind: "advance", Mins: 3},
		{Kind: "online"}, {Kind: "advance", Mins: 10}, {Kind: "settle"}}
	for i := 0; i < 4; i++ {
		sc.Ops = append(sc.Ops, SWOp{Kind: "advance", Mins: 65}, SWOp{Kind: "settle"})
	}
	return sc
}

// genSWRestart: work is still waiting when the provider is closed - keys handed over while the node had lost
// connectivity for a few minutes (less than the offline delay), or while provider records could not be
// delivered - and the provider is restarted with the same datastores; connectivity / delivery is back at the
// restart or shortly afterwards. What was waiting has to be advertised.
func genSWRestart(r *rand.Rand) *SWScenario {
	sc := &SWScenario{Seed: r.Int63(), R: 2 + r.Intn(3), NPeers: 16 + r.Intn(40), NKeys: 6 + r.Intn(14), Interval: []int{60, 120}[r.Intn(2)], Workers: 2 + r.Intn(4), Buffered: r.Intn(4) == 0}
	sc.K = sc.R
	sc.MaxDelay = sc.Interval / 4
	half := sc.NPeers / 2
	second := []int{}
	for i := 1; i <= sc.NPeers; i++ {
		if i <= half {
			sc.Initial = append(sc.Initial, i)
		} else {
			second = append(second, i)
		}
	}
	var before, during, once []int
	for k := 1; k <= sc.NKeys; k++ {
		switch r.Intn(4) {
		case 0:
			before = append(before, k)
		case 1, 2:
			during = append(during, k)
		default:
			once = append(once, k)
		}
	}
	sc.Ops = []SWOp{{Kind: "advance", Mins: 5}, {Kind: "settle"}}
	if len(before) > 0 {
		sc.Ops = append(sc.Ops, SWOp{Kind: "start", Keys: before}, SWOp{Kind: "advance", Mins: []int{3, sc.Interval / 2, sc.Interval + 20}[r.Intn(3)]}, SWOp{Kind: "settle"})
	}
	delivery := r.Intn(2) == 0
	if delivery {
		sc.Ops = append(sc.Ops, SWOp{Kind: "failsend"})
	} else {
		// the connectivity check runs every minute while online: after three minutes the provider knows
		sc.Ops = append(sc.Ops, SWOp{Kind: "offline"}, SWOp{Kind: "advance", Mins: 3})
	}
	if len(during) > 0 {
		sc.Ops = append(sc.Ops, SWOp{Kind: "start", Keys: during})
	}
	if len(once) > 0 {
		sc.Ops = append(sc.Ops, SWOp{Kind: "once", Keys: once})
	}
	sc.Ops = append(sc.Ops, SWOp{Kind: "advance", Mins: []int{0, 1, 6}[r.Intn(3)]})
	back := SWOp{Kind: "online"}
	if delivery {
		back = SWOp{Kind: "swapheal", Peers: second}
	}
	switch r.Intn(3) {
	case 0:
		sc.Ops = append(sc.Ops, back, SWOp{Kind: "restart"})
	case 1:
		sc.Ops = append(sc.Ops, SWOp{Kind: "restart"}, back)
	default:
		sc.Ops = append(sc.Ops, SWOp{Kind: "restart"}, SWOp{Kind: "advance", Mins: 2}, back)
	}
	sc.Ops = append(sc.Ops, SWOp{Kind: "advance", Mins: 12}, SWOp{Kind: "settle"})
	for i := 0; i < 3; i++ {
		sc.Ops = append(sc.Ops, SWOp{Kind: "advance", Mins: sc.Interval/2 + r.Intn(sc.Interval)}, SWOp{Kind: "settle"})
	}
	return sc
}

func TestSweepChild(t *testing.T) {
	childMain(t, func(idx int, raw json.RawMessage, progress func(any)) any {
		var sc SWScenario
		if err := json.Unmarshal(raw, &sc); err != nil {
			t.Fatal(err)
		}
		return runSW(t, &sc)
	})
}

func TestSweep(t *testing.T) {
	e := getEnv(t)
	rec := newRecorder(t, e, "sweep", "one run per (replication factor, router width, swarm, keys, interval, workers, wrapper, history of start/once/stop, swarm changes, outages, restarts and time); distinct by event sequence")
	defer rec.Close(t, e)
	var scs []*SWScenario
	if e.Replay != "" {
		var wrap struct {
			Replay struct {
				Scenario *SWScenario `json:"scenario"`
			} `json:"replay"`
		}
		if err := readJSON(e.Replay, &wrap); err != nil {
			t.Fatal(err)
		}
		// the library's own scheduling is not fully repeatable: the scenario is run several times
		scs = []*SWScenario{wrap.Replay.Scenario, wrap.Replay.Scenario, wrap.Replay.Scenario, wrap.Replay.Scenario}
	} else {
		r := rand.New(rand.NewSource(e.Seed))
		n := 400
		if e.Tier == "thorough" {
			n = 8000
		}
		if e.Budget > 0 {
			n = e.Budget
		}
		for i := 0; i < n; i++ {
			if i%5 == 4 {
				scs = append(scs, genSWGrowth(r))
			} else if i%5 == 2 && os.Getenv("VERIF_SW_NOOUTAGE") == "" {
				scs = append(scs, genSWOutage(r))
			} else if i%10 == 6 && os.Getenv("VERIF_SW_NORESTART") == "" {
				scs = append(scs, genSWRestart(r))
			} else if i%10 == 8 {
				scs = append(scs, genSWOfflineStart(r))
			} else {
				scs = append(scs, genSWScenario(r))
			}
		}
	}
	results := runChildren(t, e, "TestSweepChild", scs, len(scs), 12, func(idx int, _ json.RawMessage, output string, stalled bool) any {
		what := "crashed: " + crashLine(output)
		if stalled {
			// A goroutine waiting for a mutex whose holder waits for a timer keeps the bubble's clock from
			// advancing: an artefact of virtual time, not a defect of the provider. The run is dropped.
			return []sim.Ev{}
		}
		return []sim.Ev{{"e": "Reset", "r": scs[idx].R, "K": scs[idx].K, "npeers": scs[idx].NPeers, "swarm": []int{}, "nkeys": scs[idx].NKeys,
			"interval": scs[idx].Interval * 60, "maxdelay": scs[idx].MaxDelay * 60, "workers": scs[idx].Workers, "buffered": scs[idx].Buffered,
			"nearest": make([][]int, scs[idx].NKeys), "ts": 0},
			{"e": "Stuck", "what": what}, {"e": "End"}}
	})
	for i, raw := range results {
		var evs []sim.Ev
		if raw == nil || json.Unmarshal(raw, &evs) != nil || evs == nil {
			rec.Count("skipped_after_stalls", 1)
			continue
		}
		if len(evs) == 0 {
			rec.Count("dropped_clock_stalled", 1)
			continue
		}
		rec.Record(evs, map[string]any{"scenario": scs[i]}, true)
		rec.Count("runs", 1)
	}
	_ = fmt.Sprint
}
