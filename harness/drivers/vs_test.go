package drivers

import (
	"context"
	"fmt"
	"math/rand"
	"runtime"
	"strings"
	"testing"
	"time"

	ds "github.com/ipfs/go-datastore"
	dssync "github.com/ipfs/go-datastore/sync"
	dht "github.com/libp2p/go-libp2p-kad-dht"
	pb "github.com/libp2p/go-libp2p-kad-dht/pb"
	"github.com/libp2p/go-libp2p-kad-dht/records"
	recpb "github.com/libp2p/go-libp2p-record/pb"
	"github.com/libp2p/go-libp2p/core/host"
	"github.com/libp2p/go-libp2p/core/peer"
	"github.com/libp2p/go-libp2p/core/protocol"
	"github.com/libp2p/go-libp2p/core/routing"
	ma "github.com/multiformats/go-multiaddr"
	"google.golang.org/protobuf/proto"

	"verifharness/sim"
)

// VSActor is one concurrent user of the node's value store.
type VSActor struct {
	Kind   string `json:"kind"`   // putvalue (local) | putrpc (remote PUT_VALUE) | getrpc (remote GET_VALUE) | getlocal
	Key    int    `json:"key"`    // index into Keys
	Val    string `json:"val"`    // value for puts
	RecKey int    `json:"reckey"` // putrpc: index of the key embedded in the record (-1 = same as Key)
	Stamp  int    `json:"stamp"`  // putrpc: the receive time the sender wrote into the record: 0 none | 1 well-formed, far future | 2 well-formed, long ago | 3 not a time
}

// VSScenario: a node's value store, initial content, concurrent actors.
type VSScenario struct {
	Seed   int64     `json:"seed"`
	NKeys  int       `json:"nkeys"`
	Init   []string  `json:"init"` // per key: "" | "V2" | "V2:old" (valid but older than MaxAge) | "corrupt" | "misfiled" | "I1" (invalid by now)
	Actors []VSActor `json:"actors"`
	Sweep  bool      `json:"sweep"`  // a GC sweep starts before the actors
	MaxAge int       `json:"maxage"` // seconds
	// time mode: the actors run one after the other and the clock is advanced between them
	Seq     bool  `json:"seq"`
	Advance []int `json:"advance"` // seconds to advance before actor i (Seq mode)
}

var vsProto = protocol.ID("/verifvs/kad/1.0.0")

// keys 0 and 1 share a stripe lock (same last byte), key 2 does not
func vsKey(i int) string { return []string{"/v/a-1", "/v/b-1", "/v/c-2", "/v/d-2"}[i] }

type vsEnv struct {
	sc     *VSScenario
	tr     *sim.Trace
	start  time.Time
	inner  ds.Batching
	gds    *sim.GateDS
	gate   *sim.Gate
	actors *sim.Actors
	dskeys map[string]int // datastore key -> key index
	d      *dht.IpfsDHT
	host   *sim.FakeHost
	remote peer.ID
}

func (e *vsEnv) now() int { return int(time.Since(e.start) / time.Millisecond) }

// describe a stored byte string as the abstract record the spec talks about
func (e *vsEnv) recInfo(k int, b []byte) (class string, rank int, stamp int) {
	rec := new(recpb.Record)
	if b == nil {
		return "none", -1, 0
	}
	if err := proto.Unmarshal(b, rec); err != nil || len(rec.GetKey()) == 0 {
		return "corrupt", -1, 0
	}
	if k >= 0 && string(rec.GetKey()) != vsKey(k) {
		return "misfiled", -1, 0
	}
	ok, r := valRank(rec.GetValue())
	ts, err := time.Parse(time.RFC3339Nano, rec.GetTimeReceived())
	st := -1
	if err == nil {
		st = int(ts.Sub(e.start) / time.Millisecond)
	}
	if !ok {
		return "invalid", r, st
	}
	return "valid", r, st
}

func runVS(t *testing.T, sc *VSScenario, ch sim.Chooser) (evs []sim.Ev) {
	dl := runBubble(t, func(t *testing.T) { evs = runVSInBubble(t, sc, ch) })
	if dl != "" {
		end := evs[len(evs)-1]
		evs = append(evs[:len(evs)-1], sim.Ev{"e": "Stuck", "msg": dl, "ts": end["ts"]}, end)
	}
	return evs
}

func runVSInBubble(t *testing.T, sc *VSScenario, ch sim.Chooser) []sim.Ev {
	r := rand.New(rand.NewSource(sc.Seed))
	e := &vsEnv{sc: sc, tr: &sim.Trace{}, start: time.Now(), gate: &sim.Gate{}, actors: sim.NewActors(), dskeys: map[string]int{}}
	tr := e.tr
	e.inner = dssync.MutexWrap(ds.NewMapDatastore())
	maxAge := time.Duration(sc.MaxAge) * time.Second

	// plant the initial content through a permissive store on the inner datastore
	plant := records.NewValueStore(e.inner, anyValidator{}, 0)
	bg := context.Background()
	for k := 0; k < sc.NKeys; k++ {
		// discover the datastore key of k by planting a probe record
		_ = plant.Put(bg, vsKey(k), &recpb.Record{Key: []byte(vsKey(k)), Value: []byte("V0")})
	}
	res, _ := e.inner.Query(bg, dsqAll())
	ents, _ := res.Rest()
	for _, en := range ents {
		rec := new(recpb.Record)
		if proto.Unmarshal(en.Value, rec) == nil {
			for k := 0; k < sc.NKeys; k++ {
				if string(rec.GetKey()) == vsKey(k) {
					e.dskeys[en.Key] = k
				}
			}
		}
		_ = e.inner.Delete(bg, ds.RawKey(en.Key))
	}
	dsKeyOf := func(k int) ds.Key {
		for s, i := range e.dskeys {
			if i == k {
				return ds.RawKey(s)
			}
		}
		panic("no dskey")
	}
	// old records first, then let them age
	anyOld := false
	for k, in := range sc.Init {
		if strings.HasSuffix(in, ":old") {
			_ = plant.Put(bg, vsKey(k), &recpb.Record{Key: []byte(vsKey(k)), Value: []byte(strings.TrimSuffix(in, ":old"))})
			anyOld = true
		}
	}
	if anyOld {
		time.Sleep(maxAge + time.Second)
	}
	for k, in := range sc.Init {
		switch {
		case in == "" || strings.HasSuffix(in, ":old"):
		case in == "corrupt":
			_ = e.inner.Put(bg, dsKeyOf(k), []byte{0xff, 0xff, 0xff, 0x01})
		case in == "misfiled":
			b, _ := proto.Marshal(&recpb.Record{Key: []byte("/v/elsewhere"), Value: []byte("V3"), TimeReceived: time.Now().UTC().Format(time.RFC3339Nano)})
			_ = e.inner.Put(bg, dsKeyOf(k), b)
		default:
			_ = plant.Put(bg, vsKey(k), &recpb.Record{Key: []byte(vsKey(k)), Value: []byte(in)})
		}
	}
	initDesc := []any{}
	for k := 0; k < sc.NKeys; k++ {
		b, err := e.inner.Get(bg, dsKeyOf(k))
		if err != nil {
			b = nil
		}
		c, rk, st := e.recInfo(k, b)
		initDesc = append(initDesc, map[string]any{"class": c, "rank": rk, "stamp": st})
	}

	e.gds = &sim.GateDS{Inner: e.inner, G: e.gate}
	e.gds.ActorOf = func() string {
		if n := e.actors.Name(); n != "" {
			return n
		}
		if sim.OwnStackHas("ValueStore).gcLoop") {
			return "sweeper"
		}
		return ""
	}
	e.gds.OnApply = func(op *sim.DSOp) {
		k, ok := e.dskeys[op.Key]
		if !ok {
			k = -1
		}
		switch op.Op {
		case "put":
			if k < 0 {
				// a value record under a key the scenario does not know: report it as such
				c, rk, st := e.recInfo(-1, op.Value)
				tr.Add("DS", "actor", op.Actor, "op", "put", "k", -1, "class", c, "rank", rk, "stamp", st, "found", false, "ts", e.now())
				return
			}
			c, rk, st := e.recInfo(k, op.Value)
			tr.Add("DS", "actor", op.Actor, "op", "put", "k", k, "class", c, "rank", rk, "stamp", st, "found", false, "ts", e.now())
		case "delete":
			tr.Add("DS", "actor", op.Actor, "op", "delete", "k", k, "class", "none", "rank", -1, "stamp", 0, "found", op.Found, "ts", e.now())
		case "get":
			c, rk, st := e.recInfo(k, op.Got)
			tr.Add("DS", "actor", op.Actor, "op", "get", "k", k, "class", c, "rank", rk, "stamp", st, "found", op.Found, "ts", e.now())
		}
	}

	self := sim.NewPeerID(r)
	e.remote = sim.NewPeerID(r)
	e.host = sim.NewFakeHost(self, []ma.Multiaddr{sim.DefaultAddr(0)})
	e.host.Dial = func(ctx context.Context, p peer.ID) error { return fmt.Errorf("sim: no network") }
	d, err := dht.New(e.host,
		dht.ProtocolPrefix("/verifvs"), dht.BucketSize(2), dht.DisableAutoRefresh(), dht.Mode(dht.ModeServer),
		dht.Validator(simValidator{}), dht.Datastore(e.gds),
		dht.ProviderDatastore(dssync.MutexWrap(ds.NewMapDatastore())),
		dht.MaxRecordAge(maxAge), dht.ValueGCInterval(time.Hour),
		dht.WithCustomMessageSender(func(h host.Host, _ []protocol.ID) pb.MessageSenderWithDisconnect {
			return &sim.GatedSender{G: &sim.Gate{}}
		}),
	)
	if err != nil {
		t.Fatalf("dht.New: %v", err)
	}
	e.d = d
	tr.Add("Reset", "nkeys", sc.NKeys, "init", initDesc, "maxage", sc.MaxAge*1000, "seq", sc.Seq, "ts", e.now())

	isSweeper := func(g sim.GInfo) bool {
		for _, f := range g.Frames {
			if strings.Contains(f, "ValueStore).gcLoop") {
				return true
			}
		}
		return false
	}
	settle := func() {
		if !e.actors.Settle(isSweeper) {
			tr.Add("Unsettled", "ts", e.now())
		}
	}

	if sc.Sweep {
		// the first tick of the value GC: the sweeper parks at its first datastore access
		time.Sleep(time.Hour + time.Second)
		settle()
		tr.Add("Tick", "ts", e.now())
	}

	runActor := func(i int, a VSActor) {
		name := fmt.Sprintf("a%d", i)
		body := func() {
			key := vsKey(a.Key)
			switch a.Kind {
			case "putvalue":
				err := d.PutValue(context.Background(), key, []byte(a.Val))
				cls := errClass(err)
				if err != nil && strings.Contains(err.Error(), "can't replace a newer value") {
					cls = "older"
				}
				if err != nil && strings.Contains(err.Error(), "old record") {
					cls = "older"
				}
				if err != nil && strings.Contains(err.Error(), "invalid") {
					cls = "invalid"
				}
				ok, rk := valRank([]byte(a.Val))
				tr.Add("Ret", "actor", name, "op", "putvalue", "k", a.Key, "err", cls, "class", clsOf(ok), "rank", rk, "ts", e.now())
			case "putrpc":
				rk := a.RecKey
				if rk < 0 {
					rk = a.Key
				}
				req := &pb.Message{Type: pb.Message_PUT_VALUE, Key: []byte(key),
					Record: &recpb.Record{Key: []byte(vsKey(rk)), Value: []byte(a.Val)}}
				// the receive-time field is the receiver's business: whatever the sender put there is replaced
				switch a.Stamp {
				case 1:
					req.Record.TimeReceived = time.Now().Add(1000 * time.Hour).UTC().Format(time.RFC3339Nano)
				case 2:
					req.Record.TimeReceived = time.Now().Add(-1000 * time.Hour).UTC().Format(time.RFC3339Nano)
				case 3:
					req.Record.TimeReceived = "yesterday"
				}
				rep, _ := e.host.ServeOnce(e.remote, sim.DefaultAddr(9), vsProto, sim.FrameMsg(req))
				acked := len(rep.Msgs) == 1 && !rep.Reset
				ok, rnk := valRank([]byte(a.Val))
				tr.Add("Ret", "actor", name, "op", "putrpc", "k", a.Key, "err", ackErr(acked), "class", clsOf(ok), "rank", rnk, "ts", e.now())
			case "getrpc":
				req := &pb.Message{Type: pb.Message_GET_VALUE, Key: []byte(key)}
				rep, _ := e.host.ServeOnce(e.remote, sim.DefaultAddr(9), vsProto, sim.FrameMsg(req))
				cls, rnk, st := "none", -1, 0
				if len(rep.Msgs) == 1 && rep.Msgs[0].GetRecord() != nil {
					b, _ := proto.Marshal(rep.Msgs[0].GetRecord())
					cls, rnk, st = e.recInfo(a.Key, b)
				}
				tr.Add("Ret", "actor", name, "op", "get", "k", a.Key, "err", ackErr(len(rep.Msgs) == 1), "class", cls, "rank", rnk, "stamp", st, "ts", e.now())
			case "getlocal":
				v, err := d.GetValue(context.Background(), key, routing.Offline)
				cls, rnk := "none", -1
				if err == nil {
					ok, rr := valRank(v)
					cls, rnk = clsOf(ok), rr
				}
				tr.Add("Ret", "actor", name, "op", "get", "k", a.Key, "err", "", "class", cls, "rank", rnk, "stamp", -1, "ts", e.now())
			}
		}
		ok, rnk := valRank([]byte(a.Val))
		reckey := a.RecKey
		if reckey < 0 {
			reckey = a.Key
		}
		tr.Add("Start", "actor", name, "op", a.Kind, "k", a.Key, "class", clsOf(ok), "rank", rnk, "reckey", reckey, "ts", e.now())
		e.actors.Go(name, body)
	}

	drain := func() {
		for steps := 0; steps < 5000; steps++ {
			settle()
			items := e.gate.Pending()
			if len(items) == 0 {
				if !e.actors.AnyAlive() {
					return
				}
				// actors alive but nothing parked: they are finishing; settle again
				continue
			}
			i := ch.Choose(len(items))
			e.gate.Release(items[i], nil)
		}
		tr.Add("Unsettled", "ts", e.now())
	}

	if sc.Seq {
		for i, a := range sc.Actors {
			if i < len(sc.Advance) && sc.Advance[i] > 0 {
				// let the sweeper and everything else run freely while time passes
				e.gds.G = nil
				for _, it := range e.gate.Pending() {
					e.gate.Release(it, nil)
				}
				time.Sleep(time.Duration(sc.Advance[i]) * time.Second)
				e.gds.G = e.gate
				tr.Add("Tick", "ts", e.now())
			}
			runActor(i, a)
			drain()
		}
	} else {
		for i, a := range sc.Actors {
			runActor(i, a)
		}
		drain()
	}
	// final content
	final := []any{}
	for k := 0; k < sc.NKeys; k++ {
		b, err := e.inner.Get(bg, dsKeyOf(k))
		if err != nil {
			b = nil
		}
		c, rk, st := e.recInfo(k, b)
		final = append(final, map[string]any{"class": c, "rank": rk, "stamp": st})
	}
	tr.Add("Final", "content", final, "ts", e.now())
	// shut down: the sweeper may still park at the gate while Close waits for it,
	// so keep releasing until Close has returned
	e.gds.G = nil
	closeDone := make(chan struct{})
	go func() { defer close(closeDone); _ = d.Close() }()
	for closed := false; !closed; {
		for _, it := range e.gate.Pending() {
			e.gate.Release(it, nil)
		}
		select {
		case <-closeDone:
			closed = true
		default:
			runtime.Gosched()
		}
	}
	_ = e.host.Close()
	tr.Add("End", "ts", e.now())
	return tr.Events
}

func clsOf(valid bool) string {
	if valid {
		return "valid"
	}
	return "invalid"
}

func ackErr(acked bool) string {
	if acked {
		return ""
	}
	return "refused"
}

func genVSScenario(r *rand.Rand, seq bool) *VSScenario {
	sc := &VSScenario{Seed: r.Int63(), NKeys: 2 + r.Intn(2), MaxAge: 3600 * 36, Seq: seq}
	inits := []string{"", "", "V1", "V2", "V1:old", "V3:old", "corrupt", "misfiled", "I2"}
	for k := 0; k < sc.NKeys; k++ {
		sc.Init = append(sc.Init, inits[r.Intn(len(inits))])
	}
	n := 2 + r.Intn(2)
	if seq {
		n = 3 + r.Intn(5)
	}
	sameKey := !seq && r.Intn(5) < 3
	for i := 0; i < n; i++ {
		a := VSActor{Key: r.Intn(sc.NKeys), RecKey: -1}
		if sameKey {
			a.Key = 0
		}
		switch r.Intn(8) {
		case 0, 1:
			a.Kind, a.Val = "putvalue", fmt.Sprintf("V%d:%d", r.Intn(4), i)
		case 2, 3, 4:
			a.Kind, a.Val = "putrpc", fmt.Sprintf("V%d:%d", r.Intn(4), i)
			a.Stamp = []int{0, 0, 1, 2, 3}[r.Intn(5)]
			if r.Intn(6) == 0 {
				a.Val = fmt.Sprintf("I%d", r.Intn(4))
			}
			if r.Intn(6) == 0 {
				a.RecKey = r.Intn(sc.NKeys)
			}
		case 5, 6:
			a.Kind = "getrpc"
		default:
			a.Kind = "getlocal"
		}
		sc.Actors = append(sc.Actors, a)
		if seq {
			sc.Advance = append(sc.Advance, []int{0, 0, 60, 3600 * 20, 3600 * 37}[r.Intn(5)])
		}
	}
	sc.Sweep = !seq && r.Intn(2) == 0
	return sc
}

type vsReplay struct {
	Scenario *VSScenario `json:"scenario"`
	Choices  []int       `json:"choices"`
}

func TestValueStore(t *testing.T) {
	e := getEnv(t)
	rec := newRecorder(t, e, "value-store", "trace = initial content x concurrent actors x interleaving of their datastore accesses (exhaustive DFS per scenario, capped) plus sequential histories with clock advances; non-trivial iff at least two writes hit the same key or a record was discarded")
	defer rec.Close(t, e)
	nontriv := func(evs []sim.Ev) bool {
		w := map[any]int{}
		for _, ev := range evs {
			if ev["e"] == "DS" && (ev["op"] == "put" || ev["op"] == "delete") {
				w[ev["k"]]++
				if w[ev["k"]] >= 2 || ev["op"] == "delete" {
					return true
				}
			}
		}
		return false
	}
	if e.Replay != "" {
		var wrap struct {
			Replay vsReplay `json:"replay"`
		}
		if err := readJSON(e.Replay, &wrap); err != nil {
			t.Fatal(err)
		}
		ch := &sim.ReplayChooser{Seq: wrap.Replay.Choices}
		evs := runVS(t, wrap.Replay.Scenario, ch)
		rec.Record(evs, vsReplay{wrap.Replay.Scenario, ch.Taken()}, nontriv(evs))
		return
	}
	r := rand.New(rand.NewSource(e.Seed))
	nConc, maxPer, nSeq := 40, 60, 200
	if e.Tier == "thorough" {
		nConc, maxPer, nSeq = 250, 400, 3000
	}
	if e.Budget > 0 {
		nConc, nSeq = e.Budget, e.Budget
	}
	for i := 0; i < nConc; i++ {
		sc := genVSScenario(r, false)
		dfs := &sim.DFS{}
		for n := 0; n < maxPer; n++ {
			evs := runVS(t, sc, dfs)
			rec.Record(evs, vsReplay{sc, dfs.Taken()}, nontriv(evs))
			rec.Count("dfs_runs", 1)
			if !dfs.Next() {
				rec.Count("dfs_exhausted_scenarios", 1)
				break
			}
		}
	}
	for i := 0; i < nSeq; i++ {
		sc := genVSScenario(r, true)
		ch := sim.NewRandomChooser(r.Int63())
		evs := runVS(t, sc, ch)
		rec.Record(evs, vsReplay{sc, ch.Taken()}, nontriv(evs))
		rec.Count("seq_runs", 1)
	}
}
