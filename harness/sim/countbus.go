package sim

import (
	"sync"

	"github.com/libp2p/go-libp2p/core/event"
)

// CountingBus wraps an event bus and counts the subscriptions and emitters that
// are open (created through it and not closed yet).
type CountingBus struct {
	event.Bus
	mu       sync.Mutex
	openSubs int
	openEms  int
}

type countedSub struct {
	event.Subscription
	b    *CountingBus
	once sync.Once
}

func (s *countedSub) Close() error {
	s.once.Do(func() {
		s.b.mu.Lock()
		s.b.openSubs--
		s.b.mu.Unlock()
	})
	return s.Subscription.Close()
}

func (b *CountingBus) Subscribe(eventType any, opts ...event.SubscriptionOpt) (event.Subscription, error) {
	s, err := b.Bus.Subscribe(eventType, opts...)
	if err != nil {
		return nil, err
	}
	b.mu.Lock()
	b.openSubs++
	b.mu.Unlock()
	return &countedSub{Subscription: s, b: b}, nil
}

// OpenSubscriptions is the number of subscriptions created through the bus and not closed.
func (b *CountingBus) OpenSubscriptions() int {
	b.mu.Lock()
	defer b.mu.Unlock()
	return b.openSubs
}
