// Package sim contains the simulated environment (host, network, sender,
// datastore wrappers, schedulers) used to drive the real go-libp2p-kad-dht
// code deterministically.
package sim
