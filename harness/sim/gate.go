package sim

import (
	"context"
	"sort"
	"sync"
)

// Parked is one operation of the code under test that is waiting at a gate
// for the scheduler to decide when (and how) it completes.
type Parked struct {
	Seq     int
	Kind    string // "dial", "req", "msg", "ds", ...
	Label   string // canonical, schedule-independent sort key
	Payload any
	Ctx     context.Context
	release chan any
	gone    bool
}

// Gate collects parked operations. It is the only place where the code under
// test waits for the environment, so the order in which parked operations are
// released is the schedule.
type Gate struct {
	mu    sync.Mutex
	items []*Parked
	seq   int
	// OnPark, if set, is called (under no lock) when an item parks.
	OnPark func(*Parked)
	// OnAbort is called when a ctx-aware parked item leaves because its ctx ended.
	OnAbort func(*Parked)
}

// Park blocks the caller until the scheduler releases it. If ctx is non-nil
// and ends first, Park returns (nil, ctx.Err()).
func (g *Gate) Park(ctx context.Context, kind, label string, payload any) (any, error) {
	it := &Parked{Kind: kind, Label: label, Payload: payload, Ctx: ctx, release: make(chan any, 1)}
	g.mu.Lock()
	g.seq++
	it.Seq = g.seq
	g.items = append(g.items, it)
	g.mu.Unlock()
	if g.OnPark != nil {
		g.OnPark(it)
	}
	if ctx == nil {
		return <-it.release, nil
	}
	select {
	case v := <-it.release:
		return v, nil
	case <-ctx.Done():
		g.mu.Lock()
		// a release may have raced with the cancellation; prefer the release
		select {
		case v := <-it.release:
			g.mu.Unlock()
			return v, nil
		default:
		}
		g.remove(it)
		g.mu.Unlock()
		if g.OnAbort != nil {
			g.OnAbort(it)
		}
		return nil, ctx.Err()
	}
}

func (g *Gate) remove(it *Parked) {
	it.gone = true
	for i, x := range g.items {
		if x == it {
			g.items = append(g.items[:i], g.items[i+1:]...)
			return
		}
	}
}

// Pending returns the parked items in canonical order (Label, then Seq).
func (g *Gate) Pending() []*Parked {
	g.mu.Lock()
	defer g.mu.Unlock()
	out := append([]*Parked(nil), g.items...)
	sort.SliceStable(out, func(i, j int) bool {
		if out[i].Label != out[j].Label {
			return out[i].Label < out[j].Label
		}
		return out[i].Seq < out[j].Seq
	})
	return out
}

// Release lets a parked item continue with the given outcome. It reports
// false if the item already left (ctx ended).
func (g *Gate) Release(it *Parked, outcome any) bool {
	g.mu.Lock()
	defer g.mu.Unlock()
	if it.gone {
		return false
	}
	g.remove(it)
	it.release <- outcome
	return true
}

// Len is the number of parked items.
func (g *Gate) Len() int { g.mu.Lock(); defer g.mu.Unlock(); return len(g.items) }
