package sim

import (
	"context"
	"errors"
	"runtime"
	"sort"
	"strconv"
	"strings"
	"sync"

	ds "github.com/ipfs/go-datastore"
	dsq "github.com/ipfs/go-datastore/query"
)

// DSOp describes one datastore access of the code under test.
type DSOp struct {
	Op    string // get | has | getsize | query | put | delete | sync | commit | close
	Key   string
	Value []byte
	Actor string
	// for commit: the batched writes, in order
	Batch []DSOp
	// results (filled in before OnApply is called)
	Found bool
	Got   []byte
	Err   error
	N     int // query: number of entries
}

// GateDS wraps a datastore. Every access by a goroutine that ActorOf
// recognises parks at the gate before it is applied, which makes the
// interleaving of datastore accesses an explicit scheduling decision. All
// accesses (gated or not) are reported to OnApply after they were applied.
type GateDS struct {
	Inner ds.Batching
	G     *Gate
	// ActorOf names the calling goroutine; "" means: do not gate.
	ActorOf func() string
	// OnApply is called after the operation has been applied (synchronously,
	// in the calling goroutine).
	OnApply func(op *DSOp)
	// Fail may inject an error instead of applying the operation.
	Fail func(op *DSOp) error

	mu     sync.Mutex
	Closed bool
	// AfterClose counts operations that arrive after Close.
	AfterClose int
}

var _ ds.Batching = (*GateDS)(nil)

func (g *GateDS) enter(op *DSOp) error {
	if g.ActorOf != nil {
		op.Actor = g.ActorOf()
	}
	if g.G != nil && op.Actor != "" {
		_, _ = g.G.Park(nil, "ds", op.Actor+"/"+op.Op+"/"+op.Key, op)
	}
	g.mu.Lock()
	if g.Closed {
		g.AfterClose++
	}
	g.mu.Unlock()
	if g.Fail != nil {
		if err := g.Fail(op); err != nil {
			op.Err = err
			g.done(op)
			return err
		}
	}
	return nil
}

func (g *GateDS) done(op *DSOp) {
	if g.OnApply != nil {
		g.OnApply(op)
	}
}

func (g *GateDS) Get(ctx context.Context, key ds.Key) ([]byte, error) {
	op := &DSOp{Op: "get", Key: key.String()}
	if err := g.enter(op); err != nil {
		return nil, err
	}
	v, err := g.Inner.Get(ctx, key)
	op.Got, op.Err, op.Found = v, err, err == nil
	g.done(op)
	return v, err
}

func (g *GateDS) Has(ctx context.Context, key ds.Key) (bool, error) {
	op := &DSOp{Op: "has", Key: key.String()}
	if err := g.enter(op); err != nil {
		return false, err
	}
	b, err := g.Inner.Has(ctx, key)
	op.Found, op.Err = b, err
	g.done(op)
	return b, err
}

func (g *GateDS) GetSize(ctx context.Context, key ds.Key) (int, error) {
	op := &DSOp{Op: "getsize", Key: key.String()}
	if err := g.enter(op); err != nil {
		return -1, err
	}
	n, err := g.Inner.GetSize(ctx, key)
	op.N, op.Err, op.Found = n, err, err == nil
	g.done(op)
	return n, err
}

// Query returns a snapshot of the matching entries in key order (the inner
// map datastore iterates a Go map, which would make runs irreproducible).
func (g *GateDS) Query(ctx context.Context, q dsq.Query) (dsq.Results, error) {
	op := &DSOp{Op: "query", Key: q.Prefix}
	if err := g.enter(op); err != nil {
		return nil, err
	}
	res, err := g.Inner.Query(ctx, q)
	if err != nil {
		op.Err = err
		g.done(op)
		return nil, err
	}
	entries, err := res.Rest()
	if err != nil {
		op.Err = err
		g.done(op)
		return nil, err
	}
	if len(q.Orders) == 0 {
		sort.Slice(entries, func(i, j int) bool { return entries[i].Key < entries[j].Key })
	}
	op.N = len(entries)
	g.done(op)
	return dsq.ResultsWithEntries(q, entries), nil
}

func (g *GateDS) Put(ctx context.Context, key ds.Key, value []byte) error {
	op := &DSOp{Op: "put", Key: key.String(), Value: append([]byte(nil), value...)}
	if err := g.enter(op); err != nil {
		return err
	}
	err := g.Inner.Put(ctx, key, value)
	op.Err = err
	g.done(op)
	return err
}

func (g *GateDS) Delete(ctx context.Context, key ds.Key) error {
	op := &DSOp{Op: "delete", Key: key.String()}
	if err := g.enter(op); err != nil {
		return err
	}
	_, herr := g.Inner.Has(ctx, key)
	_ = herr
	had, _ := g.Inner.Has(ctx, key)
	err := g.Inner.Delete(ctx, key)
	op.Err, op.Found = err, had
	g.done(op)
	return err
}

func (g *GateDS) Sync(ctx context.Context, prefix ds.Key) error {
	op := &DSOp{Op: "sync", Key: prefix.String()}
	if err := g.enter(op); err != nil {
		return err
	}
	err := g.Inner.Sync(ctx, prefix)
	op.Err = err
	g.done(op)
	return err
}

// AfterCloseCount: the number of operations that arrived after Close.
func (g *GateDS) AfterCloseCount() int {
	g.mu.Lock()
	defer g.mu.Unlock()
	return g.AfterClose
}

func (g *GateDS) Close() error {
	op := &DSOp{Op: "close"}
	if g.ActorOf != nil {
		op.Actor = g.ActorOf()
	}
	g.mu.Lock()
	g.Closed = true
	g.mu.Unlock()
	g.done(op)
	return nil
}

type gateBatch struct {
	g   *GateDS
	ops []DSOp
}

func (g *GateDS) Batch(ctx context.Context) (ds.Batch, error) {
	return &gateBatch{g: g}, nil
}

func (b *gateBatch) Put(ctx context.Context, key ds.Key, value []byte) error {
	b.ops = append(b.ops, DSOp{Op: "put", Key: key.String(), Value: append([]byte(nil), value...)})
	return nil
}

func (b *gateBatch) Delete(ctx context.Context, key ds.Key) error {
	b.ops = append(b.ops, DSOp{Op: "delete", Key: key.String()})
	return nil
}

func (b *gateBatch) Commit(ctx context.Context) error {
	op := &DSOp{Op: "commit", Batch: b.ops}
	if err := b.g.enter(op); err != nil {
		return err
	}
	var err error
	for _, o := range b.ops {
		if o.Op == "put" {
			err = errors.Join(err, b.g.Inner.Put(ctx, ds.NewKey(o.Key), o.Value))
		} else {
			err = errors.Join(err, b.g.Inner.Delete(ctx, ds.NewKey(o.Key)))
		}
	}
	op.Err = err
	b.ops = nil
	b.g.done(op)
	return err
}

// GoID returns the id of the calling goroutine.
func GoID() int {
	var buf [64]byte
	n := runtime.Stack(buf[:], false)
	s := strings.TrimPrefix(string(buf[:n]), "goroutine ")
	if i := strings.IndexByte(s, ' '); i > 0 {
		id, _ := strconv.Atoi(s[:i])
		return id
	}
	return -1
}

// OwnStackHas reports whether the calling goroutine's stack mentions sub.
func OwnStackHas(sub string) bool {
	buf := make([]byte, 8192)
	n := runtime.Stack(buf, false)
	return strings.Contains(string(buf[:n]), sub)
}

// Actors tracks which goroutines are actors of a scenario and decides when
// they have all settled (parked at a gate, blocked on a mutex, or finished).
type Actors struct {
	mu    sync.Mutex
	byID  map[int]string
	alive map[string]bool
}

func NewActors() *Actors { return &Actors{byID: map[int]string{}, alive: map[string]bool{}} }

// Go starts f as a named actor.
func (a *Actors) Go(name string, f func()) {
	started := make(chan struct{})
	go func() {
		id := GoID()
		a.mu.Lock()
		a.byID[id] = name
		a.alive[name] = true
		a.mu.Unlock()
		close(started)
		defer func() {
			a.mu.Lock()
			delete(a.byID, id)
			a.alive[name] = false
			a.mu.Unlock()
		}()
		f()
	}()
	<-started
}

// Name of the calling goroutine if it is an actor.
func (a *Actors) Name() string {
	id := GoID()
	a.mu.Lock()
	defer a.mu.Unlock()
	return a.byID[id]
}

// Alive reports whether the named actor is still running.
func (a *Actors) Alive(name string) bool {
	a.mu.Lock()
	defer a.mu.Unlock()
	return a.alive[name]
}

// AnyAlive reports whether any actor is still running.
func (a *Actors) AnyAlive() bool {
	a.mu.Lock()
	defer a.mu.Unlock()
	for _, v := range a.alive {
		if v {
			return true
		}
	}
	return false
}

// Settle spins until every live actor goroutine (plus any goroutine matched
// by extra, e.g. a library-owned sweeper) is parked at a gate, blocked on a
// mutex, or otherwise durably waiting. It returns false if that does not
// happen within the spin budget.
func (a *Actors) Settle(extra func(GInfo) bool) bool {
	for spin := 0; spin < 200000; spin++ {
		a.mu.Lock()
		ids := map[int]bool{}
		for id := range a.byID {
			ids[id] = true
		}
		a.mu.Unlock()
		ok := true
		for _, g := range Goroutines() {
			if !ids[g.ID] && !(extra != nil && extra(g)) {
				continue
			}
			st := g.State
			settled := strings.HasPrefix(st, "chan receive") || strings.HasPrefix(st, "select") ||
				strings.HasPrefix(st, "sync.Mutex.Lock") || strings.HasPrefix(st, "sync.RWMutex") ||
				strings.HasPrefix(st, "chan send") || strings.HasPrefix(st, "sync.Cond.Wait") ||
				strings.HasPrefix(st, "sync.WaitGroup.Wait") || strings.HasPrefix(st, "sleep")
			if !settled {
				ok = false
				break
			}
		}
		if ok {
			// confirm with a second look: the set of actors may just have changed
			a.mu.Lock()
			same := len(a.byID) == len(ids)
			a.mu.Unlock()
			if same {
				return true
			}
		}
		runtime.Gosched()
	}
	return false
}
