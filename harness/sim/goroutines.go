package sim

import (
	"regexp"
	"runtime"
	"strconv"
	"strings"
)

// GInfo describes one goroutine as printed by runtime.Stack.
type GInfo struct {
	ID      int
	State   string // e.g. "chan receive (durable)", "sync.Mutex.Lock", "running"
	Bubble  bool   // belongs to a synctest bubble
	Top     string // innermost function
	Created string // "created by" function
	Frames  []string
}

var gHeader = regexp.MustCompile(`^goroutine (\d+) \[([^\]]*)\]:$`)

// Goroutines parses a full goroutine dump.
func Goroutines() []GInfo {
	buf := make([]byte, 1<<20)
	for {
		n := runtime.Stack(buf, true)
		if n < len(buf) {
			buf = buf[:n]
			break
		}
		buf = make([]byte, 2*len(buf))
	}
	var out []GInfo
	var cur *GInfo
	for _, line := range strings.Split(string(buf), "\n") {
		if m := gHeader.FindStringSubmatch(line); m != nil {
			id, _ := strconv.Atoi(m[1])
			st := m[2]
			g := GInfo{ID: id}
			parts := strings.Split(st, ", ")
			g.State = parts[0]
			for _, p := range parts[1:] {
				if strings.HasPrefix(p, "synctest bubble") {
					g.Bubble = true
				}
			}
			out = append(out, g)
			cur = &out[len(out)-1]
			continue
		}
		if cur == nil || line == "" {
			continue
		}
		if strings.HasPrefix(line, "created by ") {
			f := strings.TrimPrefix(line, "created by ")
			if i := strings.Index(f, " in goroutine"); i >= 0 {
				f = f[:i]
			}
			cur.Created = f
			continue
		}
		if !strings.HasPrefix(line, "\t") {
			f := line
			if i := strings.LastIndex(f, "("); i > 0 {
				f = f[:i]
			}
			if cur.Top == "" {
				cur.Top = f
			}
			if len(cur.Frames) < 12 {
				cur.Frames = append(cur.Frames, f)
			}
		}
	}
	return out
}

// BubbleSet returns the ids of the goroutines currently inside a synctest bubble.
func BubbleSet() map[int]bool {
	m := map[int]bool{}
	for _, g := range Goroutines() {
		if g.Bubble {
			m[g.ID] = true
		}
	}
	return m
}

// NewSince lists bubble goroutines that are not in base and whose stack does
// not contain any of the ignore substrings (harness-owned goroutines).
func NewSince(base map[int]bool, ignore ...string) []GInfo {
	var out []GInfo
next:
	for _, g := range Goroutines() {
		if !g.Bubble || base[g.ID] {
			continue
		}
		all := g.Created + " " + strings.Join(g.Frames, " ")
		for _, ig := range ignore {
			if strings.Contains(all, ig) {
				continue next
			}
		}
		out = append(out, g)
	}
	return out
}

// Describe gives a short stable description of a goroutine (for traces).
func (g GInfo) Describe() string {
	fr := ""
	for _, f := range g.Frames {
		if strings.Contains(f, "go-libp2p-kad-dht") {
			fr = f
			break
		}
	}
	if fr == "" {
		fr = g.Top
	}
	return g.State + " @ " + fr + " <- " + g.Created
}
