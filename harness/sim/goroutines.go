package sim

import (
	"regexp"
	"runtime"
	"strconv"
	"strings"
)

// GInfo describes one goroutine as printed by runtime.Stack.
type GInfo struct {
	ID      int
	State   string // e.g. "chan receive (durable)", "sync.Mutex.Lock", "running"
	Bubble  bool   // belongs to a synctest bubble
	BubbleID int   // which one
	Top     string // innermost function
	Created string // "created by" function
	Frames  []string
	Raw     string // the header line
}

var gHeader = regexp.MustCompile(`^goroutine (\d+) \[([^\]]*)\]:$`)

// Goroutines parses a full goroutine dump.
func Goroutines() []GInfo {
	buf := make([]byte, 1<<20)
	for {
		n := runtime.Stack(buf, true)
		if n < len(buf) {
			buf = buf[:n]
			break
		}
		buf = make([]byte, 2*len(buf))
	}
	var out []GInfo
	var cur *GInfo
	for _, line := range strings.Split(string(buf), "\n") {
		if m := gHeader.FindStringSubmatch(line); m != nil {
			id, _ := strconv.Atoi(m[1])
			st := m[2]
			g := GInfo{ID: id, Raw: line}
			parts := strings.Split(st, ", ")
			g.State = parts[0]
			for _, p := range parts[1:] {
				if strings.HasPrefix(p, "synctest bubble") {
					g.Bubble = true
					g.BubbleID, _ = strconv.Atoi(strings.TrimSpace(strings.TrimPrefix(p, "synctest bubble")))
				}
			}
			out = append(out, g)
			cur = &out[len(out)-1]
			continue
		}
		if cur == nil || line == "" {
			continue
		}
		if strings.HasPrefix(line, "created by ") {
			f := strings.TrimPrefix(line, "created by ")
			if i := strings.Index(f, " in goroutine"); i >= 0 {
				f = f[:i]
			}
			cur.Created = f
			continue
		}
		if !strings.HasPrefix(line, "\t") {
			f := line
			if i := strings.LastIndex(f, "("); i > 0 {
				f = f[:i]
			}
			if cur.Top == "" {
				cur.Top = f
			}
			if len(cur.Frames) < 12 {
				cur.Frames = append(cur.Frames, f)
			}
		}
	}
	return out
}

// BubbleSet returns the ids of the goroutines currently inside a synctest bubble.
func BubbleSet() map[int]bool {
	m := map[int]bool{}
	for _, g := range Goroutines() {
		if g.Bubble {
			m[g.ID] = true
		}
	}
	return m
}

// NewSince lists bubble goroutines that are not in base and whose stack does
// not contain any of the ignore substrings (harness-owned goroutines).
func NewSince(base map[int]bool, ignore ...string) []GInfo {
	var out []GInfo
next:
	for _, g := range Goroutines() {
		if !g.Bubble || base[g.ID] {
			continue
		}
		all := g.Created + " " + strings.Join(g.Frames, " ")
		for _, ig := range ignore {
			if strings.Contains(all, ig) {
				continue next
			}
		}
		out = append(out, g)
	}
	return out
}

// Describe gives a short stable description of a goroutine (for traces).
func (g GInfo) Describe() string {
	fr := ""
	for _, f := range g.Frames {
		if strings.Contains(f, "go-libp2p-kad-dht") {
			fr = f
			break
		}
	}
	if fr == "" {
		fr = g.Top
	}
	return g.State + " @ " + fr + " <- " + g.Created
}

func blockedState(st string) bool {
	return strings.HasPrefix(st, "chan receive") || strings.HasPrefix(st, "select") ||
		strings.HasPrefix(st, "sync.Mutex.Lock") || strings.HasPrefix(st, "sync.RWMutex") ||
		strings.HasPrefix(st, "chan send") || strings.HasPrefix(st, "sync.Cond.Wait") ||
		strings.HasPrefix(st, "sync.WaitGroup.Wait") || strings.HasPrefix(st, "sleep") ||
		strings.HasPrefix(st, "synctest")
}

// SettleBubble spins until every goroutine of the synctest bubble other than
// the caller is blocked (on a channel, timer, mutex, ...). Unlike
// synctest.Wait it also accepts goroutines blocked on a mutex, which is needed
// while a parked goroutine holds a lock others wait for. It returns false if
// that does not happen within the spin budget.
// LastCalm holds the snapshot that made the last SettleBubble call return true (debugging aid).
var LastCalm []GInfo

func SettleBubble() bool {
	self := GoID()
	calm := 0
	for spin := 0; spin < 200000; spin++ {
		ok := true
		gs := Goroutines()
		mine := -1
		for _, g := range gs {
			if g.ID == self {
				mine = g.BubbleID
			}
		}
		for _, g := range gs {
			if g.ID == self {
				continue
			}
			// the runtime prints a goroutine that has just been made runnable without its
			// bubble tag: any runnable goroutine counts (one bubble runs per process)
			if !g.Bubble && !blockedState(g.State) && !strings.HasPrefix(g.State, "GC ") && !strings.HasPrefix(g.State, "finalizer") &&
				!strings.HasPrefix(g.State, "force gc") && !strings.HasPrefix(g.State, "IO wait") && !strings.HasPrefix(g.State, "syscall") {
				ok = false
				break
			}
			if !g.Bubble || g.BubbleID != mine {
				continue
			}
			if !blockedState(g.State) {
				ok = false
				break
			}
		}
		if ok {
			calm++
			if calm >= 3 {
				LastCalm = gs
				return true
			}
		} else {
			calm = 0
		}
		runtime.Gosched()
	}
	return false
}
