package sim

import (
	"context"
	"errors"
	"fmt"
	"io"
	"sort"
	"sync"
	"time"

	"github.com/libp2p/go-libp2p/core/connmgr"
	ic "github.com/libp2p/go-libp2p/core/crypto"
	"github.com/libp2p/go-libp2p/core/event"
	"github.com/libp2p/go-libp2p/core/host"
	"github.com/libp2p/go-libp2p/core/network"
	"github.com/libp2p/go-libp2p/core/peer"
	"github.com/libp2p/go-libp2p/core/peerstore"
	"github.com/libp2p/go-libp2p/core/protocol"
	"github.com/libp2p/go-libp2p/p2p/host/eventbus"
	"github.com/libp2p/go-libp2p/p2p/host/peerstore/pstoremem"
	ma "github.com/multiformats/go-multiaddr"
)

// DialFunc decides the outcome of Host.Connect for a peer. It may block (gate).
type DialFunc func(ctx context.Context, p peer.ID) error

// StreamFunc decides the outcome of Host.NewStream. It may block (gate).
type StreamFunc func(ctx context.Context, p peer.ID, protos []protocol.ID) (*FakeStream, error)

// FakeHost is a hand written host.Host. Everything the DHT code asks of the
// network is answered from harness-controlled state.
type FakeHost struct {
	id    peer.ID
	ps    peerstore.Peerstore
	bus   event.Bus
	cmgr  connmgr.ConnManager
	net   *FakeNet
	mu    sync.Mutex
	addrs []ma.Multiaddr

	handlers map[protocol.ID]network.StreamHandler
	// HandlerLog records SetStreamHandler / RemoveStreamHandler calls.
	HandlerLog []string

	Dial   DialFunc
	Stream StreamFunc
	// ConnectCalls counts Connect calls per peer.
	ConnectCalls map[peer.ID]int
	// HandlerHook, if set, is called (without locks) before a handler is
	// registered ("set") or removed ("remove"); it may block (gate).
	HandlerHook func(op string, pid protocol.ID)
	// StreamHook, if set, is installed on every stream the host creates.
	StreamHook func(s *FakeStream, what string)

	closed bool
}

var _ host.Host = (*FakeHost)(nil)

// NewFakeHost builds a host with a real in-memory peerstore and event bus.
func NewFakeHost(id peer.ID, addrs []ma.Multiaddr) *FakeHost {
	ps, err := pstoremem.NewPeerstore()
	if err != nil {
		panic(err)
	}
	h := &FakeHost{
		id:       id,
		ps:       ps,
		bus:      &CountingBus{Bus: eventbus.NewBus()},
		cmgr:     &connmgr.NullConnMgr{},
		addrs:    addrs,
		handlers: map[protocol.ID]network.StreamHandler{},
	}
	h.net = &FakeNet{h: h, conns: map[peer.ID][]*FakeConn{}, state: map[peer.ID]network.Connectedness{}}
	return h
}

func (h *FakeHost) ID() peer.ID                      { return h.id }
func (h *FakeHost) Peerstore() peerstore.Peerstore   { return h.ps }
func (h *FakeHost) Network() network.Network         { return h.net }
func (h *FakeHost) Net() *FakeNet                    { return h.net }
func (h *FakeHost) Mux() protocol.Switch             { return nil }
func (h *FakeHost) ConnManager() connmgr.ConnManager { return h.cmgr }
func (h *FakeHost) EventBus() event.Bus              { return h.bus }

// OpenSubscriptions is the number of event-bus subscriptions that are open on this host.
func (h *FakeHost) OpenSubscriptions() int { return h.bus.(*CountingBus).OpenSubscriptions() }

func (h *FakeHost) Addrs() []ma.Multiaddr {
	h.mu.Lock()
	defer h.mu.Unlock()
	return append([]ma.Multiaddr(nil), h.addrs...)
}

// SetAddrs changes the addresses the host advertises.
func (h *FakeHost) SetAddrs(a []ma.Multiaddr) {
	h.mu.Lock()
	h.addrs = a
	h.mu.Unlock()
}

func (h *FakeHost) Connect(ctx context.Context, pi peer.AddrInfo) error {
	h.mu.Lock()
	if h.ConnectCalls == nil {
		h.ConnectCalls = map[peer.ID]int{}
	}
	h.ConnectCalls[pi.ID]++
	h.mu.Unlock()
	// as the libp2p swarm: no dial to an invalid (empty) peer id or to self
	if err := pi.ID.Validate(); err != nil {
		return err
	}
	if pi.ID == h.id {
		return errors.New("dial to self attempted")
	}
	if len(pi.Addrs) > 0 {
		h.ps.AddAddrs(pi.ID, pi.Addrs, peerstore.TempAddrTTL)
	}
	if h.net.Connectedness(pi.ID) == network.Connected {
		return nil
	}
	if h.Dial == nil {
		return errors.New("fakehost: no dial function")
	}
	if err := h.Dial(ctx, pi.ID); err != nil {
		return err
	}
	h.net.SetConnected(pi.ID, true)
	return nil
}

func (h *FakeHost) SetStreamHandler(pid protocol.ID, handler network.StreamHandler) {
	if h.HandlerHook != nil {
		h.HandlerHook("set", pid)
	}
	h.mu.Lock()
	h.handlers[pid] = handler
	h.HandlerLog = append(h.HandlerLog, "set:"+string(pid))
	h.mu.Unlock()
}

func (h *FakeHost) SetStreamHandlerMatch(pid protocol.ID, _ func(protocol.ID) bool, handler network.StreamHandler) {
	h.SetStreamHandler(pid, handler)
}

func (h *FakeHost) RemoveStreamHandler(pid protocol.ID) {
	if h.HandlerHook != nil {
		h.HandlerHook("remove", pid)
	}
	h.mu.Lock()
	delete(h.handlers, pid)
	h.HandlerLog = append(h.HandlerLog, "remove:"+string(pid))
	h.mu.Unlock()
}

// Handler returns the currently registered handler for a protocol (nil if none).
func (h *FakeHost) Handler(pid protocol.ID) network.StreamHandler {
	h.mu.Lock()
	defer h.mu.Unlock()
	return h.handlers[pid]
}

// Protocols lists the protocols that currently have a handler.
func (h *FakeHost) Protocols() []protocol.ID {
	h.mu.Lock()
	defer h.mu.Unlock()
	var out []protocol.ID
	for p := range h.handlers {
		out = append(out, p)
	}
	sort.Slice(out, func(i, j int) bool { return out[i] < out[j] })
	return out
}

func (h *FakeHost) NewStream(ctx context.Context, p peer.ID, pids ...protocol.ID) (network.Stream, error) {
	if err := p.Validate(); err != nil {
		return nil, err
	}
	if p == h.id {
		return nil, errors.New("dial to self attempted")
	}
	if h.Stream == nil {
		return nil, errors.New("fakehost: no stream function")
	}
	s, err := h.Stream(ctx, p, pids)
	if err != nil {
		return nil, err
	}
	return s, nil
}

func (h *FakeHost) Close() error {
	h.mu.Lock()
	if h.closed {
		h.mu.Unlock()
		return nil
	}
	h.closed = true
	h.mu.Unlock()
	return h.ps.Close()
}

// FakeNet is the network.Network of a FakeHost.
type FakeNet struct {
	h     *FakeHost
	mu    sync.Mutex
	conns map[peer.ID][]*FakeConn
	state map[peer.ID]network.Connectedness
	seq   int
}

var _ network.Network = (*FakeNet)(nil)

func (n *FakeNet) Peerstore() peerstore.Peerstore { return n.h.ps }
func (n *FakeNet) LocalPeer() peer.ID             { return n.h.id }
func (n *FakeNet) Close() error                   { return nil }
func (n *FakeNet) DialPeer(ctx context.Context, p peer.ID) (network.Conn, error) {
	if err := n.h.Connect(ctx, peer.AddrInfo{ID: p}); err != nil {
		return nil, err
	}
	cs := n.ConnsToPeer(p)
	if len(cs) == 0 {
		return nil, errors.New("fakenet: no conn")
	}
	return cs[0], nil
}
func (n *FakeNet) ClosePeer(p peer.ID) error { n.SetConnected(p, false); return nil }

func (n *FakeNet) Connectedness(p peer.ID) network.Connectedness {
	n.mu.Lock()
	defer n.mu.Unlock()
	return n.state[p]
}

// SetConnectedness forces the connectedness value reported for p (no conn is created).
func (n *FakeNet) SetConnectedness(p peer.ID, c network.Connectedness) {
	n.mu.Lock()
	n.state[p] = c
	n.mu.Unlock()
}

// SetConnected marks a peer connected (creating one conn with a default
// remote address if it has none) or disconnected (dropping its conns).
func (n *FakeNet) SetConnected(p peer.ID, on bool) {
	n.mu.Lock()
	defer n.mu.Unlock()
	if on {
		n.state[p] = network.Connected
		if len(n.conns[p]) == 0 {
			n.seq++
			addr := DefaultAddr(n.seq)
			if as := n.h.ps.Addrs(p); len(as) > 0 {
				addr = as[0]
			}
			n.conns[p] = []*FakeConn{{net: n, id: fmt.Sprintf("c%d", n.seq), remote: p, raddr: addr, dir: network.DirOutbound}}
		}
	} else {
		n.state[p] = network.NotConnected
		delete(n.conns, p)
	}
}

// AddConn adds a connection to p with the given remote address and direction.
func (n *FakeNet) AddConn(p peer.ID, raddr ma.Multiaddr, dir network.Direction) *FakeConn {
	n.mu.Lock()
	defer n.mu.Unlock()
	n.seq++
	c := &FakeConn{net: n, id: fmt.Sprintf("c%d", n.seq), remote: p, raddr: raddr, dir: dir}
	n.conns[p] = append(n.conns[p], c)
	n.state[p] = network.Connected
	return c
}

func (n *FakeNet) Peers() []peer.ID {
	n.mu.Lock()
	defer n.mu.Unlock()
	var out []peer.ID
	for p, c := range n.state {
		if c == network.Connected {
			out = append(out, p)
		}
	}
	sort.Slice(out, func(i, j int) bool { return out[i] < out[j] })
	return out
}

func (n *FakeNet) Conns() []network.Conn {
	n.mu.Lock()
	defer n.mu.Unlock()
	var ps []peer.ID
	for p := range n.conns {
		ps = append(ps, p)
	}
	sort.Slice(ps, func(i, j int) bool { return ps[i] < ps[j] })
	var out []network.Conn
	for _, p := range ps {
		for _, c := range n.conns[p] {
			out = append(out, c)
		}
	}
	return out
}

func (n *FakeNet) ConnsToPeer(p peer.ID) []network.Conn {
	n.mu.Lock()
	defer n.mu.Unlock()
	var out []network.Conn
	for _, c := range n.conns[p] {
		out = append(out, c)
	}
	return out
}

func (n *FakeNet) Notify(network.Notifiee)                 {}
func (n *FakeNet) StopNotify(network.Notifiee)             {}
func (n *FakeNet) CanDial(peer.ID, ma.Multiaddr) bool      { return true }
func (n *FakeNet) SetStreamHandler(network.StreamHandler)  {}
func (n *FakeNet) Listen(...ma.Multiaddr) error            { return nil }
func (n *FakeNet) ListenAddresses() []ma.Multiaddr         { return n.h.Addrs() }
func (n *FakeNet) ResourceManager() network.ResourceManager { return &network.NullResourceManager{} }
func (n *FakeNet) InterfaceListenAddresses() ([]ma.Multiaddr, error) {
	return n.h.Addrs(), nil
}
func (n *FakeNet) NewStream(ctx context.Context, p peer.ID) (network.Stream, error) {
	return n.h.NewStream(ctx, p)
}

// DefaultAddr returns a distinct public IPv4 address for index i.
func DefaultAddr(i int) ma.Multiaddr {
	return ma.StringCast(fmt.Sprintf("/ip4/%d.%d.%d.%d/tcp/4001", 11+(i>>16)&0x7f, (i>>8)&0xff, i&0xff, 7))
}

// FakeConn is a network.Conn between the FakeHost and one remote peer.
type FakeConn struct {
	net     *FakeNet
	id      string
	remote  peer.ID
	raddr   ma.Multiaddr
	dir     network.Direction
	mu      sync.Mutex
	streams []*FakeStream
	closed  bool
}

var _ network.Conn = (*FakeConn)(nil)

func (c *FakeConn) Close() error                           { c.mu.Lock(); c.closed = true; c.mu.Unlock(); return nil }
func (c *FakeConn) CloseWithError(network.ConnErrorCode) error { return c.Close() }
func (c *FakeConn) LocalPeer() peer.ID                     { return c.net.h.id }
func (c *FakeConn) RemotePeer() peer.ID                    { return c.remote }
func (c *FakeConn) RemotePublicKey() ic.PubKey             { return nil }
func (c *FakeConn) ConnState() network.ConnectionState     { return network.ConnectionState{Transport: "fake"} }
func (c *FakeConn) LocalMultiaddr() ma.Multiaddr           { return DefaultAddr(0) }
func (c *FakeConn) RemoteMultiaddr() ma.Multiaddr          { return c.raddr }
func (c *FakeConn) Stat() network.ConnStats {
	return network.ConnStats{Stats: network.Stats{Direction: c.dir}}
}
func (c *FakeConn) Scope() network.ConnScope { return &network.NullScope{} }
func (c *FakeConn) ID() string               { return c.id }
func (c *FakeConn) NewStream(ctx context.Context) (network.Stream, error) {
	return nil, errors.New("fakeconn: NewStream unsupported")
}
func (c *FakeConn) GetStreams() []network.Stream {
	c.mu.Lock()
	defer c.mu.Unlock()
	var out []network.Stream
	for _, s := range c.streams {
		if !s.Finished() {
			out = append(out, s)
		}
	}
	return out
}
func (c *FakeConn) IsClosed() bool { c.mu.Lock(); defer c.mu.Unlock(); return c.closed }
func (c *FakeConn) As(any) bool    { return false }

// NewStream creates a fake stream attached to this conn.
func (c *FakeConn) OpenStream(proto protocol.ID, dir network.Direction) *FakeStream {
	c.mu.Lock()
	defer c.mu.Unlock()
	c.net.mu.Lock()
	c.net.seq++
	id := fmt.Sprintf("s%d", c.net.seq)
	c.net.mu.Unlock()
	s := &FakeStream{id: id, conn: c, proto: proto, dir: dir, notify: make(chan struct{}, 1), wnotify: make(chan struct{}, 1)}
	s.Hook = c.net.h.StreamHook
	c.streams = append(c.streams, s)
	return s
}

// ErrStreamReset is returned by reads and writes on a reset stream.
var ErrStreamReset = network.ErrReset

// FakeStream is an in-memory duplex stream. The "local" side is used by the
// code under test through the network.Stream interface; the "remote" side is
// scripted by the harness through the Remote* methods.
type FakeStream struct {
	id    string
	conn  *FakeConn
	proto protocol.ID
	dir   network.Direction

	mu          sync.Mutex
	in          []byte // remote -> local, not yet read
	inEOF       bool   // remote closed its write side
	out         []byte // local -> remote, not yet taken by the harness
	outTotal    int
	localClosed bool // local closed (Close or CloseWrite)
	readClosed  bool
	reset       bool // reset by either side
	resetLocal  bool
	writeErr    error // injected write failure
	notify      chan struct{}
	wnotify     chan struct{}
	readDL      time.Time

	// Log of local-side lifecycle calls ("close", "reset", "closewrite").
	Calls []string
	// Hook, if set, is called without locks before a local Reset ("reset",
	// may block) and after a successful local Write ("write").
	Hook func(s *FakeStream, what string)
	// Tag is free for the harness.
	Tag int
}

var _ network.Stream = (*FakeStream)(nil)

func (s *FakeStream) poke(ch chan struct{}) {
	select {
	case ch <- struct{}{}:
	default:
	}
}

func (s *FakeStream) Read(p []byte) (int, error) {
	for {
		s.mu.Lock()
		if s.reset {
			s.mu.Unlock()
			return 0, ErrStreamReset
		}
		if s.readClosed {
			s.mu.Unlock()
			return 0, io.EOF
		}
		if len(s.in) > 0 {
			n := copy(p, s.in)
			s.in = s.in[n:]
			s.mu.Unlock()
			return n, nil
		}
		if s.inEOF {
			s.mu.Unlock()
			return 0, io.EOF
		}
		dl := s.readDL
		s.mu.Unlock()
		if dl.IsZero() {
			<-s.notify
		} else {
			d := time.Until(dl)
			if d <= 0 {
				return 0, errors.New("fakestream: read deadline exceeded")
			}
			t := time.NewTimer(d)
			select {
			case <-s.notify:
				t.Stop()
			case <-t.C:
				return 0, errors.New("fakestream: read deadline exceeded")
			}
		}
	}
}

func (s *FakeStream) Write(p []byte) (int, error) {
	s.mu.Lock()
	if s.reset {
		s.mu.Unlock()
		return 0, ErrStreamReset
	}
	if s.localClosed {
		s.mu.Unlock()
		return 0, errors.New("fakestream: write on closed stream")
	}
	if s.writeErr != nil {
		err := s.writeErr
		s.mu.Unlock()
		return 0, err
	}
	s.out = append(s.out, p...)
	s.outTotal += len(p)
	s.poke(s.wnotify)
	s.mu.Unlock()
	if s.Hook != nil {
		s.Hook(s, "write")
	}
	return len(p), nil
}

func (s *FakeStream) Close() error {
	if s.Hook != nil {
		s.Hook(s, "close")
	}
	s.mu.Lock()
	s.Calls = append(s.Calls, "close")
	s.localClosed = true
	s.readClosed = true
	s.poke(s.notify)
	s.poke(s.wnotify)
	s.mu.Unlock()
	return nil
}

func (s *FakeStream) CloseWrite() error {
	s.mu.Lock()
	s.Calls = append(s.Calls, "closewrite")
	s.localClosed = true
	s.poke(s.wnotify)
	s.mu.Unlock()
	return nil
}

func (s *FakeStream) CloseRead() error {
	s.mu.Lock()
	s.Calls = append(s.Calls, "closeread")
	s.readClosed = true
	s.poke(s.notify)
	s.mu.Unlock()
	return nil
}

func (s *FakeStream) Reset() error {
	if s.Hook != nil {
		s.Hook(s, "reset")
	}
	s.mu.Lock()
	s.Calls = append(s.Calls, "reset")
	s.reset = true
	s.resetLocal = true
	s.poke(s.notify)
	s.poke(s.wnotify)
	s.mu.Unlock()
	return nil
}

func (s *FakeStream) ResetWithError(network.StreamErrorCode) error { return s.Reset() }
func (s *FakeStream) SetDeadline(t time.Time) error                { return s.SetReadDeadline(t) }
func (s *FakeStream) SetReadDeadline(t time.Time) error {
	s.mu.Lock()
	s.readDL = t
	s.poke(s.notify)
	s.mu.Unlock()
	return nil
}
func (s *FakeStream) SetWriteDeadline(time.Time) error { return nil }
func (s *FakeStream) ID() string                       { return s.id }
func (s *FakeStream) Protocol() protocol.ID            { return s.proto }
func (s *FakeStream) SetProtocol(id protocol.ID) error { s.proto = id; return nil }
func (s *FakeStream) Stat() network.Stats              { return network.Stats{Direction: s.dir} }
func (s *FakeStream) Conn() network.Conn               { return s.conn }
func (s *FakeStream) Scope() network.StreamScope       { return &network.NullScope{} }

// ---- harness (remote) side ----

// RemoteWrite makes bytes available to the local reader.
func (s *FakeStream) RemoteWrite(b []byte) {
	s.mu.Lock()
	s.in = append(s.in, b...)
	s.poke(s.notify)
	s.mu.Unlock()
}

// RemoteCloseWrite signals EOF to the local reader (after buffered data).
func (s *FakeStream) RemoteCloseWrite() {
	s.mu.Lock()
	s.inEOF = true
	s.poke(s.notify)
	s.mu.Unlock()
}

// RemoteReset resets the stream from the remote side.
func (s *FakeStream) RemoteReset() {
	s.mu.Lock()
	s.reset = true
	s.poke(s.notify)
	s.poke(s.wnotify)
	s.mu.Unlock()
}

// FailWrites makes every later local Write fail with err.
func (s *FakeStream) FailWrites(err error) {
	s.mu.Lock()
	s.writeErr = err
	s.mu.Unlock()
}

// TakeWritten returns and clears the bytes written by the local side.
func (s *FakeStream) TakeWritten() []byte {
	s.mu.Lock()
	defer s.mu.Unlock()
	b := s.out
	s.out = nil
	return b
}

// PeekWritten returns a copy of the bytes written by the local side and not yet taken.
func (s *FakeStream) PeekWritten() []byte {
	s.mu.Lock()
	defer s.mu.Unlock()
	return append([]byte(nil), s.out...)
}

// WrittenTotal is the total number of bytes the local side has written.
func (s *FakeStream) WrittenTotal() int { s.mu.Lock(); defer s.mu.Unlock(); return s.outTotal }

// WasReset reports whether the local side reset the stream.
func (s *FakeStream) WasReset() bool { s.mu.Lock(); defer s.mu.Unlock(); return s.resetLocal }

// IsReset reports whether the stream was reset by either side.
func (s *FakeStream) IsReset() bool { s.mu.Lock(); defer s.mu.Unlock(); return s.reset }

// LocalClosed reports whether the local side closed its write side.
func (s *FakeStream) LocalClosed() bool { s.mu.Lock(); defer s.mu.Unlock(); return s.localClosed }

// Finished reports whether the stream is reset or closed locally.
func (s *FakeStream) Finished() bool {
	s.mu.Lock()
	defer s.mu.Unlock()
	return s.reset || (s.localClosed && s.readClosed)
}

// UnreadIn reports how many remote->local bytes have not been read yet.
func (s *FakeStream) UnreadIn() int { s.mu.Lock(); defer s.mu.Unlock(); return len(s.in) }
