package sim

import (
	"bytes"
	"crypto/sha256"
	"math/rand"
	"sort"

	"github.com/libp2p/go-libp2p/core/peer"
	mh "github.com/multiformats/go-multihash"
)

// NewPeerID returns a syntactically valid peer id derived from the PRNG.
func NewPeerID(r *rand.Rand) peer.ID {
	b := make([]byte, 32)
	r.Read(b)
	h, err := mh.Encode(b, mh.SHA2_256)
	if err != nil {
		panic(err)
	}
	return peer.ID(h)
}

// KadID is the position of a byte string in the Kademlia keyspace (sha256),
// computed independently of the libraries the DHT uses.
func KadID(b []byte) [32]byte { return sha256.Sum256(b) }

// XorDist returns a XOR b.
func XorDist(a, b [32]byte) [32]byte {
	var o [32]byte
	for i := range a {
		o[i] = a[i] ^ b[i]
	}
	return o
}

// SortByDistance sorts ids by XOR distance of their Kademlia ids to key.
func SortByDistance(ids []peer.ID, key string) []peer.ID {
	k := KadID([]byte(key))
	out := append([]peer.ID(nil), ids...)
	sort.SliceStable(out, func(i, j int) bool {
		di := XorDist(KadID([]byte(out[i])), k)
		dj := XorDist(KadID([]byte(out[j])), k)
		return bytes.Compare(di[:], dj[:]) < 0
	})
	return out
}

// CommonPrefixLen of two Kademlia ids.
func CommonPrefixLen(a, b [32]byte) int {
	for i := range a {
		x := a[i] ^ b[i]
		if x != 0 {
			n := 0
			for x&0x80 == 0 {
				x <<= 1
				n++
			}
			return i*8 + n
		}
	}
	return 256
}

// Universe is the set of simulated peers of one scenario, ranked by distance
// to the scenario key: rank 1 is the nearest. Rank 0 is the node under test.
type Universe struct {
	Self  peer.ID
	Key   string
	Peers []peer.ID // index i holds rank i+1
	rank  map[peer.ID]int
}

// NewUniverse ranks the peers by distance to key.
func NewUniverse(self peer.ID, key string, peers []peer.ID) *Universe {
	u := &Universe{Self: self, Key: key, Peers: SortByDistance(peers, key), rank: map[peer.ID]int{}}
	for i, p := range u.Peers {
		u.rank[p] = i + 1
	}
	u.rank[self] = 0
	return u
}

// Rank of a peer: 0 self, 1..N simulated peers, -1 unknown.
func (u *Universe) Rank(p peer.ID) int {
	if r, ok := u.rank[p]; ok {
		return r
	}
	return -1
}

// Ranks maps a list of peers to ranks.
func (u *Universe) Ranks(ps []peer.ID) []int {
	out := make([]int, 0, len(ps))
	for _, p := range ps {
		out = append(out, u.Rank(p))
	}
	return out
}

// P returns the peer of a given rank (1-based); rank 0 is self.
func (u *Universe) P(rank int) peer.ID {
	if rank == 0 {
		return u.Self
	}
	return u.Peers[rank-1]
}

// SelfRank is the position self would have among the peers by distance to the
// key: the number of peers strictly nearer than self, plus one.
func (u *Universe) SelfRank() int {
	all := SortByDistance(append([]peer.ID{u.Self}, u.Peers...), u.Key)
	for i, p := range all {
		if p == u.Self {
			return i + 1
		}
	}
	return 0
}
