package sim

import (
	"context"
	"sort"
	"sync"

	ds "github.com/ipfs/go-datastore"
	dsq "github.com/ipfs/go-datastore/query"
)

// JournalEntry is one durable-state mutation (a batch commit is one entry).
type JournalEntry struct {
	Seq   int // global sequence number (shared clock of all stores of a scenario)
	Sync  bool
	Puts  map[string][]byte
	Dels  []string
	Store string
}

// JournalClock is the shared sequence counter of the stores of one scenario.
type JournalClock struct {
	mu  sync.Mutex
	seq int
}

func (c *JournalClock) next() int { c.mu.Lock(); defer c.mu.Unlock(); c.seq++; return c.seq }

// Now is the sequence number of the latest journal entry of any store.
func (c *JournalClock) Now() int { c.mu.Lock(); defer c.mu.Unlock(); return c.seq }

// JournalDS is an in-memory datastore that records every mutation and every
// sync point, so that the state after a crash can be rebuilt: everything up
// to the last sync survives, and any prefix of the later writes may survive.
type JournalDS struct {
	Name    string
	Clock   *JournalClock
	mu      sync.Mutex
	data    map[string][]byte
	Journal []JournalEntry
	closed  bool
	initial map[string][]byte
	// Destroyed is set by the factory's destroy function.
	Destroyed bool
}

var _ ds.Batching = (*JournalDS)(nil)

func NewJournalDS(name string, clock *JournalClock) *JournalDS {
	return &JournalDS{Name: name, Clock: clock, data: map[string][]byte{}}
}

// FromSnapshot builds a fresh store holding the given content.
func FromSnapshot(name string, clock *JournalClock, content map[string][]byte) *JournalDS {
	j := NewJournalDS(name, clock)
	j.initial = map[string][]byte{}
	for k, v := range content {
		j.data[k] = append([]byte(nil), v...)
		j.initial[k] = append([]byte(nil), v...)
	}
	return j
}

func (j *JournalDS) Get(ctx context.Context, key ds.Key) ([]byte, error) {
	j.mu.Lock()
	defer j.mu.Unlock()
	v, ok := j.data[key.String()]
	if !ok {
		return nil, ds.ErrNotFound
	}
	return append([]byte(nil), v...), nil
}

func (j *JournalDS) Has(ctx context.Context, key ds.Key) (bool, error) {
	j.mu.Lock()
	defer j.mu.Unlock()
	_, ok := j.data[key.String()]
	return ok, nil
}

func (j *JournalDS) GetSize(ctx context.Context, key ds.Key) (int, error) {
	j.mu.Lock()
	defer j.mu.Unlock()
	v, ok := j.data[key.String()]
	if !ok {
		return -1, ds.ErrNotFound
	}
	return len(v), nil
}

func (j *JournalDS) Query(ctx context.Context, q dsq.Query) (dsq.Results, error) {
	j.mu.Lock()
	entries := make([]dsq.Entry, 0, len(j.data))
	for k, v := range j.data {
		e := dsq.Entry{Key: k, Size: len(v)}
		if !q.KeysOnly {
			e.Value = append([]byte(nil), v...)
		}
		entries = append(entries, e)
	}
	j.mu.Unlock()
	sort.Slice(entries, func(a, b int) bool { return entries[a].Key < entries[b].Key })
	return dsq.NaiveQueryApply(q, dsq.ResultsWithEntries(q, entries)), nil
}

func (j *JournalDS) apply(e JournalEntry) {
	for k, v := range e.Puts {
		j.data[k] = v
	}
	for _, k := range e.Dels {
		delete(j.data, k)
	}
}

func (j *JournalDS) Put(ctx context.Context, key ds.Key, value []byte) error {
	j.mu.Lock()
	defer j.mu.Unlock()
	e := JournalEntry{Seq: j.Clock.next(), Store: j.Name, Puts: map[string][]byte{key.String(): append([]byte(nil), value...)}}
	j.apply(e)
	j.Journal = append(j.Journal, e)
	return nil
}

func (j *JournalDS) Delete(ctx context.Context, key ds.Key) error {
	j.mu.Lock()
	defer j.mu.Unlock()
	e := JournalEntry{Seq: j.Clock.next(), Store: j.Name, Dels: []string{key.String()}}
	j.apply(e)
	j.Journal = append(j.Journal, e)
	return nil
}

func (j *JournalDS) Sync(ctx context.Context, prefix ds.Key) error {
	j.mu.Lock()
	defer j.mu.Unlock()
	j.Journal = append(j.Journal, JournalEntry{Seq: j.Clock.next(), Store: j.Name, Sync: true})
	return nil
}

func (j *JournalDS) Close() error { j.mu.Lock(); j.closed = true; j.mu.Unlock(); return nil }

type journalBatch struct {
	j    *JournalDS
	puts map[string][]byte
	dels []string
}

func (j *JournalDS) Batch(ctx context.Context) (ds.Batch, error) {
	return &journalBatch{j: j, puts: map[string][]byte{}}, nil
}

func (b *journalBatch) Put(ctx context.Context, key ds.Key, value []byte) error {
	b.puts[key.String()] = append([]byte(nil), value...)
	return nil
}

func (b *journalBatch) Delete(ctx context.Context, key ds.Key) error {
	delete(b.puts, key.String())
	b.dels = append(b.dels, key.String())
	return nil
}

func (b *journalBatch) Commit(ctx context.Context) error {
	if len(b.puts) == 0 && len(b.dels) == 0 {
		return nil
	}
	b.j.mu.Lock()
	defer b.j.mu.Unlock()
	e := JournalEntry{Seq: b.j.Clock.next(), Store: b.j.Name, Puts: b.puts, Dels: b.dels}
	b.j.apply(e)
	b.j.Journal = append(b.j.Journal, e)
	b.puts, b.dels = map[string][]byte{}, nil
	return nil
}

// LastSyncBefore returns the sequence number of the last sync entry with
// Seq <= at (0 if none).
func (j *JournalDS) LastSyncBefore(at int) int {
	j.mu.Lock()
	defer j.mu.Unlock()
	last := 0
	for _, e := range j.Journal {
		if e.Sync && e.Seq <= at {
			last = e.Seq
		}
	}
	return last
}

// StateAt rebuilds the content from the initial content plus every journal
// entry with Seq <= cut.
func (j *JournalDS) StateAt(initial map[string][]byte, cut int) map[string][]byte {
	j.mu.Lock()
	defer j.mu.Unlock()
	out := map[string][]byte{}
	for k, v := range j.initial {
		out[k] = v
	}
	for k, v := range initial {
		out[k] = v
	}
	for _, e := range j.Journal {
		if e.Seq > cut {
			break
		}
		for k, v := range e.Puts {
			out[k] = v
		}
		for _, k := range e.Dels {
			delete(out, k)
		}
	}
	return out
}

// Content returns a copy of the current content.
func (j *JournalDS) Content() map[string][]byte {
	j.mu.Lock()
	defer j.mu.Unlock()
	out := map[string][]byte{}
	for k, v := range j.data {
		out[k] = v
	}
	return out
}

// Seqs returns the sequence numbers of the mutation entries (not syncs).
func (j *JournalDS) Seqs() []int {
	j.mu.Lock()
	defer j.mu.Unlock()
	var out []int
	for _, e := range j.Journal {
		if !e.Sync {
			out = append(out, e.Seq)
		}
	}
	return out
}
