package sim

import (
	"math/rand"
)

// Chooser resolves every nondeterministic decision of a run. A run is fully
// determined by the sequence of indices returned.
type Chooser interface {
	// Choose returns an index in [0,n). n must be >= 1.
	Choose(n int) int
	// Taken returns the indices chosen so far.
	Taken() []int
}

// RandomChooser draws choices from a seeded PRNG.
type RandomChooser struct {
	R     *rand.Rand
	taken []int
}

func NewRandomChooser(seed int64) *RandomChooser {
	return &RandomChooser{R: rand.New(rand.NewSource(seed))}
}
func (c *RandomChooser) Choose(n int) int {
	i := 0
	if n > 1 {
		i = c.R.Intn(n)
	}
	c.taken = append(c.taken, i)
	return i
}
func (c *RandomChooser) Taken() []int { return c.taken }

// ReplayChooser replays a recorded sequence; beyond its end it picks 0.
type ReplayChooser struct {
	Seq   []int
	pos   int
	taken []int
	// Diverged is set when a recorded index was out of range.
	Diverged bool
}

func (c *ReplayChooser) Choose(n int) int {
	i := 0
	if c.pos < len(c.Seq) {
		i = c.Seq[c.pos]
		c.pos++
		if i >= n {
			c.Diverged = true
			i = 0
		}
	}
	c.taken = append(c.taken, i)
	return i
}
func (c *ReplayChooser) Taken() []int { return c.taken }

// DFS enumerates the whole choice tree by re-execution: each run follows the
// current prefix and extends it with first choices; Next() advances to the
// next unexplored branch.
type DFS struct {
	prefix []int
	widths []int
	pos    int
}

func (d *DFS) Choose(n int) int {
	if d.pos < len(d.prefix) {
		i := d.prefix[d.pos]
		if i >= n { // tree changed shape (should not happen in deterministic runs)
			i = n - 1
			d.prefix[d.pos] = i
		}
		d.widths[d.pos] = n
		d.pos++
		return i
	}
	d.prefix = append(d.prefix, 0)
	d.widths = append(d.widths, n)
	d.pos++
	return 0
}

func (d *DFS) Taken() []int { return append([]int(nil), d.prefix[:d.pos]...) }

// Next prepares the next run; it returns false when the tree is exhausted.
func (d *DFS) Next() bool {
	d.prefix = d.prefix[:d.pos]
	d.widths = d.widths[:d.pos]
	for len(d.prefix) > 0 {
		last := len(d.prefix) - 1
		if d.prefix[last]+1 < d.widths[last] {
			d.prefix[last]++
			d.pos = 0
			return true
		}
		d.prefix = d.prefix[:last]
		d.widths = d.widths[:last]
	}
	d.pos = 0
	return false
}

// Prefix returns the choices the next run is bound to follow; beyond them it
// takes the first option each time.
func (d *DFS) Prefix() []int { return append([]int{}, d.prefix...) }
