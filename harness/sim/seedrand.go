package sim

import (
	"io"
	"math/rand"
	"sync"
)

// SeededReader is a deterministic byte stream that may be read from several
// goroutines (math/rand.Rand itself must not be). Drivers substitute it for
// crypto/rand.Reader so that what the code under test draws at random is a
// function of the scenario and a run can be repeated.
func SeededReader(seed int64) io.Reader {
	return &seededReader{r: rand.New(rand.NewSource(seed))}
}

type seededReader struct {
	mu sync.Mutex
	r  *rand.Rand
}

func (s *seededReader) Read(p []byte) (int, error) {
	s.mu.Lock()
	defer s.mu.Unlock()
	return s.r.Read(p)
}
