package sim

import (
	"context"
	"fmt"
	"sync"

	pb "github.com/libp2p/go-libp2p-kad-dht/pb"
	"github.com/libp2p/go-libp2p/core/peer"
)

// RPC is one outgoing DHT message of the node under test.
type RPC struct {
	Peer    peer.ID
	Msg     *pb.Message
	Request bool // SendRequest (true) or SendMessage (false)
}

// RPCOutcome is what the scheduler lets an RPC return.
type RPCOutcome struct {
	Resp *pb.Message
	Err  error
}

// GatedSender is a pb.MessageSenderWithDisconnect whose every call parks at
// a gate until the scheduler decides its outcome.
type GatedSender struct {
	G *Gate
	// LabelOf yields the canonical label of an RPC (used to order pending RPCs).
	LabelOf func(*RPC) string

	mu          sync.Mutex
	Disconnects []peer.ID
}

var _ pb.MessageSenderWithDisconnect = (*GatedSender)(nil)

func (s *GatedSender) label(r *RPC) string {
	if s.LabelOf != nil {
		return s.LabelOf(r)
	}
	return fmt.Sprintf("%s/%d/%x", r.Peer, r.Msg.GetType(), r.Msg.GetKey())
}

func (s *GatedSender) SendRequest(ctx context.Context, p peer.ID, m *pb.Message) (*pb.Message, error) {
	r := &RPC{Peer: p, Msg: m, Request: true}
	v, err := s.G.Park(ctx, "req", s.label(r), r)
	if err != nil {
		return nil, err
	}
	o := v.(RPCOutcome)
	return o.Resp, o.Err
}

func (s *GatedSender) SendMessage(ctx context.Context, p peer.ID, m *pb.Message) error {
	r := &RPC{Peer: p, Msg: m, Request: false}
	v, err := s.G.Park(ctx, "msg", s.label(r), r)
	if err != nil {
		return err
	}
	return v.(RPCOutcome).Err
}

func (s *GatedSender) OnDisconnect(ctx context.Context, p peer.ID) {
	s.mu.Lock()
	s.Disconnects = append(s.Disconnects, p)
	s.mu.Unlock()
}
