package sim

import (
	"bytes"
	"encoding/binary"
	"errors"

	pb "github.com/libp2p/go-libp2p-kad-dht/pb"
	"github.com/libp2p/go-libp2p/core/network"
	"github.com/libp2p/go-libp2p/core/peer"
	"github.com/libp2p/go-libp2p/core/protocol"
	ma "github.com/multiformats/go-multiaddr"
	"google.golang.org/protobuf/proto"
)

// Frame prefixes a marshalled message with its varint length (the DHT wire framing).
func Frame(b []byte) []byte {
	var l [binary.MaxVarintLen64]byte
	n := binary.PutUvarint(l[:], uint64(len(b)))
	return append(l[:n:n], b...)
}

// FrameMsg marshals and frames a DHT message.
func FrameMsg(m *pb.Message) []byte {
	b, err := proto.Marshal(m)
	if err != nil {
		panic(err)
	}
	return Frame(b)
}

// Unframe splits a byte stream into framed messages; rest holds trailing bytes
// that do not form a complete frame.
func Unframe(b []byte) (msgs [][]byte, rest []byte) {
	for len(b) > 0 {
		l, n := binary.Uvarint(b)
		if n <= 0 || uint64(len(b)-n) < l {
			return msgs, b
		}
		msgs = append(msgs, b[n:n+int(l)])
		b = b[n+int(l):]
	}
	return msgs, nil
}

// InboundStream opens an inbound stream from a remote peer on the host, as the
// libp2p host would hand it to the registered protocol handler.
func (h *FakeHost) InboundStream(from peer.ID, raddr ma.Multiaddr, proto protocol.ID) *FakeStream {
	var c *FakeConn
	for _, x := range h.net.ConnsToPeer(from) {
		c = x.(*FakeConn)
		break
	}
	if c == nil {
		c = h.net.AddConn(from, raddr, network.DirInbound)
	}
	return c.OpenStream(proto, network.DirInbound)
}

// ServerReply is what came back on an inbound stream.
type ServerReply struct {
	Msgs   []*pb.Message // well-formed response messages, in order
	Raw    [][]byte      // their raw bytes
	Junk   bool          // bytes that are not a well-formed frame / message
	Reset  bool          // the handler reset the stream
	Closed bool          // the handler closed the stream
	Bytes  int
}

// ReadReply parses everything the handler wrote so far on the stream.
func ReadReply(s *FakeStream) ServerReply {
	r := ServerReply{Reset: s.WasReset(), Closed: s.LocalClosed()}
	b := s.TakeWritten()
	r.Bytes = len(b)
	raws, rest := Unframe(b)
	if len(rest) > 0 {
		r.Junk = true
	}
	for _, raw := range raws {
		m := new(pb.Message)
		if err := proto.Unmarshal(raw, m); err != nil {
			r.Junk = true
			continue
		}
		r.Msgs = append(r.Msgs, m)
		r.Raw = append(r.Raw, raw)
	}
	return r
}

// ServeOnce feeds one request (already framed bytes) followed by EOF to the
// handler registered for proto and runs the handler in the calling goroutine.
func (h *FakeHost) ServeOnce(from peer.ID, raddr ma.Multiaddr, proto protocol.ID, framed []byte) (ServerReply, error) {
	hd := h.Handler(proto)
	if hd == nil {
		return ServerReply{}, errors.New("no handler registered")
	}
	s := h.InboundStream(from, raddr, proto)
	s.RemoteWrite(framed)
	s.RemoteCloseWrite()
	hd(s)
	return ReadReply(s), nil
}

var _ = bytes.Equal

// RemoteReadFrame blocks until the local side has written one complete framed
// message and returns its body; ok is false once the stream is reset or the
// local side closed it without a complete frame pending.
func (s *FakeStream) RemoteReadFrame() (body []byte, ok bool) {
	for {
		s.mu.Lock()
		if l, n := binary.Uvarint(s.out); n > 0 && uint64(len(s.out)-n) >= l {
			body = append([]byte(nil), s.out[n:n+int(l)]...)
			s.out = s.out[n+int(l):]
			s.mu.Unlock()
			return body, true
		}
		if s.reset || s.localClosed {
			s.mu.Unlock()
			return nil, false
		}
		s.mu.Unlock()
		<-s.wnotify
	}
}
