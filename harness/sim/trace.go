package sim

import (
	"bufio"
	"encoding/json"
	"os"
	"sort"
	"sync"
)

// Ev is one trace event.
type Ev map[string]any

// Trace collects the events of one run. Events from asynchronous sources are
// buffered and flushed in a canonical order at quiescent points so that the
// same schedule always yields the same trace.
type Trace struct {
	mu     sync.Mutex
	Events []Ev
	buf    []bufEv
	n      int
}

type bufEv struct {
	src int
	key string
	n   int
	ev  Ev
}

// Add appends an event immediately.
func (t *Trace) Add(e string, kv ...any) {
	t.mu.Lock()
	defer t.mu.Unlock()
	t.Events = append(t.Events, mk(e, kv))
}

// AddBuf buffers an event from asynchronous source src; within a flush events
// are ordered by (src, key, arrival).
func (t *Trace) AddBuf(src int, key string, e string, kv ...any) {
	t.mu.Lock()
	defer t.mu.Unlock()
	t.n++
	t.buf = append(t.buf, bufEv{src, key, t.n, mk(e, kv)})
}

// Flush moves the buffered events to the trace in canonical order.
func (t *Trace) Flush() {
	t.mu.Lock()
	defer t.mu.Unlock()
	sort.SliceStable(t.buf, func(i, j int) bool {
		a, b := t.buf[i], t.buf[j]
		if a.src != b.src {
			return a.src < b.src
		}
		if a.key != b.key {
			return a.key < b.key
		}
		return a.n < b.n
	})
	for _, b := range t.buf {
		t.Events = append(t.Events, b.ev)
	}
	t.buf = t.buf[:0]
}

func mk(e string, kv []any) Ev {
	ev := Ev{"e": e}
	for i := 0; i+1 < len(kv); i += 2 {
		ev[kv[i].(string)] = kv[i+1]
	}
	return ev
}

// Ints returns a non-nil copy (so JSON has [] rather than null).
func Ints(x []int) []int {
	out := make([]int, 0, len(x))
	return append(out, x...)
}

// Writer appends runs to an ndjson file.
type Writer struct {
	f *os.File
	w *bufio.Writer
	// Lines written so far.
	Lines int
	// Runs written so far.
	Runs int
}

func NewWriter(path string) (*Writer, error) {
	f, err := os.Create(path)
	if err != nil {
		return nil, err
	}
	return &Writer{f: f, w: bufio.NewWriterSize(f, 1<<20)}, nil
}

// WriteRun writes the events of one run; every line gets the run number "t"
// and the index within the run "i".
func (w *Writer) WriteRun(evs []Ev) error {
	w.Runs++
	for i, ev := range evs {
		ev["t"] = w.Runs
		ev["i"] = i + 1
		b, err := json.Marshal(ev)
		if err != nil {
			return err
		}
		w.w.Write(b)
		w.w.WriteByte('\n')
		w.Lines++
	}
	return nil
}

func (w *Writer) Close() error {
	if err := w.w.Flush(); err != nil {
		return err
	}
	return w.f.Close()
}
