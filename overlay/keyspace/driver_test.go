package keyspace

// Verification driver for the keyspace planning functions (property C18).
// Compiled into this package with `go test -overlay` by /verif/bin/check; it
// never replaces an existing file. It calls the real functions on enumerated
// and random inputs and records input/output pairs; TLC evaluates the
// set-theoretic definitions of Keyspace.tla on every record.

import (
	"bufio"
	"encoding/json"
	"math/rand"
	"os"
	"sort"
	"strconv"
	"testing"

	"github.com/ipfs/go-libdht/kad/key/bit256"
	"github.com/ipfs/go-libdht/kad/key/bitstr"
	"github.com/ipfs/go-libdht/kad/trie"
	"github.com/libp2p/go-libp2p/core/peer"
	mh "github.com/multiformats/go-multihash"
)

var vZeroOrder = bitstr.Key("0000000000000000")

const vL = 4 // peers / multihashes are abstracted to the first vL bits of their identifier

var (
	vPeers []peer.ID      // index = vL-bit value
	vMhs   []mh.Multihash // index = vL-bit value
)

func vInit() {
	if vPeers != nil {
		return
	}
	vPeers = make([]peer.ID, 1<<vL)
	vMhs = make([]mh.Multihash, 1<<vL)
	r := rand.New(rand.NewSource(4242))
	np, nm := 0, 0
	for np < len(vPeers) || nm < len(vMhs) {
		b := make([]byte, 32)
		r.Read(b)
		h, _ := mh.Encode(b, mh.SHA2_256)
		pv := vVal(PeerIDToBit256(peer.ID(h)))
		if vPeers[pv] == "" {
			vPeers[pv] = peer.ID(h)
			np++
		}
		mv := vVal(MhToBit256(h))
		if vMhs[mv] == nil {
			vMhs[mv] = h
			nm++
		}
	}
}

func vVal(k bit256.Key) int {
	v := 0
	for i := 0; i < vL; i++ {
		v = v<<1 | int(k.Bit(i))
	}
	return v
}

func vBits(s bitstr.Key) []int {
	out := make([]int, 0, len(s))
	for _, c := range s {
		out = append(out, int(c-'0'))
	}
	return out
}

func vBitsList(ks []bitstr.Key) [][]int {
	out := [][]int{}
	for _, k := range ks {
		out = append(out, vBits(k))
	}
	return out
}

func vStr(v, n int) bitstr.Key { // n-bit string of value v
	s := ""
	for i := n - 1; i >= 0; i-- {
		s += strconv.Itoa((v >> i) & 1)
	}
	return bitstr.Key(s)
}

func vTrie(keys []bitstr.Key) *trie.Trie[bitstr.Key, int] {
	t := trie.New[bitstr.Key, int]()
	for i, k := range keys {
		t.Add(k, i)
	}
	return t
}

func vKeysOf[D any](t *trie.Trie[bitstr.Key, D]) []bitstr.Key {
	ks := AllKeys(t, vZeroOrder)
	sort.Slice(ks, func(i, j int) bool { return ks[i] < ks[j] })
	return ks
}

// all prefix-free sets of bit strings of length 1..n (as sorted slices)
func vPrefixFree(n int) [][]bitstr.Key {
	var rec func(p bitstr.Key) [][]bitstr.Key
	rec = func(p bitstr.Key) [][]bitstr.Key {
		// the possible contents of the subtree rooted at p: nothing, p itself, or a combination of both children
		out := [][]bitstr.Key{{}}
		if len(p) > 0 {
			out = append(out, []bitstr.Key{p})
		}
		if len(p) < n {
			l, r := rec(p+"0"), rec(p+"1")
			for _, a := range l {
				for _, b := range r {
					if len(a)+len(b) == 0 {
						continue
					}
					out = append(out, append(append([]bitstr.Key{}, a...), b...))
				}
			}
		}
		return out
	}
	return rec("")
}

type vRec map[string]any

func vRandPrefixFree(r *rand.Rand, n int) []bitstr.Key {
	var rec func(p bitstr.Key) []bitstr.Key
	rec = func(p bitstr.Key) []bitstr.Key {
		x := r.Intn(10)
		switch {
		case x < 3 || len(p) >= n && x < 6:
			return nil
		case len(p) >= n || (x < 6 && len(p) > 0):
			return []bitstr.Key{p}
		default:
			return append(rec(p+"0"), rec(p+"1")...)
		}
	}
	return rec("")
}

func vRandStr(r *rand.Rand, minLen, maxLen int) bitstr.Key {
	l := minLen + r.Intn(maxLen-minLen+1)
	return vStr(r.Intn(1<<l), l)
}

// ---- one record per call of a real function ----

func recAlloc(items, dests []bitstr.Key, k int) vRec {
	it := trie.New[bitstr.Key, int]()
	for i, x := range items {
		it.Add(x, i)
	}
	dt := trie.New[bitstr.Key, int]()
	for i, x := range dests {
		dt.Add(x, i)
	}
	res := AllocateToKClosest(it, dt, k)
	out := []any{}
	for di := range dests {
		got := []int{}
		for _, batch := range res[di] {
			for _, x := range batch {
				got = append(got, x)
			}
		}
		sort.Ints(got)
		gl := [][]int{}
		for _, x := range got {
			gl = append(gl, vBits(items[x]))
		}
		out = append(out, map[string]any{"d": vBits(dests[di]), "items": gl})
	}
	return vRec{"f": "alloc", "items": vBitsList(items), "dests": vBitsList(dests), "k": k, "out": out}
}

func recRegions(peerVals []int, size int, order int, covered bitstr.Key, keyVals []int) vRec {
	ps := []peer.ID{}
	for _, v := range peerVals {
		ps = append(ps, vPeers[v])
	}
	var ok bit256.Key = PeerIDToBit256(vPeers[order])
	regions := RegionsFromPeers(ps, size, ok, covered)
	ks := []mh.Multihash{}
	for _, v := range keyVals {
		ks = append(ks, vMhs[v])
	}
	regions = AssignKeysToRegions(regions, ks)
	out := []any{}
	for _, rg := range regions {
		rp := []int{}
		for _, p := range AllValues(rg.Peers, bit256.ZeroKey()) {
			rp = append(rp, vVal(PeerIDToBit256(p)))
		}
		sort.Ints(rp)
		rk := []int{}
		if rg.Keys != nil {
			for _, h := range AllValues(rg.Keys, bit256.ZeroKey()) {
				rk = append(rk, vVal(MhToBit256(h)))
			}
		}
		sort.Ints(rk)
		out = append(out, map[string]any{"prefix": vBits(rg.Prefix), "peers": rp, "keys": rk})
	}
	pv := append([]int{}, peerVals...)
	kv := append([]int{}, keyVals...)
	return vRec{"f": "regions", "peers": pv, "size": size, "order": order, "covered": vBits(covered), "keys": kv, "out": out}
}

func recGaps(t []bitstr.Key, target, order bitstr.Key) vRec {
	g := TrieGaps(vTrie(t), target, order)
	return vRec{"f": "gaps", "tr": vBitsList(t), "target": vBits(target), "order": vBits(order), "out": vBitsList(g)}
}

func recSubtract(t0, t1 []bitstr.Key) vRec {
	res := SubtractTrie(vTrie(t0), vTrie(t1))
	return vRec{"f": "subtract", "tr0": vBitsList(t0), "tr1": vBitsList(t1), "out": vBitsList(vKeysOf(res))}
}

func recCoalesce(t []bitstr.Key) vRec {
	tr := vTrie(t)
	CoalesceTrie(tr)
	return vRec{"f": "coalesce", "tr": vBitsList(t), "out": vBitsList(vKeysOf(tr))}
}

// vNextOK: NextNonEmptyLeaf is called by the provider with a key that is in the
// trie or that does not overlap any key of the trie (precondition of the
// definition; a proper prefix of a trie key is never passed)
func vNextOK(t []bitstr.Key, k bitstr.Key) bool {
	for _, x := range t {
		if x != k && (IsBitstrPrefix(x, k) || IsBitstrPrefix(k, x)) {
			return false
		}
	}
	return len(k) > 0
}

func recNext(t []bitstr.Key, k, order bitstr.Key) vRec {
	e := NextNonEmptyLeaf(vTrie(t), k, order)
	out := [][]int{}
	if e != nil {
		out = append(out, vBits(e.Key))
	}
	return vRec{"f": "next", "tr": vBitsList(t), "k": vBits(k), "order": vBits(order), "out": out}
}

func recPrune(t []bitstr.Key, k bitstr.Key) vRec {
	tr := vTrie(t)
	PruneSubtrie(tr, k)
	// the pruned trie must still be walkable
	gaps := TrieGaps(tr, bitstr.Key(""), vZeroOrder)
	return vRec{"f": "prune", "tr": vBitsList(t), "k": vBits(k), "out": vBitsList(vKeysOf(tr)), "gapsafter": vBitsList(gaps), "size": tr.Size()}
}

func recFind(t []bitstr.Key, k bitstr.Key) vRec {
	p, ok := FindPrefixOfKey(vTrie(t), k)
	outp := [][]int{}
	if ok {
		outp = append(outp, vBits(p))
	}
	sub, sok := FindSubtrie(vTrie(t), k)
	subk := [][]int{}
	if sok {
		subk = vBitsList(vKeysOf(sub))
	}
	return vRec{"f": "find", "tr": vBitsList(t), "k": vBits(k), "prefix": outp, "subok": sok, "sub": subk}
}

func recCovered(t []bitstr.Key) vRec {
	return vRec{"f": "covered", "tr": vBitsList(t), "out": KeyspaceCovered(vTrie(t))}
}

func recShortest(target bitstr.Key, peerVals []int) vRec {
	ps := []peer.ID{}
	for _, v := range peerVals {
		ps = append(ps, vPeers[v])
	}
	p, got := ShortestCoveredPrefix(target, ps)
	gv := []int{}
	for _, x := range got {
		gv = append(gv, vVal(PeerIDToBit256(x)))
	}
	sort.Ints(gv)
	pb := vBits(p)
	full := false
	if len(pb) > vL {
		pb, full = pb[:vL], true
	}
	return vRec{"f": "shortest", "target": vBits(target), "peers": append([]int{}, peerVals...), "prefix": pb, "fullkey": full, "out": gv}
}

func vSubset(r *rand.Rand, n int, p float64) []int {
	out := []int{}
	for i := 0; i < n; i++ {
		if r.Float64() < p {
			out = append(out, i)
		}
	}
	return out
}

func TestVerifKeyspace(t *testing.T) {
	out := os.Getenv("VERIF_OUT")
	if out == "" {
		t.Skip("VERIF_OUT not set: run by /verif/bin/check")
	}
	vInit()
	seed, _ := strconv.ParseInt(os.Getenv("VERIF_SEED"), 10, 64)
	thorough := os.Getenv("VERIF_TIER") == "thorough"
	f, err := os.Create(out)
	if err != nil {
		t.Fatal(err)
	}
	w := bufio.NewWriterSize(f, 1<<20)
	rf, _ := os.Create(out + ".replays.ndjson")
	n := 0
	counts := map[string]int{}
	seen := map[string]bool{}
	var samples []any
	emit := func(rec vRec) {
		n++
		// each record is a run of its own: Reset line + record line
		rec["e"], rec["t"], rec["i"] = "Rec", n, 2
		b, _ := json.Marshal(rec)
		hdr, _ := json.Marshal(map[string]any{"e": "Reset", "t": n, "i": 1, "L": vL})
		w.Write(hdr)
		w.WriteByte('\n')
		w.Write(b)
		w.WriteByte('\n')
		counts[rec["f"].(string)]++
		seen[string(b[:min(len(b), 400)])] = true
		rb, _ := json.Marshal(map[string]any{"t": n, "replay": map[string]any{"scenario": rec}})
		rf.Write(append(rb, '\n'))
		if len(samples) < 4 && n%997 == 1 {
			samples = append(samples, rec)
		}
	}
	if rp := os.Getenv("VERIF_REPLAY"); rp != "" {
		// records are pure function calls: re-run the call described by the record
		b, err := os.ReadFile(rp)
		if err != nil {
			t.Fatal(err)
		}
		var wrap struct {
			Replay struct {
				Scenario map[string]any `json:"scenario"`
			} `json:"replay"`
		}
		if err := json.Unmarshal(b, &wrap); err != nil {
			t.Fatal(err)
		}
		emit(vReplay(wrap.Replay.Scenario))
	} else {
		r := rand.New(rand.NewSource(seed))
		// exhaustive on the 2-bit (thorough: 3-bit) space of prefix-free sets
		nb := 2
		if thorough {
			nb = 3
		}
		pf := vPrefixFree(nb)
		var strs []bitstr.Key
		for l := 0; l <= nb; l++ {
			for v := 0; v < 1<<l; v++ {
				strs = append(strs, vStr(v, l))
			}
		}
		for _, t0 := range pf {
			emit(recCoalesce(t0))
			emit(recCovered(t0))
			for _, k := range strs {
				emit(recPrune(t0, k))
				emit(recFind(t0, k))
				for _, o := range []bitstr.Key{vStr(0, nb), vStr((1<<nb)-1, nb), vStr(1, nb)} {
					emit(recGaps(t0, k, o))
					if vNextOK(t0, k) {
						emit(recNext(t0, k, o))
					}
				}
			}
			if !thorough || len(t0) <= 3 {
				for _, t1 := range pf {
					emit(recSubtract(t0, t1))
				}
			}
		}
		// allocation: every items / dests subset of the 2-bit (thorough: 3-bit) full keys, every k
		full := []bitstr.Key{}
		for v := 0; v < 1<<nb; v++ {
			full = append(full, vStr(v, nb))
		}
		for im := 1; im < 1<<len(full); im++ {
			for dm := 1; dm < 1<<len(full); dm++ {
				if thorough && r.Intn(8) != 0 {
					continue
				}
				var items, dests []bitstr.Key
				for i, x := range full {
					if im>>i&1 == 1 {
						items = append(items, x)
					}
					if dm>>i&1 == 1 {
						dests = append(dests, x)
					}
				}
				for k := 1; k <= len(dests)+1; k++ {
					emit(recAlloc(items, dests, k))
				}
			}
		}
		// random instances on the 4-bit space
		nr := 1500
		if thorough {
			nr = 40000
		}
		for i := 0; i < nr; i++ {
			t0, t1 := vRandPrefixFree(r, 4), vRandPrefixFree(r, 4)
			k := vRandStr(r, 0, 4)
			o := vStr(r.Intn(16), 4)
			emit(recGaps(t0, k, o))
			emit(recSubtract(t0, t1))
			emit(recCoalesce(t0))
			emit(recPrune(t0, k))
			emit(recFind(t0, k))
			emit(recCovered(t0))
			if vNextOK(t0, k) {
				emit(recNext(t0, k, o))
			}
			if len(t0) > 0 {
				emit(recNext(t0, t0[r.Intn(len(t0))], o))
			}
			var items, dests []bitstr.Key
			for _, v := range vSubset(r, 16, 0.4) {
				items = append(items, vStr(v, 4))
			}
			for _, v := range vSubset(r, 16, 0.4) {
				dests = append(dests, vStr(v, 4))
			}
			if len(items) > 0 && len(dests) > 0 {
				emit(recAlloc(items, dests, 1+r.Intn(5)))
			}
			peers := vSubset(r, 16, 0.2+r.Float64()*0.6)
			cov := vRandStr(r, 0, 2)
			// all peers are expected to match the covered prefix
			var pm []int
			for _, p := range peers {
				if len(cov) == 0 || vStr(p, vL)[:len(cov)] == cov {
					pm = append(pm, p)
				}
			}
			emit(recRegions(pm, 1+r.Intn(4), r.Intn(16), cov, vSubset(r, 16, 0.4)))
			emit(recShortest(vRandStr(r, 1, 4), vSubset(r, 16, 0.3)))
		}
	}
	w.Flush()
	f.Close()
	rf.Close()
	sum := map[string]any{"driver": "keyspace", "runs": n, "lines": 2 * n, "distinct": len(seen), "nontrivial": len(seen),
		"rule":     "one record per call of a real keyspace function: exhaustive over prefix-free sets / key subsets of a 2-bit (thorough 3-bit) space and random instances on a 4-bit space (real peer ids and multihashes chosen per 4-bit value); distinct by record content",
		"counters": counts, "samples": samples, "problems": []string{}}
	b, _ := json.MarshalIndent(sum, "", " ")
	os.WriteFile(out+".summary.json", b, 0o644)
}

// vReplay re-executes the call described by a record.
func vReplay(m map[string]any) vRec {
	bl := func(x any) []bitstr.Key {
		out := []bitstr.Key{}
		for _, e := range x.([]any) {
			out = append(out, bs(e))
		}
		return out
	}
	il := func(x any) []int {
		out := []int{}
		for _, e := range x.([]any) {
			out = append(out, int(e.(float64)))
		}
		return out
	}
	switch m["f"] {
	case "alloc":
		return recAlloc(bl(m["items"]), bl(m["dests"]), int(m["k"].(float64)))
	case "regions":
		return recRegions(il(m["peers"]), int(m["size"].(float64)), int(m["order"].(float64)), bs(m["covered"]), il(m["keys"]))
	case "gaps":
		return recGaps(bl(m["tr"]), bs(m["target"]), bs(m["order"]))
	case "subtract":
		return recSubtract(bl(m["tr0"]), bl(m["tr1"]))
	case "coalesce":
		return recCoalesce(bl(m["tr"]))
	case "next":
		return recNext(bl(m["tr"]), bs(m["k"]), bs(m["order"]))
	case "prune":
		return recPrune(bl(m["tr"]), bs(m["k"]))
	case "find":
		return recFind(bl(m["tr"]), bs(m["k"]))
	case "covered":
		return recCovered(bl(m["tr"]))
	case "shortest":
		return recShortest(bs(m["target"]), il(m["peers"]))
	}
	panic("unknown record")
}

func bs(x any) bitstr.Key {
	s := ""
	for _, e := range x.([]any) {
		s += strconv.Itoa(int(e.(float64)))
	}
	return bitstr.Key(s)
}
