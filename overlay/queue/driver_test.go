package queue

// Verification driver for the provide / reprovide queues (property C19).
// Compiled into this package with `go test -overlay` by /verif/bin/check; it
// never replaces an existing file. It drives the real queues through random
// histories and logs the full projected state after every operation.

import (
	"bufio"
	"context"
	"encoding/json"
	"fmt"
	"math/rand"
	"os"
	"sort"
	"strconv"
	"testing"

	ds "github.com/ipfs/go-datastore"
	dssync "github.com/ipfs/go-datastore/sync"
	"github.com/ipfs/go-libdht/kad/key/bitstr"
	mh "github.com/multiformats/go-multihash"

	"github.com/libp2p/go-libp2p-kad-dht/provider/internal/keyspace"
)

const vBits = 5 // abstract keys are the first vBits bits of the Kademlia identifier

type vOp struct {
	Kind   string `json:"kind"` // enq | deq | deqm | rem | clear | persist | snap | restart | renq | rdeq | rrem | rclear
	Prefix string `json:"prefix"`
	Keys   []int  `json:"keys"`
	Batch  int    `json:"batch"`
}

type vScenario struct {
	Seed int64 `json:"seed"`
	Ops  []vOp `json:"ops"`
}

var vKeys []mh.Multihash // index = abstract key value (vBits bits)

func vInitKeys() {
	if vKeys != nil {
		return
	}
	vKeys = make([]mh.Multihash, 1<<vBits)
	found := 0
	r := rand.New(rand.NewSource(42))
	for found < len(vKeys) {
		b := make([]byte, 32)
		r.Read(b)
		h, _ := mh.Encode(b, mh.SHA2_256)
		k := keyspace.MhToBit256(h)
		v := 0
		for i := 0; i < vBits; i++ {
			v = v<<1 | int(k.Bit(i))
		}
		if vKeys[v] == nil {
			vKeys[v] = h
			found++
		}
	}
}

func vKeyOf(h mh.Multihash) int {
	for i, x := range vKeys {
		if string(x) == string(h) {
			return i
		}
	}
	return -1
}

func vBitsOf(v, n int) []int { // first n of the vBits bits of v
	out := make([]int, 0, n)
	for i := 0; i < n; i++ {
		out = append(out, (v>>(vBits-1-i))&1)
	}
	return out
}

func vPfx(p string) []int {
	out := make([]int, 0, len(p))
	for _, c := range p {
		out = append(out, int(c-'0'))
	}
	return out
}

func vKeysUnder(p string) []int {
	var out []int
	for v := 0; v < 1<<vBits; v++ {
		ok := true
		for i, c := range p {
			if (v>>(vBits-1-i))&1 != int(c-'0') {
				ok = false
			}
		}
		if ok {
			out = append(out, v)
		}
	}
	return out
}

func vState(q *ProvideQueue) (order [][]int, keys []int) {
	order = [][]int{}
	for p := range q.queue.queue.Iter() {
		order = append(order, vPfx(string(p)))
	}
	keys = []int{}
	for _, h := range keyspace.AllValues(q.keys, zeroKey) {
		keys = append(keys, vKeyOf(h))
	}
	sort.Ints(keys)
	return
}

func vRState(q *ReprovideQueue) [][]int {
	order := [][]int{}
	for p := range q.queue.queue.Iter() {
		order = append(order, vPfx(string(p)))
	}
	return order
}

func vInts(hs []mh.Multihash) []int {
	out := []int{}
	for _, h := range hs {
		out = append(out, vKeyOf(h))
	}
	sort.Ints(out)
	return out
}

func vRun(sc *vScenario) []map[string]any {
	vInitKeys()
	q := NewProvideQueue()
	rq := NewReprovideQueue()
	evs := []map[string]any{{"e": "Reset", "bits": vBits}}
	ctx := context.Background()
	// one datastore for the whole history, as in a node that restarts on the same disk
	d := dssync.MutexWrap(ds.NewMapDatastore())
	for _, op := range sc.Ops {
		ev := map[string]any{"e": "Op", "op": op.Kind, "prefix": vPfx(op.Prefix), "keys": append([]int{}, op.Keys...),
			"retkeys": []int{}, "retprefix": []int{}, "retok": true, "lost": false}
		switch op.Kind {
		case "enq":
			hs := []mh.Multihash{}
			for _, k := range op.Keys {
				hs = append(hs, vKeys[k])
			}
			q.Enqueue(bitstr.Key(op.Prefix), hs...)
		case "deq":
			p, hs, ok := q.Dequeue()
			ev["retprefix"], ev["retkeys"], ev["retok"] = vPfx(string(p)), vInts(hs), ok
		case "deqm":
			hs := q.DequeueMatching(bitstr.Key(op.Prefix))
			ev["retkeys"] = vInts(hs)
		case "rem":
			hs := []mh.Multihash{}
			for _, k := range op.Keys {
				hs = append(hs, vKeys[k])
			}
			q.Remove(hs...)
		case "clear":
			n := q.Clear()
			ev["retkeys"] = []int{n}
		case "persist":
			// persist, then restart: a fresh queue drains the datastore
			if err := q.Persist(ctx, d, op.Batch); err != nil {
				ev["retok"] = false
			}
			nq := NewProvideQueue()
			if err := nq.DrainDatastore(ctx, d); err != nil {
				ev["retok"] = false
			}
			q = nq
		case "snap":
			// persist only: the queue keeps running (or is persisted again later)
			if err := q.Persist(ctx, d, op.Batch); err != nil {
				ev["retok"] = false
			}
		case "restart":
			// restart without persisting: a fresh queue drains whatever the datastore holds
			nq := NewProvideQueue()
			if err := nq.DrainDatastore(ctx, d); err != nil {
				ev["retok"] = false
			}
			q = nq
		case "renq":
			rq.Enqueue(bitstr.Key(op.Prefix))
		case "rdeq":
			p, ok := rq.Dequeue()
			ev["retprefix"], ev["retok"] = vPfx(string(p)), ok
		case "rrem":
			ev["retok"] = rq.Remove(bitstr.Key(op.Prefix))
		case "rclear":
			ev["retkeys"] = []int{rq.Clear()}
		}
		order, keys := vState(q)
		ev["order"], ev["qkeys"], ev["size"], ev["regions"], ev["empty"] = order, keys, q.Size(), q.NumRegions(), q.IsEmpty()
		ev["rorder"], ev["rsize"] = vRState(rq), rq.Size()
		evs = append(evs, ev)
	}
	evs = append(evs, map[string]any{"e": "End"})
	return evs
}

func vGen(r *rand.Rand, n int) *vScenario {
	sc := &vScenario{Seed: r.Int63()}
	rp := func() string {
		l := r.Intn(4) // 0..3, the empty prefix included
		s := ""
		for i := 0; i < l; i++ {
			s += strconv.Itoa(r.Intn(2))
		}
		return s
	}
	for i := 0; i < n; i++ {
		switch x := r.Intn(20); {
		case x < 7:
			p := rp()
			under := vKeysUnder(p)
			r.Shuffle(len(under), func(a, b int) { under[a], under[b] = under[b], under[a] })
			k := 1 + r.Intn(3)
			if k > len(under) {
				k = len(under)
			}
			sc.Ops = append(sc.Ops, vOp{Kind: "enq", Prefix: p, Keys: under[:k]})
		case x < 9:
			sc.Ops = append(sc.Ops, vOp{Kind: "deq"})
		case x < 11:
			sc.Ops = append(sc.Ops, vOp{Kind: "deqm", Prefix: rp()})
		case x < 13:
			ks := []int{}
			for j := 0; j < 1+r.Intn(3); j++ {
				ks = append(ks, r.Intn(1<<vBits))
			}
			sc.Ops = append(sc.Ops, vOp{Kind: "rem", Keys: ks})
		case x < 14:
			sc.Ops = append(sc.Ops, vOp{Kind: "clear"})
		case x < 16:
			switch r.Intn(4) {
			case 0, 1:
				sc.Ops = append(sc.Ops, vOp{Kind: "persist", Batch: 1 + r.Intn(3)})
			case 2:
				sc.Ops = append(sc.Ops, vOp{Kind: "snap", Batch: 1 + r.Intn(3)})
			default:
				sc.Ops = append(sc.Ops, vOp{Kind: "restart"})
			}
		case x < 18:
			sc.Ops = append(sc.Ops, vOp{Kind: "renq", Prefix: rp()})
		case x < 19:
			sc.Ops = append(sc.Ops, vOp{Kind: "rdeq"})
		default:
			if r.Intn(4) == 0 {
				sc.Ops = append(sc.Ops, vOp{Kind: "rclear"})
			} else {
				sc.Ops = append(sc.Ops, vOp{Kind: "rrem", Prefix: rp()})
			}
		}
	}
	return sc
}

func TestVerifQueues(t *testing.T) {
	out := os.Getenv("VERIF_OUT")
	if out == "" {
		t.Skip("VERIF_OUT not set: run by /verif/bin/check")
	}
	seed, _ := strconv.ParseInt(os.Getenv("VERIF_SEED"), 10, 64)
	f, err := os.Create(out)
	if err != nil {
		t.Fatal(err)
	}
	w := bufio.NewWriterSize(f, 1<<20)
	rf, _ := os.Create(out + ".replays.ndjson")
	runs, lines := 0, 0
	seen := map[string]bool{}
	nontriv := 0
	var samples []any
	emit := func(sc *vScenario) {
		evs := vRun(sc)
		runs++
		sig := ""
		nt := false
		for i, ev := range evs {
			ev["t"], ev["i"] = runs, i+1
			b, _ := json.Marshal(ev)
			w.Write(b)
			w.WriteByte('\n')
			lines++
			if ev["e"] == "Op" {
				sig += fmt.Sprint(ev["op"], ev["prefix"], ev["keys"], ";")
				if o, ok := ev["order"].([][]int); ok && len(o) >= 2 {
					nt = true
				}
			}
		}
		if !seen[sig] {
			seen[sig] = true
			if nt {
				nontriv++
			}
		}
		b, _ := json.Marshal(map[string]any{"t": runs, "replay": map[string]any{"scenario": sc}})
		rf.Write(append(b, '\n'))
		if len(samples) < 3 {
			samples = append(samples, map[string]any{"replay": sc})
		}
	}
	if rp := os.Getenv("VERIF_REPLAY"); rp != "" {
		b, err := os.ReadFile(rp)
		if err != nil {
			t.Fatal(err)
		}
		var wrap struct {
			Replay struct {
				Scenario *vScenario `json:"scenario"`
			} `json:"replay"`
		}
		if err := json.Unmarshal(b, &wrap); err != nil || wrap.Replay.Scenario == nil {
			t.Fatalf("bad replay file: %v", err)
		}
		emit(wrap.Replay.Scenario)
	} else {
		r := rand.New(rand.NewSource(seed))
		n := 3000
		if os.Getenv("VERIF_TIER") == "thorough" {
			n = 60000
		}
		for i := 0; i < n; i++ {
			emit(vGen(r, 2+r.Intn(12)))
		}
	}
	w.Flush()
	f.Close()
	rf.Close()
	sum := map[string]any{"driver": "queues", "runs": runs, "lines": lines, "distinct": len(seen), "nontrivial": nontriv,
		"rule":     "random histories over enqueue/dequeue/dequeue-matching/remove/clear/persist+drain and the reprovide queue on a 5-bit keyspace with prefixes of length 0..3; distinct by operation sequence; non-trivial iff at least two prefixes were queued at some point",
		"counters": map[string]int{"histories": runs}, "samples": samples, "problems": []string{}}
	b, _ := json.MarshalIndent(sum, "", " ")
	os.WriteFile(out+".summary.json", b, 0o644)
}
