---------------------------- MODULE BufferedOps ----------------------------
(***************************************************************************)
(* The buffered wrapper of the sweeping provider                           *)
(* (provider/buffered/provider.go getOperations + worker): a batch of      *)
(* queued operations on keys is coalesced and applied to the inner         *)
(* provider in a fixed order of operation kinds.  The final effect must be *)
(* the one of applying the operations one by one: the same keys are kept   *)
(* for reproviding, and every key whose last operation asks for an         *)
(* advertisement (start of a key not kept, forced start, provide once)     *)
(* has a provide queued at the end.                                        *)
(*                                                                         *)
(* Inner provider, abstractly: kept set (keystore) and provide queue.      *)
(*   start(k):  if k not kept: keep it and queue a provide                 *)
(*   force(k):  keep it and queue a provide                                *)
(*   once(k):   queue a provide                                            *)
(*   stop(k):   un-keep it and remove it from the provide queue            *)
(***************************************************************************)
EXTENDS Integers, Sequences, FiniteSets, TLC

CONSTANTS Keys, MaxLen, BugOnceBeforeStop, BugStopNotCancelledByStart

Kinds == {"start", "force", "once", "stop"}
Ops == [kind : Kinds, key : Keys]
VARIABLES batch, kept0
vars == <<batch, kept0>>

Apply(st, op) ==
  CASE op.kind = "start" -> IF op.key \in st.kept THEN st ELSE [kept |-> st.kept \cup {op.key}, queue |-> st.queue \cup {op.key}]
    [] op.kind = "force" -> [kept |-> st.kept \cup {op.key}, queue |-> st.queue \cup {op.key}]
    [] op.kind = "once" -> [st EXCEPT !.queue = @ \cup {op.key}]
    [] OTHER -> [kept |-> st.kept \ {op.key}, queue |-> st.queue \ {op.key}]
RECURSIVE ApplyAll(_, _)
ApplyAll(st, q) == IF q = <<>> THEN st ELSE ApplyAll(Apply(st, Head(q)), Tail(q))

\* getOperations: stops are dropped when a start for the same key follows them; the other kinds keep their keys
KeysOf(q, kinds) == {q[i].key : i \in {j \in DOMAIN q : q[j].kind \in kinds}}
StopsKept(q) == {k \in Keys : \E i \in DOMAIN q : q[i] = [kind |-> "stop", key |-> k]
                               /\ (BugStopNotCancelledByStart \/ ~\E j \in DOMAIN q : j > i /\ q[j].key = k /\ q[j].kind \in {"start", "force"})}
AsSeq(S, kind) == LET RECURSIVE B(_)
                      B(R) == IF R = {} THEN <<>> ELSE LET x == CHOOSE y \in R : TRUE IN <<[kind |-> kind, key |-> x]>> \o B(R \ {x})
                  IN B(S)
\* the worker applies: forced starts, starts, stops, provide-onces (or, as the defect had it, provide-onces before stops)
Coalesced(st, q) ==
  LET f == AsSeq(KeysOf(q, {"force"}), "force")
      a == AsSeq(KeysOf(q, {"start"}), "start")
      o == AsSeq(KeysOf(q, {"once"}), "once")
      p == AsSeq(StopsKept(q), "stop")
  IN ApplyAll(st, IF BugOnceBeforeStop THEN f \o a \o o \o p ELSE f \o a \o p \o o)

Init == /\ batch \in UNION {[1..n -> Ops] : n \in 0..MaxLen} /\ kept0 \in SUBSET Keys
Next == UNCHANGED vars
Spec == Init /\ [][Next]_vars

Start0 == [kept |-> kept0, queue |-> {}]
One == ApplyAll(Start0, batch)
Co == Coalesced(Start0, batch)
\* the last operation on a key decides what must hold at the end
LastOn(k) == LET I == {i \in DOMAIN batch : batch[i].key = k} IN
             IF I = {} THEN "none" ELSE batch[CHOOSE i \in I : \A j \in I : j <= i].kind
SameKept == Co.kept = One.kept
\* a key whose last operation asks for an advertisement has one queued (an advertisement asked for
\* before a later stop may or may not still happen: one by one that depends on timing as well; a plain
\* start that follows a stop of a kept key cancels the stop and leaves the key to its schedule)
AdvertisedAsAsked ==
  \A k \in Keys : LastOn(k) \in {"force", "once"} => k \in Co.queue
=============================================================================
