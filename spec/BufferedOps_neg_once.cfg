SPECIFICATION Spec
CONSTANTS
  Keys = {1, 2}
  MaxLen = 3
  BugOnceBeforeStop = TRUE
  BugStopNotCancelledByStart = FALSE
INVARIANTS SameKept AdvertisedAsAsked
