SPECIFICATION Spec
CONSTANTS
  Keys = {1, 2}
  MaxLen = 3
  BugOnceBeforeStop = FALSE
  BugStopNotCancelledByStart = TRUE
INVARIANTS SameKept AdvertisedAsAsked
