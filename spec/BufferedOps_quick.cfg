SPECIFICATION Spec
CONSTANTS
  Keys = {1, 2}
  MaxLen = 4
  BugOnceBeforeStop = FALSE
  BugStopNotCancelledByStart = FALSE
INVARIANTS SameKept AdvertisedAsAsked
