SPECIFICATION Spec
CONSTANTS
  Keys = {1, 2}
  MaxLen = 6
  BugOnceBeforeStop = FALSE
  BugStopNotCancelledByStart = FALSE
INVARIANTS SameKept AdvertisedAsAsked
