------------------------------- MODULE Client -------------------------------
(***************************************************************************)
(* One RPC of a DHT client (pb/protocol_messenger.go over                   *)
(* internal/net/message_manager.go) against an arbitrary remote peer, and   *)
(* the acceptance of its closer peers into a lookup (query.go queryPeer).   *)
(* The remote chooses any reply from the message space, any transport       *)
(* failure, or silence.  Steps follow the code: write the request, wait for *)
(* a frame (bounded by the read timeout and the caller's context, one retry *)
(* on a fresh stream), decode, field checks per request type, sanitising    *)
(* of the peer records, cap on what enters the lookup.                      *)
(***************************************************************************)
EXTENDS Integers, FiniteSets, TLC

CONSTANTS K,               \* bucket size
          MaxList,          \* longest peer list a reply may carry
          BugEchoDeref,     \* PUT_VALUE echo: field of an absent record is read
          BugNoKeyCheck,    \* GET_VALUE: record key not compared with the requested key
          BugNoCap,         \* no 2K cap on closer peers entering the lookup
          BugNoTimeout      \* the read is not bounded by a timeout

ReqTypes == {"PUT_VALUE", "GET_VALUE", "FIND_NODE", "GET_PROVIDERS", "PING", "ADD_PROVIDER"}
\* the decodable replies: every combination of field classes
Replies == [type : {"same", "other", "unknown"}, key : {"same", "none", "other"},
            rec : {"none", "match", "otherkey", "emptykey", "novalue", "othervalue"},
            ncloser : 0..MaxList, nprov : 0..1, badrecs : BOOLEAN]
TransportFaults == {"garbage", "oversize", "eof", "reset", "partial-eof"}

VARIABLES req,      \* the request type
          pc,       \* "start" | "written" | "decoded" | "done"
          tries,    \* exchanges attempted on fresh streams
          reply,    \* the decoded reply, or "none"
          result,   \* "pending" | "ok" | "error" | "panic"
          gotrec,   \* GET_VALUE: record class handed to the caller ("none" if none)
          heard,    \* closer peers that entered the lookup state
          sanitized \* peer records handed on were bounded and stripped of undecodable addresses
vars == <<req, pc, tries, reply, result, gotrec, heard, sanitized>>

Init == /\ req \in ReqTypes /\ pc = "start" /\ tries = 0 /\ reply = "none"
        /\ result = "pending" /\ gotrec = "none" /\ heard = 0 /\ sanitized = TRUE

\* the request is written on the peer's stream (a fresh one on the first use and after any failure)
Write == /\ pc = "start"
         /\ tries' = tries + 1
         /\ IF req = "ADD_PROVIDER"
            THEN pc' = "done" /\ result' = "ok"      \* fire and forget: no reply is read
            ELSE pc' = "written" /\ UNCHANGED result
         /\ UNCHANGED <<req, reply, gotrec, heard, sanitized>>

\* the remote sends a decodable reply
Deliver(m) == /\ pc = "written"
              /\ reply' = m /\ pc' = "decoded"
              /\ UNCHANGED <<req, tries, result, gotrec, heard, sanitized>>

\* read error or read timeout: the stream is reset; one retry on a fresh stream, then an error
FailOrTimeout(isTimeout) ==
  /\ pc = "written"
  /\ (isTimeout => ~BugNoTimeout)
  /\ IF tries < 2 THEN pc' = "start" /\ UNCHANGED result
                  ELSE pc' = "done" /\ result' = "error"
  /\ UNCHANGED <<req, tries, reply, gotrec, heard, sanitized>>

\* field checks of ProtocolMessenger and acceptance into the lookup
Process ==
  /\ pc = "decoded"
  /\ pc' = "done"
  /\ LET m == reply
         learnt == IF BugNoCap THEN m.ncloser ELSE IF m.ncloser > 2 * K THEN 2 * K ELSE m.ncloser
     IN CASE req = "PUT_VALUE" ->
               \* the echo must carry the value that was sent
               /\ result' = IF m.rec = "none" THEN (IF BugEchoDeref THEN "panic" ELSE "error")
                            ELSE IF m.rec \in {"match", "otherkey", "emptykey"} THEN "ok" ELSE "error"
               /\ UNCHANGED <<gotrec, heard>>
          [] req = "GET_VALUE" ->
               IF m.rec = "none"
               THEN result' = "ok" /\ gotrec' = "none" /\ heard' = learnt
               ELSE IF m.rec \in {"otherkey", "emptykey"} /\ ~BugNoKeyCheck
                    THEN result' = "error" /\ gotrec' = "none" /\ heard' = 0
                    ELSE result' = "ok" /\ gotrec' = m.rec /\ heard' = learnt
          [] req \in {"FIND_NODE", "GET_PROVIDERS"} ->
               result' = "ok" /\ heard' = learnt /\ UNCHANGED gotrec
          [] req = "PING" ->
               /\ result' = IF m.type = "same" THEN "ok" ELSE "error"
               /\ UNCHANGED <<gotrec, heard>>
          [] OTHER -> result' = "error" /\ UNCHANGED <<gotrec, heard>>
  /\ UNCHANGED <<req, tries, reply, sanitized>>

Next == \/ Write
        \/ \E m \in Replies : Deliver(m)
        \/ \E t \in BOOLEAN : FailOrTimeout(t)
        \/ Process
        \/ (pc = "done" /\ UNCHANGED vars)

\* the remote may stay silent for ever: only the timer makes progress then
Spec == Init /\ [][Next]_vars /\ WF_vars(Write) /\ WF_vars(Process) /\ WF_vars(FailOrTimeout(TRUE))

NoPanic == result # "panic"
ErrorOrResult == pc = "done" => result \in {"ok", "error"}
ForeignRecordRejected == gotrec \notin {"otherkey", "emptykey"}
CapRespected == heard <= 2 * K
AtMostTwoStreams == tries <= 2
Returns == <>(pc = "done")
=============================================================================
