----------------------------- MODULE ClientTrace -----------------------------
(***************************************************************************)
(* The client side of the DHT protocol (C10): clauses evaluated by TLC on  *)
(* every case recorded from a real DHT client (default message sender over *)
(* in-memory streams) against scripted remote peers                        *)
(* (harness/drivers/client_test.go).  One "Case" record per operation:     *)
(* the reply classes of the peers and everything observed.                 *)
(***************************************************************************)
EXTENDS Integers, Sequences, FiniteSets, TLC, Json, IOUtils

Trace == ndJsonDeserialize(IOEnv.VERIF_TRACE)
NLines == Len(Trace)
VARIABLES l, s
vars == <<l, s>>
Range(f) == {f[i] : i \in DOMAIN f}
Ev == Trace[l]
Flag(b, id) == IF b THEN {} ELSE {<<"C10", id>>}
ResetLines == {i \in 1..NLines : Trace[i].e = "Reset"}
Init == \E i \in ResetLines : l = i + 1 /\ s = [c |-> Trace[i], viol |-> {}]
Step(ns) == /\ s' = ns /\ l' = l + 1
            /\ (ns.viol = s.viol \/ PrintT("VIOL " \o ToString(s.c.t) \o " " \o ToString(l) \o " " \o ToString(ns.viol \ s.viol)))

Decodable == {"msg", "unknownfields"}

Check(r) ==
  \* (a) nothing a remote peer sends crashes or wedges the node
     Flag(~r.crashed /\ r.panic = "", "a_client_crashed")
  \cup Flag(~r.hang /\ ~r.deadlock, "a_client_blocked_forever")
  \cup Flag(r.crashed \/ r.hang \/ r.deadlock \/ (r.returned /\ ~r.incomplete), "a_no_outcome")
  \* (b) records for a different key are rejected: every value handed to the caller was
  \*     offered in a record filed under the requested key
  \cup Flag(Range(r.values) \subseteq Range(r.offeredvals), "b_value_from_record_for_another_key")
  \* (c) at most 2K closer peers of one response enter the lookup
  \cup Flag(r.maxheard <= 2 * r.K, "c_more_than_2K_peers_of_one_response_heard")
  \cup Flag(\A c \in Range(r.contacted) : c.kind = "L" => c.idx <= 2 * r.K, "c_peer_beyond_2K_of_a_response_contacted")
  \cup Flag(\A c \in Range(r.contacted) : c.kind \in {"R", "L", "T"}, "c_unlisted_peer_contacted")
  \* (d) peer records are cut to 8 KiB and undecodable addresses dropped, in the peerstore
  \*     and in what is handed to the caller
  \cup Flag(Len(r.extraaddrs) = 0, "d_addresses_beyond_8KiB_or_undecodable_learned")
  \cup Flag(\A p \in Range(r.provs) : p.extra = 0, "d_addresses_beyond_8KiB_or_undecodable_returned")
  \* (e) a ping succeeds only on a decodable reply
  \cup Flag((r.op = "ping" /\ r.returned /\ r.err = "") => r.first \in Decodable, "e_ping_succeeded_without_reply")

Case == l <= NLines /\ Ev.e = "Case" /\ Step([s EXCEPT !.viol = @ \cup Check(Ev)])
End == l <= NLines /\ Ev.e = "End" /\ Step(s)
Next == Case \/ End
TraceSpec == Init /\ [][Next]_vars
TraceAccepted == TLCGet("distinct") = NLines
InvC10 == s.viol = {}
=============================================================================
