SPECIFICATION TraceSpec
INVARIANT InvC10
POSTCONDITION TraceAccepted
CHECK_DEADLOCK FALSE
