SPECIFICATION Spec
CONSTANTS
  K = 2
  MaxList = 5
  BugEchoDeref = TRUE
  BugNoKeyCheck = FALSE
  BugNoCap = FALSE
  BugNoTimeout = FALSE
INVARIANTS NoPanic ErrorOrResult ForeignRecordRejected CapRespected AtMostTwoStreams
PROPERTY Returns
