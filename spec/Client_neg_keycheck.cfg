SPECIFICATION Spec
CONSTANTS
  K = 2
  MaxList = 5
  BugEchoDeref = FALSE
  BugNoKeyCheck = TRUE
  BugNoCap = FALSE
  BugNoTimeout = FALSE
INVARIANTS NoPanic ErrorOrResult ForeignRecordRejected CapRespected AtMostTwoStreams
PROPERTY Returns
