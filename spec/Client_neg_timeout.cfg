SPECIFICATION Spec
CONSTANTS
  K = 2
  MaxList = 5
  BugEchoDeref = FALSE
  BugNoKeyCheck = FALSE
  BugNoCap = FALSE
  BugNoTimeout = TRUE
INVARIANTS NoPanic ErrorOrResult ForeignRecordRejected CapRespected AtMostTwoStreams
PROPERTY Returns
