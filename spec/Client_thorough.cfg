SPECIFICATION Spec
CONSTANTS
  K = 3
  MaxList = 9
  BugEchoDeref = FALSE
  BugNoKeyCheck = FALSE
  BugNoCap = FALSE
  BugNoTimeout = FALSE
INVARIANTS NoPanic ErrorOrResult ForeignRecordRejected CapRespected AtMostTwoStreams
PROPERTY Returns
