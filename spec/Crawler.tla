------------------------------- MODULE Crawler -------------------------------
(***************************************************************************)
(* The crawl work list (crawler/crawler.go Run): seeds are put on the      *)
(* to-dial list, jobs are handed to workers one at a time, every job       *)
(* produces one result; a successful result adds the peers it lists that   *)
(* have not been seen before.  The graph (who lists whom), the failing     *)
(* peers and the seed list (possibly with repetitions) are arbitrary.      *)
(***************************************************************************)
EXTENDS Integers, Sequences, FiniteSets, TLC

CONSTANTS N,               \* peers 1..N
          MaxSeeds,
          BugSeedsNotDeduplicated,
          BugSeenBeforeAccepted   \* a seed without addresses is marked as seen although it is skipped

Peers == 1..N
VARIABLES nbrs, fails, seeds, noaddr,   \* the world: chosen initially (noaddr: seeds given without any address)
          pc, i, toDial, seen, outstanding, inwork, results,
          nqueried, outcomes
vars == <<nbrs, fails, seeds, noaddr, pc, i, toDial, seen, outstanding, inwork, results, nqueried, outcomes>>

SeedLists == UNION {[1..k -> Peers] : k \in 0..MaxSeeds}

Init == /\ nbrs \in [Peers -> SUBSET Peers] /\ fails \in SUBSET Peers /\ seeds \in SeedLists /\ noaddr \in SUBSET Peers
        /\ pc = "seeding" /\ i = 1 /\ toDial = <<>> /\ seen = {} /\ outstanding = 0
        /\ inwork = {} /\ results = {}
        /\ nqueried = [p \in Peers |-> 0] /\ outcomes = [p \in Peers |-> 0]

\* the seeds are copied to the to-dial list; a seed that was seen already, or for which no
\* address is known, is skipped
Seed == /\ pc = "seeding"
        /\ IF i > Len(seeds) THEN pc' = "loop" /\ UNCHANGED <<i, toDial, seen>>
           ELSE /\ i' = i + 1 /\ pc' = pc
                /\ IF seeds[i] \in seen /\ ~BugSeedsNotDeduplicated
                   THEN UNCHANGED <<toDial, seen>>
                   ELSE IF seeds[i] \in noaddr
                        THEN toDial' = toDial /\ seen' = IF BugSeenBeforeAccepted THEN seen \cup {seeds[i]} ELSE seen
                        ELSE toDial' = Append(toDial, seeds[i]) /\ seen' = seen \cup {seeds[i]}
        /\ UNCHANGED <<nbrs, fails, seeds, noaddr, outstanding, inwork, results, nqueried, outcomes>>

\* the head of the to-dial list goes to a worker
Dispatch == /\ pc = "loop" /\ toDial # <<>>
            /\ inwork' = inwork \cup {<<Head(toDial), nqueried[Head(toDial)] + 1>>}
            /\ nqueried' = [nqueried EXCEPT ![Head(toDial)] = @ + 1]
            /\ toDial' = Tail(toDial) /\ outstanding' = outstanding + 1
            /\ UNCHANGED <<nbrs, fails, seeds, noaddr, pc, i, seen, results, outcomes>>

\* a worker finishes its query
Work(j) == /\ j \in inwork
           /\ inwork' = inwork \ {j} /\ results' = results \cup {j}
           /\ UNCHANGED <<nbrs, fails, seeds, noaddr, pc, i, toDial, seen, outstanding, nqueried, outcomes>>

\* the loop takes a result: one outcome callback; new peers join the to-dial list
Take(j) == /\ pc = "loop" /\ j \in results
           /\ results' = results \ {j}
           /\ outcomes' = [outcomes EXCEPT ![j[1]] = @ + 1]
           /\ outstanding' = outstanding - 1
           /\ LET new == IF j[1] \in fails THEN {} ELSE nbrs[j[1]] \ seen
                  RECURSIVE AsSeq(_)
                  AsSeq(S) == IF S = {} THEN <<>> ELSE LET x == CHOOSE y \in S : TRUE IN <<x>> \o AsSeq(S \ {x})
              IN toDial' = toDial \o AsSeq(new) /\ seen' = seen \cup new
           /\ UNCHANGED <<nbrs, fails, seeds, noaddr, pc, i, inwork, nqueried>>

Finish == /\ pc = "loop" /\ toDial = <<>> /\ outstanding = 0 /\ pc' = "done"
          /\ UNCHANGED <<nbrs, fails, seeds, noaddr, i, toDial, seen, outstanding, inwork, results, nqueried, outcomes>>

Next == Seed \/ Dispatch \/ (\E j \in inwork : Work(j)) \/ (\E j \in results : Take(j)) \/ Finish
        \/ (pc = "done" /\ UNCHANGED vars)
Spec == Init /\ [][Next]_vars /\ WF_vars(Next)

\* the peers reachable from the seeds through peers that answer
RECURSIVE Reach(_)
Reach(S) == LET T == S \cup UNION {nbrs[p] : p \in S \ fails} IN IF T = S THEN S ELSE Reach(T)
Reachable == Reach({seeds[k] : k \in DOMAIN seeds} \ noaddr)

NeverTwice == \A p \in Peers : nqueried[p] <= 1 /\ outcomes[p] <= nqueried[p]
Complete == pc = "done" => \A p \in Peers : nqueried[p] = (IF p \in Reachable THEN 1 ELSE 0) /\ outcomes[p] = nqueried[p]
Terminates == <>(pc = "done")
=============================================================================
