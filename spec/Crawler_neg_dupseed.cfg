SPECIFICATION Spec
CONSTANTS
  N = 2
  MaxSeeds = 2
  BugSeedsNotDeduplicated = TRUE
  BugSeenBeforeAccepted = FALSE
INVARIANTS NeverTwice Complete
PROPERTY Terminates
