SPECIFICATION Spec
CONSTANTS
  N = 2
  MaxSeeds = 2
  BugSeedsNotDeduplicated = TRUE
INVARIANTS NeverTwice Complete
PROPERTY Terminates
