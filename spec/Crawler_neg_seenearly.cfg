SPECIFICATION Spec
CONSTANTS
  N = 2
  MaxSeeds = 2
  BugSeedsNotDeduplicated = FALSE
  BugSeenBeforeAccepted = TRUE
INVARIANTS NeverTwice Complete
PROPERTY Terminates
