SPECIFICATION Spec
CONSTANTS
  N = 2
  MaxSeeds = 3
  BugSeedsNotDeduplicated = FALSE
  BugSeenBeforeAccepted = FALSE
INVARIANTS NeverTwice Complete
PROPERTY Terminates
