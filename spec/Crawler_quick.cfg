SPECIFICATION Spec
CONSTANTS
  N = 3
  MaxSeeds = 2
  BugSeedsNotDeduplicated = FALSE
INVARIANTS NeverTwice Complete
PROPERTY Terminates
