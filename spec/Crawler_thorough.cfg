SPECIFICATION Spec
CONSTANTS
  N = 3
  MaxSeeds = 3
  BugSeedsNotDeduplicated = FALSE
INVARIANTS NeverTwice Complete
PROPERTY Terminates
