------------------------------ MODULE DhtTrace ------------------------------
(***************************************************************************)
(* Property-level trace specification for the lookup family of the real    *)
(* IpfsDHT (GetClosestPeers, FindPeer, GetValue/SearchValue,               *)
(* FindProvidersAsync, PutValue, Provide).                                 *)
(*                                                                         *)
(* The trace is recorded by harness/drivers/lookup_*_test.go from the real *)
(* code.  Peers are identified by their XOR-distance rank to the key of    *)
(* the operation (1 = nearest, 0 = the node under test), computed by the   *)
(* harness independently of the libraries the DHT uses.                    *)
(*                                                                         *)
(* The actions only RECONSTRUCT the abstract state from what was observed  *)
(* (they are always enabled: this layer never rejects a trace because the  *)
(* code took a different but legal route).  The property clauses are       *)
(* evaluated on (state, last event); every breach is added to s.viol as a  *)
(* pair <<property, clause>>.  One invariant per property selects that     *)
(* property's clauses.  "Q" lines mark quiescent points of the real run    *)
(* (every goroutine durably blocked); clauses that relate events of        *)
(* different asynchronous sources are judged there.                        *)
(***************************************************************************)
EXTENDS Integers, Sequences, FiniteSets, TLC, Json, IOUtils

Trace == ndJsonDeserialize(IOEnv.VERIF_TRACE)
NLines == Len(Trace)

VARIABLES l,   \* index of the next line to consume
          s    \* reconstructed abstract state (a record, see Fresh)
vars == <<l, s>>

NoDel == [p |-> -1]
NoRet == [e |-> "none"]
NoRun == [op |-> "none"]

Min(a, b) == IF a < b THEN a ELSE b
KNearest(S, k) == {p \in S : Cardinality({q \in S : q < p}) < k}
Range(f) == {f[i] : i \in DOMAIN f}
IsAsc(q) == \A i \in 1..(Len(q) - 1) : q[i] < q[i + 1]

Fresh(run) == [
  c          |-> run,     \* Reset record of the current run (scenario constants)
  phase      |-> "search",\* "search" | "terminated" (the lookup's own search phase; set by the Terminate event)
  seeded     |-> FALSE,   \* the seeding update has been processed
  entered    |-> {},      \* peers that entered the lookup from answers processed in the search phase
  failed     |-> {},      \* peers whose dial/request failed (delivered) while the search phase ran
  answered   |-> {},      \* peers whose request was answered while the search phase ran
  aborted    |-> {},      \* peers whose dial/request was cut by a context while the search phase ran
  reqd       |-> {},      \* peers named in a published Request event
  sentSearch |-> {},      \* peers dialled or asked during the search phase
  sentReq    |-> {},      \* peers that were sent the operation's request (any phase)
  st         |-> <<>>,    \* per-peer state as published by the lookup events
  okPub      |-> {},      \* peers published as queried
  unreachPub |-> {},      \* peers published as unreachable
  lastDel    |-> NoDel,   \* last search-phase delivery not yet matched by a Response event
  cancelled  |-> FALSE,
  cancelTs   |-> 0,
  delAfterCancel |-> FALSE,
  reason     |-> "",      \* published termination reason ("" if none seen)
  ret        |-> NoRet,
  emitted    |-> <<>>,    \* Emit records received on the result channel
  chanClosed |-> FALSE,
  provNamed  |-> IF run.op = "findprov" THEN Range(run.localprv) ELSE {},
  countHit   |-> FALSE,   \* findprov: count reached at the previous quiescent point
  vals       |-> IF run.op \in {"getvalue", "searchvalue"} /\ run.lvvalid THEN {run.localval} ELSE {},
  putSent    |-> {},      \* peers that were sent PUT_VALUE / ADD_PROVIDER
  putTs      |-> <<>>,    \* peer -> virtual time at which its PUT_VALUE / ADD_PROVIDER was sent
  closing    |-> FALSE,   \* the node is being closed
  withVal    |-> <<>>,    \* peer -> valid, correctly keyed value it delivered while the search was open
  nvals      |-> IF run.op \in {"getvalue", "searchvalue"} /\ run.lvvalid THEN 1 ELSE 0, \* valid values supplied so far
  bestRank   |-> IF run.op \in {"getvalue", "searchvalue"} /\ run.lvvalid THEN run.lvrank ELSE -1, \* best rank supplied while the search was open
  viol       |-> {} ]

c == s.c
Ev == Trace[l]
Is(e) == l <= NLines /\ Ev.e = e
Flag(b, prop, id) == IF b THEN {} ELSE {<<prop, id>>}

\* what enters the lookup from one answer: at most 2K named peers, never self,
\* only peers passing the query filter (the searched peer itself is exempt)
IsTarget(x) == c.op = "findpeer" /\ x = 1
FilterCap(C) == LET cut == SubSeq(C, 1, Min(Len(C), 2 * c.K))
                IN {x \in Range(cut) : x # 0 /\ (x \notin Range(c.reject) \/ IsTarget(x))}

Seeds == IF s.seeded THEN Range(c.seeds) ELSE {}
Learned == Seeds \cup s.entered
Cand == Learned \ s.failed

ReqTyp == CASE c.op \in {"gcp", "findpeer", "putvalue", "provide"} -> "FIND_NODE"
            [] c.op \in {"getvalue", "searchvalue", "getpubkey"} -> "GET_VALUE"
            [] c.op = "findprov" -> "GET_PROVIDERS"
            [] OTHER -> "?"

\* operations whose per-peer query is the plain closest-peers request
PlainOps == {"gcp", "findpeer", "putvalue", "provide"}
\* how the operation treats a delivery: a GET_VALUE answer carrying a record filed
\* under another key is rejected as a whole (the peer counts as failed)
EffOut(ev) == IF ev.out # "ok" THEN "fail"
              ELSE IF ev.typ = "GET_VALUE" /\ ev.val # "" /\ ~ev.vkey THEN "fail" ELSE "ok"

StOf(p) == IF p \in DOMAIN s.st THEN s.st[p] ELSE "none"
SetSt(f, p, v) == [q \in (DOMAIN f) \cup {p} |-> IF q = p THEN v ELSE f[q]]

\* Every run of the trace file is validated as its own behaviour: the initial
\* states are the Reset lines (already consumed).  A counterexample is then
\* only as long as the offending run, and runs are checked in parallel.
ResetLines == {i \in 1..NLines : Trace[i].e = "Reset"}
Init == \E i \in ResetLines : l = i + 1 /\ s = Fresh(Trace[i])

\* Every new breach is reported once, as  <<"VIOL", run, line, clauses>>, when it
\* arises; bin/check collects these lines (all offending runs in one pass) and
\* re-checks each offending run on its own with the property invariant.
\* GetPublicKey asks the target peer directly in parallel with a value lookup; the
\* direct request cannot be told apart from the lookup's own request to the same
\* peer, so the lookup-level clauses (C01, C02) are not judged for that operation.
\* With a slow consumer an answer's processing blocks on the result channel, so
\* "delivered" no longer means "processed before the next delivery"; the lookup-level
\* reconstruction (C01, C02, C06) is then not judged, the channel-level clauses are.
Relevant(ns) == IF ns.c.op = "getpubkey" THEN {v \in ns.viol : v[1] \in {"C03", "C04"}}
                ELSE IF ns.c.slowcons THEN {v \in ns.viol : v[1] \in {"C03", "C04", "C08"}}
                ELSE ns.viol
Step(ns) == /\ s' = [ns EXCEPT !.viol = Relevant(ns)] /\ l' = l + 1
            /\ (Relevant(ns) = s.viol \/ PrintT("VIOL " \o ToString(s.c.t) \o " " \o ToString(l) \o " " \o ToString(Relevant(ns) \ s.viol)))
AddViol(V) == [s EXCEPT !.viol = @ \cup V]

---------------------------------------------------------------------------
\* ---- published lookup events -------------------------------------------
RespSeed ==
  /\ Is("Resp") /\ Ev.cause = 0
  /\ Step([s EXCEPT !.seeded = TRUE,
                    !.st = [p \in Range(Ev.heard) |-> "heard"],
                    !.viol = @ \cup Flag(Range(Ev.heard) = Range(c.seeds), "C01", "f_seed_event_heard")
                               \cup Flag(Len(Ev.queried) = 0 /\ Len(Ev.unreach) = 0, "C01", "f_seed_event_shape")])

RespPeer ==
  /\ Is("Resp") /\ Ev.cause # 0
  /\ LET p == Ev.cause
         okEv == Len(Ev.queried) = 1 /\ Len(Ev.unreach) = 0 /\ Ev.queried[1] = p
         failEv == Len(Ev.queried) = 0 /\ Len(Ev.unreach) = 1 /\ Ev.unreach[1] = p
         matches == s.lastDel.p = p
         heardOK == (okEv /\ c.op \in PlainOps) =>
                       (matches /\ s.lastDel.out = "ok" /\ s.lastDel.kind = "req"
                        /\ Range(Ev.heard) = FilterCap(s.lastDel.closer))
         failOK == failEv => Len(Ev.heard) = 0
         s1 == [q \in (DOMAIN s.st) \cup Range(Ev.heard) |->
                  IF q \in DOMAIN s.st THEN s.st[q] ELSE "heard"]
     IN Step([s EXCEPT
          !.st = SetSt(s1, p, IF okEv THEN "queried" ELSE "unreachable"),
          !.okPub = IF okEv THEN @ \cup {p} ELSE @,
          !.unreachPub = IF failEv THEN @ \cup {p} ELSE @,
          !.lastDel = IF matches THEN NoDel ELSE @,
          !.viol = @ \cup Flag(okEv \/ failEv, "C01", "f_resp_shape")
                     \cup Flag(heardOK, "C01", "f_resp_heard_mismatch")
                     \cup Flag(failOK, "C01", "f_resp_unreach_shape")
                     \cup Flag(StOf(p) = "waiting", "C01", "t_illegal_transition")
                     \cup Flag(s.phase = "search", "C01", "t_update_after_termination")])

ReqEv ==
  /\ Is("Req")
  /\ Step([s EXCEPT
       !.reqd = @ \cup {Ev.p},
       !.st = SetSt(@, Ev.p, "waiting"),
       !.viol = @ \cup Flag(StOf(Ev.p) = "heard", "C01", "t_illegal_transition")
                  \cup Flag(s.phase = "search", "C01", "t_update_after_termination")
                  \cup Flag(~s.countHit, "C08", "c_request_after_count")])

\* at the moment the search phase ends the beta nearest candidates have answered
TermOK(r) ==
  (r \in {"completed", "starvation"} /\ ~s.cancelled) => KNearest(Cand, c.beta) \subseteq s.answered

TermEv ==
  /\ Is("Term")
  /\ Step([s EXCEPT
       !.phase = IF @ = "search" THEN "terminated" ELSE @,
       !.reason = Ev.reason,
       !.viol = @ \cup Flag(TermOK(Ev.reason), "C02", "c_beta_not_answered")
                  \cup Flag(s.reason = "", "C01", "t_terminated_twice")])

\* ---- environment events -------------------------------------------------
\* the value search still consumes values: its output is open, the caller has not
\* cancelled, and the quorum has not been exceeded (judged at delivery time; deliveries
\* are separated by quiescent points, so the previous ones have been fully processed)
QuorumHit == c.quorum > 0 /\ s.nvals > c.quorum
SearchOpen == ~s.chanClosed /\ s.ret = NoRet /\ ~s.cancelled /\ ~QuorumHit

IsLookupReq(ev) == ev.kind = "dial" \/ (ev.kind = "req" /\ ev.typ = ReqTyp)

Sent ==
  /\ Is("Sent")
  /\ LET lk == IsLookupReq(Ev) IN
     Step([s EXCEPT
       \* (once the caller has cancelled, the library publishes with a finished context: its send on the event
       \* channel races with that context's Done and the event may or may not come through - a request sent then
       \* is not required to have been announced)
       !.sentSearch = IF lk /\ s.phase = "search" /\ ~s.cancelled /\ ~(c.timeout > 0 /\ Ev.ts >= c.timeout) THEN @ \cup {Ev.p} ELSE @,
       !.sentReq = IF Ev.kind = "req" /\ Ev.typ = ReqTyp THEN @ \cup {Ev.p} ELSE @,
       !.putSent = IF Ev.typ \in {"PUT_VALUE", "ADD_PROVIDER"} THEN @ \cup {Ev.p} ELSE @,
       !.putTs = IF Ev.typ \in {"PUT_VALUE", "ADD_PROVIDER"} THEN SetSt(@, Ev.p, Ev.ts) ELSE @,
       !.viol = @
         \cup (IF c.op = "putvalue" /\ Ev.kind = "req" /\ Ev.typ \in {"PUT_VALUE", "FIND_NODE"}
               THEN Flag(Ev.haslocal = c.putval, "C06", "a_sent_before_local_store") ELSE {})
         \cup (IF c.op = "putvalue" /\ Ev.typ = "PUT_VALUE"
               THEN Flag(Ev.val = c.putval /\ Ev.keyok, "C06", "b_different_record_sent") ELSE {})
         \cup (IF c.op = "provide" /\ Ev.typ = "ADD_PROVIDER"
               THEN Flag(Ev.provs = <<0>>, "C06", "c_provider_not_exactly_self")
                    \cup Flag(Ev.addrsok, "C06", "c_wrong_addresses")
                    \cup Flag(Ev.keyok, "C06", "c_wrong_key")
                    \cup Flag(Ev.p \notin s.putSent, "C06", "c_more_than_one_add_provider")
               ELSE {})
         \cup (IF c.op = "findprov" /\ Ev.kind = "req" /\ Ev.typ = "GET_PROVIDERS"
               THEN Flag(~s.countHit, "C08", "c_request_after_count") ELSE {})])

Deliver ==
  /\ Is("Deliver")
  /\ LET lk == IsLookupReq(Ev)
         live == lk /\ s.phase = "search" /\ ~s.cancelled
         isAns == live /\ Ev.kind = "req" /\ EffOut(Ev) = "ok"
         isFail == live /\ EffOut(Ev) # "ok"
         okReq == lk /\ Ev.kind = "req" /\ EffOut(Ev) = "ok"
     IN Step([s EXCEPT
          !.entered = IF isAns THEN @ \cup FilterCap(Ev.closer) ELSE @,
          !.answered = IF isAns THEN @ \cup {Ev.p} ELSE @,
          !.failed = IF isFail THEN @ \cup {Ev.p} ELSE @,
          !.lastDel = IF isAns \/ isFail THEN Ev ELSE @,
          !.provNamed = IF okReq THEN @ \cup Range(Ev.provs) ELSE @,
          !.vals = IF okReq /\ Ev.vvalid /\ Ev.vkey /\ SearchOpen THEN @ \cup {Ev.val} ELSE @,
          !.nvals = IF okReq /\ Ev.vvalid /\ Ev.vkey /\ SearchOpen THEN @ + 1 ELSE @,
          !.bestRank = IF okReq /\ Ev.vvalid /\ Ev.vkey /\ SearchOpen /\ Ev.vrank > @ THEN Ev.vrank ELSE @,
          !.withVal = IF okReq /\ Ev.vvalid /\ Ev.vkey /\ SearchOpen THEN SetSt(@, Ev.p, Ev.val) ELSE @,
          !.delAfterCancel = @ \/ (s.cancelled /\ s.ret = NoRet),
          !.viol = @ \cup Flag(s.lastDel = NoDel, "C01", "f_delivery_without_event")])

Abort ==
  /\ Is("Abort")
  \* (the flush order within one quiescent interval puts published events before
  \* environment events, so the phase at this line says nothing about the moment of the abort)
  /\ Step([s EXCEPT
       !.aborted = IF IsLookupReq(Ev) THEN @ \cup {Ev.p} ELSE @,
       \* C06 (d): a store request is only ever cut by the caller's cancellation or deadline,
       \* by its own 30 s budget (1 min for the optimistic provide), or by Close -
       \* never because another recipient failed
       !.viol = @ \cup (IF Ev.typ \in {"PUT_VALUE", "ADD_PROVIDER"} /\ Ev.p \in DOMAIN s.putTs
                        THEN Flag(s.cancelled \/ s.closing \/ (c.timeout > 0 /\ Ev.ts >= c.timeout - (c.timeout \div 10) - 1000)
                                  \/ Ev.ts - s.putTs[Ev.p] >= 30000,
                                  "C06", "d_store_request_cut_short")
                        ELSE {})])

Cancel ==
  /\ Is("Cancel")
  /\ Step([s EXCEPT !.cancelled = TRUE, !.cancelTs = Ev.ts])

\* Quiescent point: cross-source clauses.
Quiesce ==
  /\ Is("Q")
  /\ Step([s EXCEPT
       !.countHit = (c.op = "findprov" /\ c.count > 0
                     /\ Cardinality({x.p : x \in Range(s.emitted)}) >= c.count),
       !.viol = @
         \* every dial / request of the search phase was announced by a Request event
         \cup Flag(s.sentSearch \subseteq s.reqd, "C01", "f_rpc_without_request_event")
         \* a peer is published unreachable only if its dial/request failed or was cut by a context
         \cup Flag(s.unreachPub \subseteq (s.failed \cup s.aborted), "C01", "f_unreachable_without_failure")
         \* every delivery of the search phase has been published
         \cup Flag(s.lastDel = NoDel \/ s.cancelled, "C01", "f_delivery_without_event")])

\* ---- results --------------------------------------------------------------
\* C01 (a)-(e).  A request cut by the caller's cancellation may or may not have
\* been recorded as a failure before the lookup stopped (both are legal), so
\* exactness is required up to some subset X of the aborted peers.
ResultClauses(R) ==
  LET S == Range(R)
      maybe == IF s.cancelled THEN s.aborted \ s.failed ELSE {}
  IN   Flag(Len(R) <= c.K, "C01", "a_more_than_K")
  \cup Flag(Cardinality(S) = Len(R), "C01", "a_duplicate")
  \cup Flag(0 \notin S, "C01", "a_self_returned")
  \cup Flag(IsAsc(R), "C01", "b_not_sorted")
  \cup Flag(S \subseteq Learned, "C01", "c_not_learned")
  \cup Flag(S \cap s.failed = {}, "C01", "d_failed_peer_returned")
  \cup Flag(\E X \in SUBSET maybe : S = KNearest(Cand \ X, c.K), "C01", "e_not_k_nearest")

\* C02 (d): every returned peer was asked at least once (uncancelled, unstopped)
AskedClause(R, err) ==
  Flag((err = "" /\ ~s.cancelled) => Range(R) \subseteq s.sentReq, "C02", "d_returned_peer_never_asked")

\* C02 (a)(b) under the honest / complete-tables assumption (flag set by the generator)
HonestClauses(R, err) ==
  IF c.honest /\ err = "" /\ ~s.cancelled
  THEN Flag(Len(R) > 0 /\ R[1] = 1, "C02", "a_first_not_global_nearest")
       \cup Flag(c.full => R = [i \in 1..Min(c.K, c.N) |-> i], "C02", "b_not_exact_global_k")
  ELSE {}

\* C03: prompt return after cancellation
CancelClauses(ev) ==
  Flag(s.cancelled => (~s.delAfterCancel /\ ev.ts = s.cancelTs), "C03", "b_not_prompt_after_cancel")

EmittedPeers == {x.p : x \in Range(s.emitted)}

\* the result the lookup of this operation must have produced
LookupResult == KNearest(Cand, c.K)

ValueReturnClauses(ev) ==
  IF s.cancelled \/ ev.err \notin {"", "notfound"} THEN {}
  ELSE Flag(s.bestRank >= 0 => (ev.valid /\ ev.rank >= s.bestRank), "C04", "d_final_not_best")
       \cup Flag(ev.val # "" => (ev.valid /\ ev.val \in s.vals), "C04", "a_invalid_or_foreign_final_value")
       \cup Flag(s.vals = {} => (ev.val = "" /\ (c.op = "getvalue" => ev.err = "notfound")), "C04", "e_value_without_valid_source")
       \cup Flag((c.op = "getvalue" /\ s.vals # {}) => ev.err = "", "C04", "e_notfound_despite_valid_value")

ProvReturnClauses(ev) ==
  Flag(s.chanClosed, "C08", "e_channel_not_closed")
  \cup (IF ~s.cancelled /\ ev.err = "" /\ c.count = 0
        THEN Flag(s.provNamed \subseteq EmittedPeers, "C08", "d_named_provider_not_yielded") ELSE {})

PutReturnClauses(ev) ==
  IF s.cancelled \/ ev.err # "" THEN {}
  ELSE (IF c.optprov
        \* optimistic provide also sends to very close peers before the lookup ends
        THEN Flag(LookupResult \subseteq s.putSent, "C06", "b_lookup_result_peer_not_sent")
             \cup Flag(s.putSent \subseteq Learned, "C06", "b_sent_to_unknown_peer")
        ELSE Flag(s.putSent = LookupResult, "C06", "b_recipients_differ_from_lookup_result"))
       \cup (IF c.op = "putvalue" THEN Flag(ev.localval = c.putval, "C06", "a_not_stored_locally") ELSE {})
       \cup (IF c.op = "provide" THEN Flag(ev.selflocal, "C06", "c_self_not_recorded_locally") ELSE {})

DeadlineClause(ev) ==
  Flag(c.timeout > 0 => ev.ts <= c.timeout, "C03", "a_returned_after_deadline")

Return ==
  /\ Is("Return")
  /\ Step([s EXCEPT
       !.ret = Ev,
       !.viol = @
         \cup (IF c.op = "gcp" THEN ResultClauses(Ev.peers) \cup AskedClause(Ev.peers, Ev.err)
                                    \cup HonestClauses(Ev.peers, Ev.err) ELSE {})
         \cup CancelClauses(Ev)
         \cup DeadlineClause(Ev)
         \cup (IF c.op \in {"getvalue", "searchvalue"} THEN ValueReturnClauses(Ev) ELSE {})
         \cup (IF c.op = "getpubkey"
               THEN Flag(Ev.err = "" => (Ev.haskey /\ Ev.match), "C04", "b_public_key_does_not_match_peer")
                    \cup Flag(Ev.haskey => Ev.match, "C04", "b_public_key_does_not_match_peer")
               ELSE {})
         \cup (IF c.op = "findprov" THEN ProvReturnClauses(Ev) ELSE {})
         \cup (IF c.op \in {"putvalue", "provide"} THEN PutReturnClauses(Ev) ELSE {})
         \cup Flag(s.cancelled \/ c.timeout > 0 \/ s.reqd \subseteq s.sentSearch \cup s.aborted, "C01", "f_request_event_without_rpc")])

EmitClauses ==
  IF c.op = "searchvalue" THEN
       Flag(Ev.valid, "C04", "a_invalid_value_emitted")
       \cup Flag(Len(s.emitted) > 0 => Ev.rank > s.emitted[Len(s.emitted)].rank, "C04", "c_not_strictly_improving")
       \cup Flag(Ev.val \in s.vals, "C04", "a_value_never_supplied")
  ELSE IF c.op = "findprov" THEN
       Flag(Ev.p \in s.provNamed, "C08", "a_provider_never_named")
       \cup Flag(c.count > 0 => Cardinality(EmittedPeers \cup {Ev.p}) <= c.count, "C08", "b_more_than_count")
       \cup Flag(\A x \in Range(s.emitted) : x.p = Ev.p => (x.naddrs = 0 /\ Ev.naddrs > 0), "C08", "b_peer_repeated")
       \cup Flag(~s.chanClosed, "C08", "e_emit_after_close")
  ELSE {}
Emit == Is("Emit") /\ Step([s EXCEPT !.emitted = Append(@, Ev), !.viol = @ \cup EmitClauses])

ChanClosed == Is("ChanClosed") /\ Step([s EXCEPT !.chanClosed = TRUE])

Panic == Is("Panic") /\ Step(AddViol({<<"C03", "d_panic">>}))

Hang == Is("Hang") /\ Step(AddViol({<<"C03", "a_hang">>}))

\* C06 (e): after a completed value search the closest peers that did not deliver
\* the best value are sent it, and those that did are not
Corrective ==
  IF c.op = "searchvalue" /\ ~s.cancelled /\ s.ret # NoRet /\ s.ret.err = "" /\ c.quorum <= 0 /\ s.ret.val # ""
  THEN LET best == s.ret.val
           have == {p \in DOMAIN s.withVal : s.withVal[p] = best}
       IN Flag(s.putSent = LookupResult \ have, "C06", "e_corrective_puts_wrong")
  ELSE {}

Bg == Is("Bg") /\ Step(AddViol(Flag(Ev.n = 0, "C03", "e_background_work_left") \cup Corrective))

Left == Is("Left") /\ Step(AddViol(Flag(Ev.n = 0, "C03", "e_goroutines_after_close")))

\* goroutines of the code under test were still blocked, with nothing left that could
\* wake them, when the run ended (reported by the Go runtime at the synctest bubble exit)
Stuck == Is("Stuck") /\ Step(AddViol({<<"C03", "e_goroutines_blocked_forever">>}))

PreClose == Is("PreClose") /\ Step([AddViol(Flag(s.ret # NoRet, "C03", "a_no_return")) EXCEPT !.closing = TRUE])

Closed == Is("Closed") /\ Step(AddViol(Flag(Ev.ok, "C03", "e_close_blocked")))

End == Is("End") /\ Step(s)

Next == RespSeed \/ RespPeer \/ ReqEv \/ TermEv \/ Sent \/ Deliver \/ Abort \/ Cancel
        \/ Quiesce \/ Return \/ Emit \/ ChanClosed \/ Panic \/ Hang \/ Bg \/ Left \/ Stuck \/ PreClose \/ Closed \/ End

TraceSpec == Init /\ [][Next]_vars

---------------------------------------------------------------------------
\* Acceptance: every line of every run was consumed (one distinct state per line).
TraceAccepted == TLCGet("distinct") = NLines

Has(prop) == {v \in s.viol : v[1] = prop}

InvC01 == Has("C01") = {}
InvC02 == Has("C02") = {}
InvC03 == Has("C03") = {}
InvC04 == Has("C04") = {}
InvC06 == Has("C06") = {}
InvC08 == Has("C08") = {}
InvAll == s.viol = {}
=============================================================================
