SPECIFICATION TraceSpec
INVARIANT InvC02
POSTCONDITION TraceAccepted
CHECK_DEADLOCK FALSE
