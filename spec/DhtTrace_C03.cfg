SPECIFICATION TraceSpec
INVARIANT InvC03
POSTCONDITION TraceAccepted
CHECK_DEADLOCK FALSE
