SPECIFICATION TraceSpec
INVARIANT InvC06
POSTCONDITION TraceAccepted
CHECK_DEADLOCK FALSE
