SPECIFICATION TraceSpec
INVARIANT InvC08
POSTCONDITION TraceAccepted
CHECK_DEADLOCK FALSE
