-------------------------------- MODULE Dual --------------------------------
(***************************************************************************)
(* The dual (WAN + LAN) client (dual/dual.go).                             *)
(*  - writes (Provide, PutValue) go to the WAN half exactly when its       *)
(*    routing table is non-empty, else to the LAN half;                    *)
(*  - GetValue: both halves are asked; the WAN result wins when the WAN    *)
(*    lookup succeeds, else the LAN result, else an error;                 *)
(*  - FindProvidersAsync merges the two provider streams: a provider is    *)
(*    passed on at most once and at most count in total; the merge is a    *)
(*    loop with a found-set and a countdown, modelled step by step with    *)
(*    every arrival order of the two streams and of their ends;            *)
(*  - address scoping: classes of addresses and the filters of each half   *)
(*    as predicates.                                                       *)
(***************************************************************************)
EXTENDS Integers, Sequences, FiniteSets, TLC

CONSTANTS Providers,         \* provider ids
          MaxLen,            \* longest stream of one half
          Counts,            \* values of count to explore (0 = unlimited)
          BugDedupOnlyWhileBothAlive,
          BugCountNotDecremented,
          BugWritesAlwaysWAN,
          BugPreferLAN

\* ---- merge of the provider streams --------------------------------------
VARIABLES wan, lan,          \* what each half will still yield (a sequence without repetition), or "closed"
          wanOpen, lanOpen,  \* the merge loop still listens to the half
          found, left, zero, out, pc
mvars == <<wan, lan, wanOpen, lanOpen, found, left, zero, out, pc>>

NoRep(q) == \A i, j \in DOMAIN q : i # j => q[i] # q[j]
Streams == {q \in UNION {[1..n -> Providers] : n \in 0..MaxLen} : NoRep(q)}

MInit == /\ wan \in Streams /\ lan \in Streams /\ wanOpen = TRUE /\ lanOpen = TRUE
         /\ found = {} /\ left \in Counts /\ zero = (left = 0) /\ out = <<>> /\ pc = "loop"

Continue == (zero \/ left > 0) /\ (wanOpen \/ lanOpen)

Take(p) == IF p \in found /\ (~BugDedupOnlyWhileBothAlive \/ (wanOpen /\ lanOpen))
           THEN UNCHANGED <<found, left, out>>
           ELSE /\ out' = Append(out, p) /\ found' = found \cup {p}
                /\ left' = IF BugCountNotDecremented THEN left ELSE left - 1

FromWAN == /\ pc = "loop" /\ Continue /\ wanOpen
           /\ IF wan = <<>> THEN wanOpen' = FALSE /\ UNCHANGED <<wan, found, left, out>>
              ELSE wan' = Tail(wan) /\ Take(Head(wan)) /\ UNCHANGED wanOpen
           /\ UNCHANGED <<lan, lanOpen, zero, pc>>
FromLAN == /\ pc = "loop" /\ Continue /\ lanOpen
           /\ IF lan = <<>> THEN lanOpen' = FALSE /\ UNCHANGED <<lan, found, left, out>>
              ELSE lan' = Tail(lan) /\ Take(Head(lan)) /\ UNCHANGED lanOpen
           /\ UNCHANGED <<wan, wanOpen, zero, pc>>
Stop == pc = "loop" /\ ~Continue /\ pc' = "done" /\ UNCHANGED <<wan, lan, wanOpen, lanOpen, found, left, zero, out>>

MNext == FromWAN \/ FromLAN \/ Stop \/ (pc = "done" /\ UNCHANGED mvars)
Spec == MInit /\ [][MNext]_mvars

OncePerProvider == NoRep(out)
\* the initial count is recoverable: left decreases by one per output
Cap0 == zero \/ Len(out) + left \in Counts
Capped == zero \/ \E c \in Counts : Len(out) <= c /\ Len(out) + left = c

\* ---- write routing and value preference as functions ----------------------
WriteTarget(wanRTSize) == IF wanRTSize > 0 \/ BugWritesAlwaysWAN THEN "wan" ELSE "lan"
GetValueResult(wanRes, lanRes) ==      \* results are "err" or a value
  IF BugPreferLAN THEN (IF lanRes # "err" THEN lanRes ELSE wanRes)
  ELSE IF wanRes # "err" THEN wanRes ELSE lanRes
WritesGoToWANIffActive == \A n \in 0..2 : WriteTarget(n) = (IF n > 0 THEN "wan" ELSE "lan")
GetValuePrefersWAN == \A w, v \in {"err", "Vw", "Vl"} :
                        GetValueResult(w, v) = (IF w # "err" THEN w ELSE v)

\* ---- address scoping -------------------------------------------------------
Classes == {"public4", "public6", "private4", "ula6", "loopback", "relaypublic", "relayprivate"}
IsPublic(c) == c \in {"public4", "public6", "relaypublic"}
IsRelay(c) == c \in {"relaypublic", "relayprivate"}
WANKeeps(c) == IsPublic(c)                \* address filter of the WAN half
LANKeeps(c) == c # "loopback"             \* address filter of the LAN half
WANFollows(S) == \E c \in S : IsPublic(c) /\ ~IsRelay(c)   \* query filter of the WAN half on a referral's addresses
LANFollows(S) == S # {}
Scoping == /\ \A c \in Classes : WANKeeps(c) => c \notin {"private4", "ula6", "loopback", "relayprivate"}
           /\ \A c \in Classes : LANKeeps(c) => c # "loopback"
           /\ \A S \in SUBSET Classes : WANFollows(S) => S \cap {"public4", "public6"} # {}
=============================================================================
