------------------------------ MODULE DualTrace ------------------------------
(***************************************************************************)
(* Trace specification for the dual client (C15).  Events come from        *)
(* harness/drivers/dual_test.go: every RPC with the half ("net") whose     *)
(* message sender saw it, the peer it went to (routing-table peers W<i> /  *)
(* L<i>, referrals w<i>.<j> / l<i>.<j> with the classes of the addresses   *)
(* the referral carried, the searched peer T), ADD_PROVIDER payload        *)
(* address classes, every reply delivered, the operation's result and the  *)
(* peerstore content for the peers learned from referrals.                 *)
(***************************************************************************)
EXTENDS Integers, Sequences, FiniteSets, TLC, Json, IOUtils

Trace == ndJsonDeserialize(IOEnv.VERIF_TRACE)
NLines == Len(Trace)
VARIABLES l, s
vars == <<l, s>>
Range(f) == {f[i] : i \in DOMAIN f}
Ev == Trace[l]
Is(e) == l <= NLines /\ Ev.e = e
Flag(b, id) == IF b THEN {} ELSE {<<"C15", id>>}
ResetLines == {i \in 1..NLines : Trace[i].e = "Reset"}

Public == {"public4", "public6", "relaypublic"}
PublicDirect == {"public4", "public6"}
\* numeric part of a value "V<n>"
Valid(v) == v # "" /\ SubSeq(v, 1, 1) = "V"

Init == \E i \in ResetLines : l = i + 1 /\ s = [c |-> Trace[i], wanGot |-> {}, lanGot |-> {}, askedT |-> {}, viol |-> {}]
Step(ns) == /\ s' = ns /\ l' = l + 1
            /\ (ns.viol = s.viol \/ PrintT("VIOL " \o ToString(s.c.t) \o " " \o ToString(l) \o " " \o ToString(ns.viol \ s.viol)))

WriteOp == s.c.op \in {"provide", "putvalue"}
WriteNet == IF s.c.wanrt > 0 THEN "wan" ELSE "lan"

Sent ==
  /\ Is("Sent")
  /\ Step([s EXCEPT !.askedT = IF Ev.p = "T" THEN @ \cup {Ev.net} ELSE @, !.viol = @
       \* (a) writes go to the WAN half exactly when its routing table is non-empty
       \cup Flag(WriteOp => Ev.net = WriteNet, "a_write_routed_to_the_wrong_half")
       \* (e) the WAN half follows a referral only to a peer with a public non-relay address
       \cup Flag((Ev.net = "wan" /\ Ev.isref) => Range(Ev.refclasses) \cap PublicDirect # {}, "e_wan_followed_referral_without_public_address")
       \cup Flag((Ev.net = "lan" /\ Ev.isref) => Len(Ev.refclasses) > 0, "e_lan_followed_referral_without_address")
       \* (f, g) own addresses advertised
       \cup Flag((Ev.typ = "ADD_PROVIDER" /\ Ev.net = "wan") => Range(Ev.payload) \subseteq Public, "f_wan_advertised_non_public_address")
       \cup Flag((Ev.typ = "ADD_PROVIDER" /\ Ev.net = "lan") => "loopback" \notin Range(Ev.payload), "g_lan_advertised_loopback_address")
       \cup Flag((Ev.typ = "ADD_PROVIDER") => Len(Ev.payload) > 0, "f_provider_record_without_address")])

Deliver ==
  /\ Is("Deliver")
  /\ Step([s EXCEPT !.wanGot = IF Ev.net = "wan" /\ ~Ev.fail /\ Valid(Ev.val) THEN @ \cup {Ev.val} ELSE @,
                    !.lanGot = IF Ev.net = "lan" /\ ~Ev.fail /\ Valid(Ev.val) THEN @ \cup {Ev.val} ELSE @])

NoRep(q) == \A i, j \in DOMAIN q : i # j => q[i] # q[j]

Return ==
  /\ Is("Return")
  /\ Step([s EXCEPT !.viol = @
       \cup Flag(~Ev.hang, "x_operation_hung")
       \* what the operation left in the background ends by itself although the caller's context lives on
       \cup Flag("bgleft" \in DOMAIN Ev => Len(Ev.bgleft) = 0, "x_background_work_left_after_return")
       \* (b) the WAN result when the WAN lookup succeeds, else the LAN result
       \cup Flag((s.c.op = "getvalue" /\ s.wanGot # {}) => (Ev.err = "" /\ Ev.value \in s.wanGot), "b_wan_value_not_preferred")
       \cup Flag((s.c.op = "getvalue" /\ s.wanGot = {} /\ s.lanGot # {}) => (Ev.err = "" /\ Ev.value \in s.lanGot), "b_lan_value_not_returned")
       \cup Flag((s.c.op = "getvalue" /\ s.wanGot = {} /\ s.lanGot = {}) => Ev.err # "", "b_value_from_nowhere")
       \* (c) the union of both halves' address sets: everything known for the peer when both have finished
       \* (a half that reached the searched peer has found it and returns what is known about it then)
       \cup Flag(s.c.op = "findpeer" => Range(Ev.addrs) \subseteq Range(Ev.atreturn), "c_find_peer_address_from_nowhere")
       \cup Flag((s.c.op = "findpeer" /\ s.askedT = {"wan", "lan"}) => (Ev.err = "" /\ Range(Ev.addrs) = Range(Ev.atreturn)), "c_find_peer_not_the_union")
       \cup Flag((s.c.op = "findpeer" /\ s.askedT # {}) => Ev.err = "", "c_find_peer_failed_although_one_half_found_the_peer")
       \* (d) each provider once, at most count
       \cup Flag(NoRep(Ev.emitted), "d_provider_yielded_twice")
       \cup Flag(s.c.count > 0 => Len(Ev.emitted) <= s.c.count, "d_more_than_count_providers")
       \cup Flag(Range(Ev.emitted) \subseteq Range(s.c.offeredprovs), "d_unreported_provider")])

\* (f) the WAN half stores only public addresses learned from referrals; the LAN half no loopback ones
Peerstore ==
  /\ Is("Peerstore")
  /\ Step([s EXCEPT !.viol = @
       \cup Flag(\A x \in Range(Ev.learned) : x.net = "wan" => Range(x.stored) \subseteq (Range(x.offered) \cap Public), "f_wan_stored_non_public_address")
       \cup Flag(\A x \in Range(Ev.learned) : x.net = "lan" => Range(x.stored) \subseteq (Range(x.offered) \ {"loopback"}), "g_lan_stored_loopback_address")
       \* the peer searched for is exempt from the referral filter only: its addresses are filtered like all others
       \cup Flag(Range(Ev.tstored) \subseteq (Range(Ev.tknown) \cup (Range(Ev.twan) \cap Public) \cup (Range(Ev.tlan) \ {"loopback"})),
                 "f_unfiltered_address_of_the_searched_peer_stored")])

\* the caller of a provider search cancels without having read anything (the channel still has to be closed)
Cancel == Is("Cancel") /\ Step(s)
Other == Is("End") /\ Step(s)
Stuck == Is("Stuck") /\ Step([s EXCEPT !.viol = @ \cup {<<"C15", "x_wedged">>}])
Next == Sent \/ Deliver \/ Return \/ Peerstore \/ Cancel \/ Other \/ Stuck
TraceSpec == Init /\ [][Next]_vars
TraceAccepted == TLCGet("distinct") = NLines
InvC15 == s.viol = {}
=============================================================================
