SPECIFICATION TraceSpec
INVARIANT InvC15
POSTCONDITION TraceAccepted
CHECK_DEADLOCK FALSE
