SPECIFICATION Spec
CONSTANTS
  Providers = {1, 2, 3}
  MaxLen = 3
  Counts = {0, 1, 2, 3}
  BugDedupOnlyWhileBothAlive = FALSE
  BugCountNotDecremented = TRUE
  BugWritesAlwaysWAN = FALSE
  BugPreferLAN = FALSE
INVARIANTS Capped
CHECK_DEADLOCK FALSE
