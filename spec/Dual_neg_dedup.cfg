SPECIFICATION Spec
CONSTANTS
  Providers = {1, 2, 3}
  MaxLen = 3
  Counts = {0, 1, 2, 3}
  BugDedupOnlyWhileBothAlive = TRUE
  BugCountNotDecremented = FALSE
  BugWritesAlwaysWAN = FALSE
  BugPreferLAN = FALSE
INVARIANTS OncePerProvider
CHECK_DEADLOCK FALSE
