SPECIFICATION Spec
CONSTANTS
  Providers = {1, 2, 3}
  MaxLen = 3
  Counts = {0, 1, 2, 3}
  BugDedupOnlyWhileBothAlive = FALSE
  BugCountNotDecremented = FALSE
  BugWritesAlwaysWAN = TRUE
  BugPreferLAN = FALSE
INVARIANTS WritesGoToWANIffActive
CHECK_DEADLOCK FALSE
