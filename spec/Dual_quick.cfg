SPECIFICATION Spec
CONSTANTS
  Providers = {1, 2, 3}
  MaxLen = 3
  Counts = {0, 1, 2, 3}
  BugDedupOnlyWhileBothAlive = FALSE
  BugCountNotDecremented = FALSE
  BugWritesAlwaysWAN = FALSE
  BugPreferLAN = FALSE
INVARIANTS OncePerProvider Capped WritesGoToWANIffActive GetValuePrefersWAN Scoping
CHECK_DEADLOCK FALSE
