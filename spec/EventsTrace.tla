----------------------------- MODULE EventsTrace -----------------------------
(***************************************************************************)
(* C01 (f), second monitor: the lookup events a caller receives agree with *)
(* what remote peers answered - also when several answers are waiting at   *)
(* the same time.  harness/drivers/lookup_gen_test.go (TestLookupEvents)   *)
(* runs closest-peers lookups whose event consumer is scheduled like any   *)
(* other actor: while it does not read, the lookup blocks publishing and   *)
(* further answers queue up behind it.  Events then arrive late, so this   *)
(* monitor does not follow the lookup in lockstep (DhtTrace.tla does, with *)
(* an eager consumer); it matches two streams: what each peer's delivered  *)
(* answer named, and what the event published for that peer claims.        *)
(***************************************************************************)
EXTENDS Integers, Sequences, FiniteSets, TLC, Json, IOUtils

Trace == ndJsonDeserialize(IOEnv.VERIF_TRACE)
NLines == Len(Trace)
VARIABLES l, s
vars == <<l, s>>
Range(f) == {f[i] : i \in DOMAIN f}
Ev == Trace[l]
Is(e) == l <= NLines /\ Ev.e = e
Flag(b, id) == IF b THEN {} ELSE {<<"C01", id>>}
ResetLines == {i \in 1..NLines : Trace[i].e = "Reset"}
\* named: pairs <<p, q>> - the answer delivered for peer p named q; failed: peers whose dial / request failed or was cut
Init == \E i \in ResetLines : l = i + 1 /\ s = [c |-> Trace[i], named |-> {}, answered |-> {}, viol |-> {}]
Step(ns) == /\ s' = ns /\ l' = l + 1
            /\ (ns.viol = s.viol \/ PrintT("VIOL " \o ToString(s.c.t) \o " " \o ToString(l) \o " " \o ToString(ns.viol \ s.viol)))

Deliver ==
  /\ Is("Deliver")
  /\ LET ok == Ev.kind = "req" /\ Ev.out = "ok" IN
     Step([s EXCEPT !.named = IF ok THEN @ \cup {<<Ev.p, q>> : q \in Range(Ev.closer)} ELSE @,
                    !.answered = IF ok THEN @ \cup {Ev.p} ELSE @])

\* a response event of a remote peer p (cause 0 is the seeding of the lookup from the routing table)
Resp ==
  /\ Is("Resp")
  /\ LET p == Ev.cause IN
     Step([s EXCEPT !.viol = @ \cup (IF p = 0 THEN {} ELSE
          \* it speaks about p alone ...
          Flag(Range(Ev.queried) \subseteq {p} /\ Range(Ev.unreach) \subseteq {p}, "f_response_event_speaks_for_other_peers")
          \* ... says "answered" only if an answer of p was delivered ...
          \cup Flag(Len(Ev.queried) > 0 => p \in s.answered, "f_response_event_without_an_answer")
          \* ... and attributes to p only peers that p's answer named
          \cup Flag(\A q \in Range(Ev.heard) : <<p, q>> \in s.named, "f_response_event_attributes_peers_to_a_peer_that_did_not_name_them"))])

Other == l <= NLines /\ Ev.e \notin {"Deliver", "Resp", "Reset"} /\ Step(s)
Next == Deliver \/ Resp \/ Other
TraceSpec == Init /\ [][Next]_vars
TraceAccepted == TLCGet("distinct") = NLines
InvC01 == s.viol = {}
=============================================================================
