SPECIFICATION TraceSpec
INVARIANT InvC01
POSTCONDITION TraceAccepted
CHECK_DEADLOCK FALSE
