--------------------------- MODULE FindProviders ---------------------------
(***************************************************************************)
(* FindProvidersAsync of go-libp2p-kad-dht (routing.go                     *)
(* findProvidersAsyncRoutine): the dedup / cap set `ps`, local providers   *)
(* first with early return, the stop function, emission on an unbuffered   *)
(* channel.  The lookup is abstracted to: a run loop that, at each         *)
(* iteration, either stops (count reached) or asks up to Alpha peers;      *)
(* answers are processed one by one (queryFn), providers in any order      *)
(* (the code shuffles them).                                               *)
(* A provider entry is <<peer, hasAddrs>>.                                 *)
(***************************************************************************)
EXTENDS Integers, Sequences, FiniteSets, TLC

CONSTANTS Resp, Prov, Count, Alpha,
          BugCapOutsideLock, BugCountZeroIsCap

Entry == Prov \X BOOLEAN
VARIABLES ans,      \* responder -> set of provider entries it names (chosen initially)
          localPs,  \* providers in the local store (chosen initially)
          ps,       \* function peer -> hasAddrs of accepted providers
          out,      \* sequence of emitted entries
          asked, inflight, named, stopped, phase, lastCheck
vars == <<ans, localPs, ps, out, asked, inflight, named, stopped, phase, lastCheck>>

FindAll == Count = 0 /\ ~BugCountZeroIsCap
Size(f) == Cardinality(DOMAIN f)
Enough(f) == ~FindAll /\ Size(f) >= Count

\* psTryAdd under the mutex
CanAdd(f, e) == /\ (e[1] \notin DOMAIN f \/ (~f[e[1]] /\ e[2]))
                /\ (BugCapOutsideLock \/ FindAll \/ Size(f) < Count)
Add(f, e) == [q \in (DOMAIN f) \cup {e[1]} |-> IF q = e[1] THEN e[2] ELSE f[q]]

\* process a sequence of entries in order, stopping as queryFn / the local loop do
RECURSIVE Feed(_, _, _)
Feed(f, o, es) ==
  IF es = <<>> THEN <<f, o>>
  ELSE LET e == Head(es)
           f1 == IF CanAdd(f, e) THEN Add(f, e) ELSE f
           o1 == IF CanAdd(f, e) THEN Append(o, e) ELSE o
       IN IF Enough(f1) THEN <<f1, o1>> ELSE Feed(f1, o1, Tail(es))

Perms(S) == {q \in [1..Cardinality(S) -> S] : \A i, j \in DOMAIN q : i # j => q[i] # q[j]}

Init == /\ ans \in [Resp -> SUBSET Entry]
        /\ localPs \in SUBSET Entry
        /\ ps = <<>> /\ out = <<>> /\ asked = {} /\ inflight = {} /\ named = {}
        /\ stopped = FALSE /\ phase = "local" /\ lastCheck = FALSE

Local ==
  /\ phase = "local"
  /\ \E q \in Perms(localPs) :
       LET r == Feed(ps, out, q) IN
       /\ ps' = r[1] /\ out' = r[2]
       /\ phase' = IF Enough(r[1]) THEN "done" ELSE "search"
  /\ named' = localPs
  /\ UNCHANGED <<ans, localPs, asked, inflight, stopped, lastCheck>>

\* one run-loop iteration: stop function first, then spawn
Step ==
  /\ phase = "search"
  /\ IF Enough(ps) THEN /\ stopped' = TRUE /\ phase' = "drain" /\ UNCHANGED <<asked, inflight>>
     ELSE \E S \in SUBSET (Resp \ asked) :
            /\ Cardinality(S) + Cardinality(inflight) <= Alpha
            /\ (S = {} => inflight = {})
            /\ asked' = asked \cup S /\ inflight' = inflight \cup S
            /\ phase' = IF S = {} /\ inflight = {} THEN "done" ELSE "search"
            /\ stopped' = stopped
  /\ lastCheck' = Enough(ps)
  /\ UNCHANGED <<ans, localPs, ps, out, named>>

Answer(p) ==
  /\ phase \in {"search", "drain"} /\ p \in inflight
  /\ inflight' = inflight \ {p}
  /\ named' = named \cup ans[p]
  /\ \E q \in Perms(ans[p]) :
       LET r == Feed(ps, out, q) IN ps' = r[1] /\ out' = r[2]
  /\ phase' = IF phase = "drain" /\ inflight = {p} THEN "done" ELSE phase
  /\ UNCHANGED <<ans, localPs, asked, stopped, lastCheck>>

DrainEnd == phase = "drain" /\ inflight = {} /\ phase' = "done"
            /\ UNCHANGED <<ans, localPs, ps, out, asked, inflight, named, stopped, lastCheck>>
Done == phase = "done" /\ UNCHANGED vars
Next == Local \/ Step \/ (\E p \in Resp : Answer(p)) \/ DrainEnd \/ Done
Spec == Init /\ [][Next]_vars /\ WF_vars(Next)

OutPeers == {out[i][1] : i \in DOMAIN out}
YieldedWereNamed == \A i \in DOMAIN out : out[i] \in named
AtMostCountDistinct == Count > 0 => Cardinality(OutPeers) <= Count
RepeatOnlyAddsAddresses ==
  \A i, j \in DOMAIN out : (i < j /\ out[i][1] = out[j][1]) => (~out[i][2] /\ out[j][2])
AtMostTwice == \A x \in OutPeers : Cardinality({i \in DOMAIN out : out[i][1] = x}) <= 2
AllNamedWhenCountZero ==
  (phase = "done" /\ Count = 0) => {e[1] : e \in named} \subseteq OutPeers
\* no peer is asked in an iteration that starts after the count was reached
NoNewRequestAfterCount == [][Enough(ps) => asked' = asked]_vars
Termination == <>(phase = "done")
=============================================================================
