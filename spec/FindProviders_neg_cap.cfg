SPECIFICATION Spec
CONSTANTS
  Resp = {"r1", "r2"}
  Prov = {"x", "y"}
  Count = 1
  Alpha = 2
  BugCapOutsideLock = TRUE
  BugCountZeroIsCap = FALSE
INVARIANTS YieldedWereNamed AtMostCountDistinct RepeatOnlyAddsAddresses AtMostTwice AllNamedWhenCountZero
PROPERTIES NoNewRequestAfterCount Termination
CHECK_DEADLOCK TRUE
