SPECIFICATION Spec
CONSTANTS
  Resp = {"r1", "r2"}
  Prov = {"x", "y"}
  Count = 0
  Alpha = 2
  BugCapOutsideLock = FALSE
  BugCountZeroIsCap = TRUE
INVARIANTS YieldedWereNamed AtMostCountDistinct RepeatOnlyAddsAddresses AtMostTwice AllNamedWhenCountZero
PROPERTIES NoNewRequestAfterCount Termination
CHECK_DEADLOCK TRUE
