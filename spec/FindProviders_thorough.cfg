SPECIFICATION Spec
CONSTANTS
  Resp = {"r1", "r2", "r3"}
  Prov = {"x", "y"}
  Count = 2
  Alpha = 2
  BugCapOutsideLock = FALSE
  BugCountZeroIsCap = FALSE
INVARIANTS YieldedWereNamed AtMostCountDistinct RepeatOnlyAddsAddresses AtMostTwice AllNamedWhenCountZero
PROPERTIES NoNewRequestAfterCount Termination
CHECK_DEADLOCK TRUE
