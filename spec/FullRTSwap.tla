---------------------------- MODULE FullRTSwap ----------------------------
(* The accelerated client's crawl result: three snapshot parts under three  *)
(* locks (fullrt/dht.go runCrawler swap vs. GetClosestPeers read locks).    *)
EXTENDS Integers, FiniteSets, TLC
CONSTANTS Nested, Readers
\* three snapshot parts, each holds the generation of the crawl that produced it
VARIABLES part, wlock, rcount, pcW, pcR, view
vars == <<part, wlock, rcount, pcW, pcR, view>>
Parts == {"rt", "km", "pa"}
ROrder == <<"rt", "km", "pa">>                 \* GetClosestPeers: rtLk, kMapLk, peerAddrsLk
WOrder == <<"pa", "km", "rt">>                 \* runCrawler: peerAddrs, keyToPeerMap, rt
Init == /\ part = [x \in Parts |-> 1] /\ wlock = [x \in Parts |-> FALSE]
        /\ rcount = [x \in Parts |-> 0] /\ pcW = 1 /\ pcR = [r \in Readers |-> 1]
        /\ view = [r \in Readers |-> <<>>]
CanW(x) == ~wlock[x] /\ rcount[x] = 0
CanR(x) == ~wlock[x]
\* writer, code as is: for each part in WOrder: Lock; assign; Unlock  (pcW 1..6)
WSeq ==
  /\ ~Nested /\ pcW <= 6
  /\ LET x == WOrder[(pcW + 1) \div 2] IN
     IF pcW % 2 = 1 THEN /\ CanW(x) /\ wlock' = [wlock EXCEPT ![x] = TRUE] /\ part' = part
                    ELSE /\ part' = [part EXCEPT ![x] = 2] /\ wlock' = [wlock EXCEPT ![x] = FALSE]
  /\ pcW' = pcW + 1 /\ UNCHANGED <<rcount, pcR, view>>
\* writer, repaired: Lock rt, km, pa (reader order); assign all; unlock all (pcW 1..4)
WNest ==
  /\ Nested /\ pcW <= 4
  /\ IF pcW <= 3 THEN /\ CanW(ROrder[pcW]) /\ wlock' = [wlock EXCEPT ![ROrder[pcW]] = TRUE] /\ part' = part
                 ELSE /\ part' = [x \in Parts |-> 2] /\ wlock' = [x \in Parts |-> FALSE]
  /\ pcW' = pcW + 1 /\ UNCHANGED <<rcount, pcR, view>>
Read(r) ==
  /\ pcR[r] <= 4
  /\ IF pcR[r] <= 3 THEN /\ CanR(ROrder[pcR[r]])
                         /\ rcount' = [rcount EXCEPT ![ROrder[pcR[r]]] = @ + 1]
                         /\ view' = view
                    ELSE /\ view' = [view EXCEPT ![r] = <<part["rt"], part["km"], part["pa"]>>]
                         /\ rcount' = [x \in Parts |-> rcount[x] - 1]
  /\ pcR' = [pcR EXCEPT ![r] = @ + 1] /\ UNCHANGED <<part, wlock, pcW>>
Done == pcW > (IF Nested THEN 4 ELSE 6) /\ (\A r \in Readers : pcR[r] > 4) /\ UNCHANGED vars
Next == WSeq \/ WNest \/ (\E r \in Readers : Read(r)) \/ Done
Spec == Init /\ [][Next]_vars
ReaderSeesSingleCrawl == \A r \in Readers : view[r] # <<>> => (view[r][1] = view[r][2] /\ view[r][2] = view[r][3])
=============================================================================
