SPECIFICATION Spec
CONSTANTS
  Nested = TRUE
  Readers = {1, 2}
INVARIANT ReaderSeesSingleCrawl
