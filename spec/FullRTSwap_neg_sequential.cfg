SPECIFICATION Spec
CONSTANTS
  Nested = FALSE
  Readers = {1, 2}
INVARIANT ReaderSeesSingleCrawl
