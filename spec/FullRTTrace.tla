----------------------------- MODULE FullRTTrace -----------------------------
(***************************************************************************)
(* Trace specification for the accelerated client and the crawler (C16).   *)
(* Events come from harness/drivers/fullrt_test.go.  Peers are numbered    *)
(* 1..n; rankof[i] is the position of peer i by XOR distance to the key    *)
(* (computed by the harness with sha256, independently of the library);    *)
(* groups[i] is the set of IP groups of peer i's addresses.                *)
(***************************************************************************)
EXTENDS Integers, Sequences, FiniteSets, TLC, Json, IOUtils

Trace == ndJsonDeserialize(IOEnv.VERIF_TRACE)
NLines == Len(Trace)
VARIABLES l, s
vars == <<l, s>>
Range(f) == {f[i] : i \in DOMAIN f}
Ev == Trace[l]
Is(e) == l <= NLines /\ Ev.e = e
Flag(b, id) == IF b THEN {} ELSE {<<"C16", id>>}
ResetLines == {i \in 1..NLines : Trace[i].e = "Reset"}
Init == \E i \in ResetLines : l = i + 1 /\ s = [c |-> Trace[i], viol |-> {}]
Step(ns) == /\ s' = ns /\ l' = l + 1
            /\ (ns.viol = s.viol \/ PrintT("VIOL " \o ToString(s.c.t) \o " " \o ToString(l) \o " " \o ToString(ns.viol \ s.viol)))

Min(a, b) == IF a < b THEN a ELSE b
\* ascending list of the elements of a finite set of integers
SortedSeq(S) == [k \in 1..Cardinality(S) |-> CHOOSE x \in S : Cardinality({y \in S : y < x}) = k - 1]
Groups(i) == Range(s.c.groups[i])
AllGroups == UNION {Groups(i) : i \in 1..s.c.n}

\* the clauses of a closest-peers result against the crawled set C (peer numbers)
ClosestClauses(rankof, C, result) ==
  LET K == s.c.K
      limit == s.c.limit
      ranks == {rankof[i] : i \in C}
      peerOf(r) == CHOOSE i \in C : rankof[i] = r
      exact == limit = 0 \/ \A g \in AllGroups : Cardinality({i \in C : g \in Groups(i)}) <= limit
      nearest == SubSeq(SortedSeq(ranks), 1, Min(K, Cardinality(C)))
  IN Flag(Range(result) \subseteq ranks, "a_peer_not_of_the_crawl")
     \cup Flag(\A k \in 1..(Len(result) - 1) : result[k] < result[k + 1], "a_not_in_ascending_distance")
     \cup Flag(Len(result) <= K, "a_more_than_K")
     \cup Flag((limit > 0 /\ Range(result) \subseteq ranks) =>
                 \A g \in AllGroups : Cardinality({k \in DOMAIN result : g \in Groups(peerOf(result[k]))}) <= limit,
               "a_more_than_limit_per_ip_group")
     \cup Flag(exact => result = nearest, "b_not_the_k_nearest_crawled_peers")

\* the result of one crawl alone satisfies all clauses with that crawl's set
Holds(rankof, C, result) == ClosestClauses(rankof, C, result) = {}

\* the crawled set is what the client reports as its table (Stat); the scripted crawl must have been
\* taken over completely
Closest == /\ Is("Closest")
           /\ Step([s EXCEPT !.viol = @ \cup Flag(Ev.err = "", "d_closest_peers_failed")
                                        \cup Flag(s.c.kind = "closest" => Len(Ev.crawled) = s.c.n, "a_crawled_peer_missing_from_table")
                                        \cup ClosestClauses(Ev.rankof, Range(Ev.crawled), Ev.result)])

\* a reader racing with the swap sees crawl A or crawl B, nothing else
SwapResult == /\ Is("SwapResult")
              /\ Step([s EXCEPT !.viol = @ \cup
                   Flag(Holds(s.c.rankof, Range(s.c.a), Ev.result) \/ Holds(s.c.rankof, Range(s.c.b), Ev.result),
                        "a_result_of_no_single_crawl")])

Op == /\ Is("Op")
      /\ Step([s EXCEPT !.viol = @ \cup Flag(Ev.panic = "", "d_operation_panicked") \cup Flag(~Ev.hang, "d_operation_hung")])

\* the crawl: peers reachable from the seeds through answering peers
RECURSIVE Reach(_, _, _)
Reach(S, nbrs, fails) == LET T == S \cup UNION {Range(nbrs[p]) : p \in S \ fails} IN IF T = S THEN S ELSE Reach(T, nbrs, fails)
Crawl ==
  /\ Is("Crawl")
  /\ LET fails == Range(Ev.fails)
         reach == Reach(Range(Ev.seeds) \ Range(Ev.seednoaddr), Ev.nbrs, fails)   \* a seed without any address is not a starting point
     IN Step([s EXCEPT !.viol = @
          \cup Flag(~Ev.hang, "c_crawl_did_not_end")
          \cup Flag(\A p \in 1..Ev.n : Ev.connects[p] <= 1, "c_peer_queried_twice")
          \cup Flag(\A p \in 1..Ev.n : p \in reach => Ev.connects[p] >= 1, "c_reachable_peer_not_queried")
          \cup Flag(\A p \in 1..Ev.n : p \notin reach => Ev.connects[p] = 0, "c_unreachable_peer_queried")
          \cup Flag(\A p \in 1..Ev.n : Ev.ok[p] + Ev.fail[p] = (IF Ev.connects[p] >= 1 THEN 1 ELSE 0), "c_not_one_outcome_per_queried_peer")
          \cup Flag(\A p \in 1..Ev.n : (Ev.ok[p] = 1) => (p \notin fails), "c_failed_peer_reported_as_success")])

Other == (Is("Point") \/ Is("Release") \/ Is("End")) /\ Step(s)
Stuck == Is("Stuck") /\ Step([s EXCEPT !.viol = @ \cup {<<"C16", "d_wedged_or_crashed">>}])

\* A provider search of the accelerated client (every table peer reports providers; answers arrive in any order,
\* also several before the caller has taken anything): no provider twice, at most count of them, only reported ones,
\* and the channel is closed.
NoRepeat(q) == \A i, j \in DOMAIN q : i # j => q[i] # q[j]
FP ==
  /\ Is("FP")
  /\ Step([s EXCEPT !.viol = @
       \cup Flag(~Ev.hang, "d_operation_hung")
       \cup Flag(NoRepeat(Ev.emitted), "e_provider_yielded_twice_by_the_accelerated_client")
       \cup Flag(s.c.count > 0 => Len(Ev.emitted) <= s.c.count, "e_more_than_count_providers_from_the_accelerated_client")
       \cup Flag(Range(Ev.emitted) \subseteq Range(Ev.offered), "e_unreported_provider_from_the_accelerated_client")])

\* A value search of the accelerated client: the stream improves strictly under the validator (ranks strictly
\* increase: a different record of equal rank is no improvement), holds only valid values that some peer returned, ends.
SV ==
  /\ Is("SV")
  /\ Step([s EXCEPT !.viol = @
       \cup Flag(~Ev.hang, "d_operation_hung")
       \cup Flag(\A i \in 1..(Len(Ev.ranks) - 1) : Ev.ranks[i] < Ev.ranks[i + 1], "e_value_stream_of_the_accelerated_client_not_strictly_improving")
       \cup Flag(Ev.valid, "e_invalid_value_streamed_by_the_accelerated_client")
       \cup Flag(Ev.offered, "e_value_from_nowhere_streamed_by_the_accelerated_client")])

Next == Closest \/ SwapResult \/ Op \/ Crawl \/ FP \/ SV \/ Other \/ Stuck
TraceSpec == Init /\ [][Next]_vars
TraceAccepted == TLCGet("distinct") = NLines
InvC16 == s.viol = {}
=============================================================================
