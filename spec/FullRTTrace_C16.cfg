SPECIFICATION TraceSpec
INVARIANT InvC16
POSTCONDITION TraceAccepted
CHECK_DEADLOCK FALSE
