----------------------------- MODULE HonestNet -----------------------------
(***************************************************************************)
(* The lookup of Lookup.tla on an HONEST network (property C02):           *)
(* every peer answers, knows every peer of each of its non-full k-buckets  *)
(* and K peers of each full one, and replies with the K nearest peers it   *)
(* knows.  Peers have B-bit identifiers; distance is XOR.                  *)
(* A peer's table is chosen when the peer is first (and only) asked, which *)
(* is equivalent to choosing all tables up front.                          *)
(***************************************************************************)
EXTENDS Integers, FiniteSets, TLC

CONSTANTS B, Ids, K, Alpha, Beta, Full, BugTerminateEarly

VARIABLES key, st, chan, inflight, term, phase, result, asked, learned
vars == <<key, st, chan, inflight, term, phase, result, asked, learned>>

Bit(x, i) == (x \div (2 ^ i)) % 2
Xor(a, b) == LET RECURSIVE S(_) 
                 S(i) == IF i < 0 THEN 0 ELSE (IF Bit(a, i) # Bit(b, i) THEN 2 ^ i ELSE 0) + S(i - 1)
             IN S(B - 1)
D(p) == Xor(p, key)
\* common prefix length of two distinct ids
Cpl(a, b) == LET x == Xor(a, b)
                 hi == CHOOSE i \in 0..(B - 1) : Bit(x, i) = 1 /\ \A j \in (i + 1)..(B - 1) : Bit(x, j) = 0
             IN B - 1 - hi
NearestBy(S, n, k) == {p \in S : Cardinality({q \in S : Xor(q, k) < Xor(p, k)}) < n}
Nearest(S, n) == NearestBy(S, n, key)
Bucket(p, i) == {q \in Ids \ {p} : Cpl(p, q) = i}
\* the k-bucket-complete tables of peer p
Tables(p) == IF Full THEN {Ids \ {p}}
             ELSE {S \in SUBSET (Ids \ {p}) :
                     \A i \in 0..(B - 1) : LET bk == Bucket(p, i) IN
                        IF Cardinality(bk) <= K THEN bk \subseteq S
                        ELSE Cardinality(S \cap bk) = K}
Answers(p) == {Nearest(S, K) : S \in Tables(p)}

InState(S) == {p \in Ids : st[p] \in S}
NotUnreach == InState({"heard", "waiting", "queried"})

Init == /\ key \in 0..(2 ^ B - 1)
        /\ \E S \in SUBSET Ids : S # {} /\ Cardinality(S) <= K
             /\ chan = {[p |-> -1, heard |-> S]}
        /\ learned = {} /\ st = [p \in Ids |-> "none"]
        /\ inflight = {} /\ term = "no" /\ phase = "search" /\ asked = {} /\ result = {}

Apply(u) == [p \in Ids |-> IF p = u.p THEN "queried"
                           ELSE IF p \in u.heard /\ st[p] = "none" THEN "heard" ELSE st[p]]

StepUpdate(u) ==
  /\ phase = "search" /\ term = "no" /\ u \in chan
  /\ chan' = chan \ {u}
  /\ LET s1 == Apply(u)
         heard1 == {p \in Ids : s1[p] = "heard"}
         wait1  == {p \in Ids : s1[p] = "waiting"}
         nu1    == {p \in Ids : s1[p] \in {"heard", "waiting", "queried"}}
         starv  == heard1 = {} /\ wait1 = {}
         lterm  == \A p \in Nearest(nu1, IF BugTerminateEarly THEN 0 ELSE Beta) : s1[p] = "queried"
         spawn  == Nearest(heard1, Alpha - Cardinality(wait1))
     IN IF starv THEN /\ st' = s1 /\ term' = "starvation" /\ UNCHANGED <<inflight, asked>>
        ELSE IF lterm THEN /\ st' = s1 /\ term' = "completed" /\ UNCHANGED <<inflight, asked>>
        ELSE /\ st' = [p \in Ids |-> IF p \in spawn THEN "waiting" ELSE s1[p]]
             /\ inflight' = inflight \cup spawn /\ asked' = asked \cup spawn /\ term' = "no"
  /\ learned' = learned \cup u.heard
  /\ UNCHANGED <<key, phase, result>>

NetComplete(p) ==
  /\ p \in inflight /\ Cardinality(chan) < Alpha
  /\ inflight' = inflight \ {p}
  /\ \E A \in Answers(p) : chan' = chan \cup {[p |-> p, heard |-> A]}
  /\ UNCHANGED <<key, st, term, phase, asked, learned, result>>

EndSearch ==
  /\ phase = "search" /\ term # "no" /\ inflight = {}
  /\ result' = Nearest(NotUnreach, K)
  \* follow-up: every result peer still heard / waiting is asked before the return
  /\ asked' = asked \cup {p \in Nearest(NotUnreach, K) : st[p] \in {"heard", "waiting"}}
  /\ phase' = "done"
  /\ UNCHANGED <<key, st, chan, inflight, term, learned>>

Done == phase = "done" /\ UNCHANGED vars
Next == Done \/ (\E u \in chan : StepUpdate(u)) \/ (\E p \in Ids : NetComplete(p)) \/ EndSearch
Spec == Init /\ [][Next]_vars
FairSpec == Spec /\ WF_vars(\E u \in chan : StepUpdate(u)) /\ WF_vars(\E p \in Ids : NetComplete(p)) /\ WF_vars(EndSearch)

GlobalNearest(n) == NearestBy(Ids, n, key)
FirstIsGlobalNearest == phase = "done" => Nearest(result, 1) = GlobalNearest(1)
FullKnowledgeExactK == (phase = "done" /\ Full) => result = GlobalNearest(K)
CompletedMeansBetaQueried == (phase = "done") =>
    \/ (InState({"heard"}) = {} /\ InState({"waiting"}) = {})
    \/ \A p \in Nearest(NotUnreach, Beta) : st[p] = "queried"
ReturnedWereAsked == phase = "done" => result \subseteq asked
Termination == <>(phase = "done")
=============================================================================
