SPECIFICATION FairSpec
CONSTANTS
  B = 3
  Ids = {0, 2, 3, 5, 6}
  K = 1
  Alpha = 1
  Beta = 1
  Full = FALSE
  BugTerminateEarly = FALSE
INVARIANTS FirstIsGlobalNearest FullKnowledgeExactK CompletedMeansBetaQueried ReturnedWereAsked
PROPERTY Termination
CHECK_DEADLOCK TRUE
