SPECIFICATION Spec
CONSTANTS
  B = 3
  Ids = {0, 1, 3, 4, 6, 7}
  K = 2
  Alpha = 2
  Beta = 1
  Full = FALSE
  BugTerminateEarly = TRUE
INVARIANTS FirstIsGlobalNearest FullKnowledgeExactK CompletedMeansBetaQueried ReturnedWereAsked
CHECK_DEADLOCK TRUE
