SPECIFICATION Spec
CONSTANTS
  B = 4
  Ids = {0, 1, 3, 6, 7, 9, 12, 13}
  K = 2
  Alpha = 3
  Beta = 2
  Full = FALSE
  BugTerminateEarly = FALSE
INVARIANTS FirstIsGlobalNearest FullKnowledgeExactK CompletedMeansBetaQueried ReturnedWereAsked
CHECK_DEADLOCK TRUE
