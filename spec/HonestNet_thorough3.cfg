SPECIFICATION Spec
CONSTANTS
  B = 4
  Ids = {1, 2, 4, 5, 8, 11, 14, 15}
  K = 3
  Alpha = 2
  Beta = 3
  Full = FALSE
  BugTerminateEarly = FALSE
INVARIANTS FirstIsGlobalNearest FullKnowledgeExactK CompletedMeansBetaQueried ReturnedWereAsked
CHECK_DEADLOCK TRUE
