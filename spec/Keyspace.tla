------------------------------ MODULE Keyspace ------------------------------
(***************************************************************************)
(* Set-theoretic definitions of the keyspace planning functions of the     *)
(* sweeping provider (provider/internal/keyspace), over bit sequences.     *)
(* A "trie" is a prefix-free set of bit sequences; full keys are bit       *)
(* sequences of one common length.                                         *)
(***************************************************************************)
EXTENDS Integers, Sequences, FiniteSets, TLC

Range(f) == {f[i] : i \in DOMAIN f}
IsPrefix(p, q) == Len(p) <= Len(q) /\ \A i \in 1..Len(p) : p[i] = q[i]
Overlap(p, q) == IsPrefix(p, q) \/ IsPrefix(q, p)
Parent(p) == SubSeq(p, 1, Len(p) - 1)
Sibling(p) == [i \in 1..Len(p) |-> IF i = Len(p) THEN 1 - p[i] ELSE p[i]]
RECURSIVE SeqOfLen(_)
SeqOfLen(n) == IF n = 0 THEN {<<>>} ELSE {Append(q, b) : q \in SeqOfLen(n - 1), b \in {0, 1}}
UpTo(n) == UNION {SeqOfLen(i) : i \in 0..n}
MaxLen(T) == IF T = {} THEN 0 ELSE CHOOSE n \in {Len(x) : x \in T} : \A y \in T : Len(y) <= n
\* XOR distance of two equally long bit sequences
Dist(a, b) == LET RECURSIVE S(_)
                  S(i) == IF i > Len(a) THEN 0 ELSE (IF a[i] # b[i] THEN 2 ^ (Len(a) - i) ELSE 0) + S(i + 1)
              IN S(1)
Cpl(a, b) == LET n == IF Len(a) < Len(b) THEN Len(a) ELSE Len(b)
             IN Cardinality({i \in 1..n : \A j \in 1..i : a[j] = b[j]})
\* a comes before b in the traversal that prefers, at every branching, the bit of `o`
\* (a, b not overlapping)
Before(a, b, o) == LET i == Cpl(a, b) + 1 IN a[i] = (IF i <= Len(o) THEN o[i] ELSE 0)
Sorted(S, o) == \* the sequence of the elements of the prefix-free set S in that order
  LET RECURSIVE Build(_)
      Build(R) == IF R = {} THEN <<>>
                  ELSE LET m == CHOOSE x \in R : \A y \in R \ {x} : Before(x, y, o)
                       IN <<m>> \o Build(R \ {m})
  IN Build(S)

\* --- allocation: every item to the min(k, #dests) XOR-nearest destinations
KNearest(D, x, k) == {d \in D : Cardinality({e \in D : Dist(e, x) < Dist(d, x)}) < k}
Alloc(I, D, k) == [d \in D |-> {x \in I : d \in KNearest(D, x, k)}]

\* --- prefix-set operations
Subtract(T0, T1) == {x \in T0 : ~\E y \in T1 : IsPrefix(y, x)}
Prune(T, k) == {x \in T : ~IsPrefix(k, x)}
FindPrefixOf(T, k) == {p \in T : IsPrefix(p, k)}
SubtrieKeys(T, k) == {x \in T : IsPrefix(k, x)}
\* full coverage of a prefix p by T: every long enough extension of p is under a key of T
CoveredBy(T, p) == LET n == IF MaxLen(T) > Len(p) THEN MaxLen(T) ELSE Len(p)
                   IN \A s \in {q \in SeqOfLen(n) : IsPrefix(p, q)} : \E k \in T : IsPrefix(k, s)
KeyspaceCovered(T) == T # {} /\ CoveredBy(T, <<>>)
\* merging sibling leaves recursively = the minimal prefix-free set with the same coverage
Coalesce(T) == {p \in UpTo(MaxLen(T)) : T # {} /\ (\E k \in T : IsPrefix(p, k)) /\ CoveredBy(T, p)
                                        /\ (p = <<>> \/ ~CoveredBy(T, Parent(p)))}
\* uncovered gaps inside target: maximal prefixes under target that no key of T overlaps
Touches(T, p) == \E k \in T : Overlap(k, p)
Gaps(T, target) ==
  IF \E k \in T : IsPrefix(k, target) THEN {}
  ELSE {g \in UpTo(IF MaxLen(T) > Len(target) THEN MaxLen(T) ELSE Len(target)) :
          /\ IsPrefix(target, g) /\ ~Touches(T, g)
          /\ (g = target \/ Touches(T, Parent(g)))}
\* cyclic successor of k among the keys of T in the order given by o
\* (k is a key of T or overlaps none of them)
NextInOrder(T, k, o) ==
  IF T = {} THEN {}
  ELSE IF Cardinality(T) = 1 THEN T
  ELSE LET after == {x \in T \ {k} : Before(k, x, o)}
           first(S) == CHOOSE x \in S : \A y \in S \ {x} : Before(x, y, o)
       IN IF after # {} THEN {first(after)} ELSE {first(T)}

\* --- regions (peers are L-bit values given as bit sequences)
Under(P, p) == {x \in P : IsPrefix(p, x)}
\* the prefixes of a valid region plan of peer set P under `covered` with minimum size r
ValidRegions(RP, P, covered, r) ==
  /\ \A a, b \in RP : a # b => ~Overlap(a, b)                                  \* no overlap
  /\ \A p \in RP : IsPrefix(covered, p)
  /\ \A x \in P : Cardinality({p \in RP : IsPrefix(p, x)}) = 1                   \* peers partitioned
  /\ CoveredBy(RP, covered)                                                     \* the covered prefix is partitioned
  /\ (Cardinality(P) >= r => \A p \in RP : Cardinality(Under(P, p)) >= r)       \* at least r peers each
  /\ \A p \in RP : ~(Cardinality(Under(P, Append(p, 0))) >= r /\ Cardinality(Under(P, Append(p, 1))) >= r)  \* minimal
\* the region a key goes to: the one whose prefix it matches, else the one sharing the longest prefix
RegionOf(RP, x) == IF \E p \in RP : IsPrefix(p, x) THEN {p \in RP : IsPrefix(p, x)}
                   ELSE {p \in RP : \A q \in RP : Cpl(q, x) <= Cpl(p, x)}

\* --- shortest covered prefix from a closest-peers answer
ShortestCovered(target, P) ==
  IF P = {} THEN [full |-> FALSE, prefix |-> <<>>, peers |-> {}]
  ELSE IF Cardinality(P) = 1
       THEN (IF \A x \in P : IsPrefix(target, x) THEN [full |-> TRUE, prefix |-> <<>>, peers |-> P]
                                                 ELSE [full |-> FALSE, prefix |-> <<>>, peers |-> {}])
  ELSE LET cpls == {Cpl(target, x) : x \in P}
           m == CHOOSE c \in cpls : \A d \in cpls : c <= d
       IN IF m >= Len(target) THEN [full |-> FALSE, prefix |-> <<>>, peers |-> {}]
          ELSE [full |-> FALSE, prefix |-> SubSeq(target, 1, m + 1), peers |-> {x \in P : Cpl(target, x) > m}]

\* Known finding D11: the implementation does not always clip gaps to the target - an
\* empty branch on the way to the target is reported as that (broader) branch, and the
\* siblings of a lone key hanging above the target are reported although they lie
\* outside it.  Such an answer still names only truly uncovered zones and misses none.
GapsUnclipped(T, target, out) ==
  /\ out # Gaps(T, target)
  /\ \A g \in Gaps(T, target) : \E o \in out : IsPrefix(o, g)
  /\ \A o \in out : ~Touches(T, o)
  /\ \A a, b \in out : a # b => ~Overlap(a, b)
=============================================================================
