-------------------------- MODULE KeyspaceTheorems --------------------------
(***************************************************************************)
(* Sanity theorems about the set-theoretic definitions of Keyspace.tla,    *)
(* checked by enumeration: every prefix-free set of prefixes up to N bits, *)
(* every target, every peer set.  Each initial state is one input.         *)
(***************************************************************************)
EXTENDS Keyspace

CONSTANTS N, R, BugGapsIgnoreTarget,
          Part   \* "all": every (trie, target, peer set); "trie": every (trie, target) without peers;
                 \* "peers": every peer set with the empty trie (the theorems about tries do not mention the
                 \* peers and vice versa, so the two parts together decide the same as "all")
VARIABLES T, target, P
vars == <<T, target, P>>

PrefixFree(S) == \A a, b \in S : a # b => ~Overlap(a, b)
PrefixFreeSets == {S \in SUBSET UpTo(N) : PrefixFree(S)}   \* (constant: TLC evaluates it once)
Init == /\ T \in (IF Part = "peers" THEN {{}} ELSE PrefixFreeSets)
        /\ target \in (IF Part = "peers" THEN {<<>>} ELSE UpTo(N))
        /\ P \in (IF Part = "trie" THEN {{}} ELSE SUBSET SeqOfLen(N))
Next == UNCHANGED vars
Spec == Init /\ [][Next]_vars

G == IF BugGapsIgnoreTarget THEN Gaps(T, <<>>) ELSE Gaps(T, target)
Full(p) == {q \in SeqOfLen(N) : IsPrefix(p, q)}
\* trie keys and gaps together partition the target: every full key under the target is
\* under exactly one of them, and every gap lies inside the target
GapsPartitionTarget ==
  /\ \A g \in G : IsPrefix(target, g)
  /\ \A q \in Full(target) : Cardinality({x \in T \cup G : IsPrefix(x, q)}) = 1
\* coalescing keeps the covered keyspace and yields a prefix-free set with no sibling pair left
CoalesceKeepsCoverage ==
  LET C == Coalesce(T) IN
  /\ PrefixFree(C)
  /\ \A q \in SeqOfLen(N) : (\E x \in T : IsPrefix(x, q)) <=> (\E x \in C : IsPrefix(x, q))
  /\ \A x \in C : Len(x) > 0 => Sibling(x) \notin C
SubtractIsDifference == \A S \in {Subtract(T, {target})} : \A q \in SeqOfLen(N) :
    (\E x \in S : IsPrefix(x, q)) => ~IsPrefix(target, q) \/ (\E x \in T : IsPrefix(x, q) /\ ~IsPrefix(target, x))
CoveredIffNoGaps == KeyspaceCovered(T) <=> (T # {} /\ Gaps(T, <<>>) = {})
\* a minimal region plan exists for every peer set and satisfies the partition conditions
RegionPlanExists ==
  P # {} => \E RP \in PrefixFreeSets : ValidRegions(RP, P, <<>>, R)
AllocBounds == \A x \in SeqOfLen(N) : Cardinality(KNearest(P, x, R)) = (IF Cardinality(P) < R THEN Cardinality(P) ELSE R)
=============================================================================
