SPECIFICATION Spec
CONSTANTS
  N = 2
  R = 2
  Part = "all"
  BugGapsIgnoreTarget = TRUE
INVARIANTS GapsPartitionTarget CoalesceKeepsCoverage SubtractIsDifference CoveredIffNoGaps RegionPlanExists AllocBounds
CHECK_DEADLOCK FALSE
