SPECIFICATION Spec
CONSTANTS
  N = 3
  R = 2
  Part = "trie"
  BugGapsIgnoreTarget = FALSE
INVARIANTS GapsPartitionTarget CoalesceKeepsCoverage SubtractIsDifference CoveredIffNoGaps RegionPlanExists AllocBounds
CHECK_DEADLOCK FALSE
