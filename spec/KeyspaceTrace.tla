--------------------------- MODULE KeyspaceTrace ---------------------------
(***************************************************************************)
(* TLC as the oracle for the keyspace planning functions (C18): each       *)
(* record is one call of a real function (inputs and output); the          *)
(* definitions of Keyspace.tla say what the output must be.                *)
(***************************************************************************)
EXTENDS Keyspace, Json, IOUtils

Trace == ndJsonDeserialize(IOEnv.VERIF_TRACE)
NLines == Len(Trace)
VARIABLES l, s
vars == <<l, s>>
Ev == Trace[l]
Flag(b, id) == IF b THEN {} ELSE {<<"C18", id>>}
ResetLines == {i \in 1..NLines : Trace[i].e = "Reset"}
Init == \E i \in ResetLines : l = i + 1 /\ s = [c |-> Trace[i], viol |-> {}]
Step(ns) == /\ s' = ns /\ l' = l + 1
            /\ (ns.viol = s.viol \/ PrintT("VIOL " \o ToString(s.c.t) \o " " \o ToString(l) \o " " \o ToString(ns.viol \ s.viol)))

BitsOf(v, n) == [i \in 1..n |-> (v \div (2 ^ (n - i))) % 2]
L == s.c.L

Check(r) ==
  CASE r.f = "alloc" ->
         LET I == Range(r.items)
             D == Range(r.dests)
             want == Alloc(I, D, r.k)
             got == [d \in {o.d : o \in Range(r.out)} |-> (CHOOSE o \in Range(r.out) : o.d = d).items]
         IN Flag(DOMAIN got = D, "a_allocation_destinations_wrong")
            \cup Flag(\A d \in D \cap DOMAIN got : Range(got[d]) = want[d], "a_item_not_on_its_k_nearest")
            \cup Flag(\A d \in DOMAIN got : Cardinality(Range(got[d])) = Len(got[d]), "a_item_allocated_twice")
    [] r.f = "regions" ->
         LET P == {BitsOf(v, L) : v \in Range(r.peers)}
             RP == {o.prefix : o \in Range(r.out)}
             K == Range(r.keys)
         IN IF P = {} THEN Flag(Len(r.out) = 0, "b_regions_from_no_peers")
            ELSE Flag(Cardinality(RP) = Len(r.out), "b_region_listed_twice")
                 \cup Flag(ValidRegions(RP, P, r.covered, r.size), "b_regions_not_a_minimal_partition")
                 \cup Flag(\A o \in Range(r.out) : {BitsOf(v, L) : v \in Range(o.peers)} = Under(P, o.prefix), "b_region_peers_wrong")
                 \cup Flag(\A i \in 1..(Len(r.out) - 1) : Before(r.out[i].prefix, r.out[i + 1].prefix, BitsOf(r.order, L)), "b_regions_not_in_order")
                 \cup Flag(\A k \in K : Cardinality({o \in Range(r.out) : k \in Range(o.keys)}) = 1, "b_key_not_in_exactly_one_region")
                 \cup Flag(\A o \in Range(r.out) : \A k \in Range(o.keys) : o.prefix \in RegionOf(RP, BitsOf(k, L)), "b_key_in_wrong_region")
                 \cup Flag(\A o \in Range(r.out) : Range(o.keys) \subseteq K /\ Cardinality(Range(o.keys)) = Len(o.keys), "b_region_keys_wrong")
    [] r.f = "gaps" ->
         LET T == Range(r.tr)
             want == Gaps(T, r.target)
         IN (IF Range(r.out) = want THEN {}
             ELSE IF GapsUnclipped(T, r.target, Range(r.out)) THEN {<<"C18", "c_gaps_not_clipped_to_target">>}
             ELSE {<<"C18", "c_gaps_wrong">>})
            \cup Flag(Len(r.out) = Cardinality(Range(r.out)), "c_gap_listed_twice")
            \cup Flag(\A i \in 1..(Len(r.out) - 1) : Before(r.out[i], r.out[i + 1], r.order), "c_gaps_not_in_order")
    [] r.f = "subtract" -> Flag(Range(r.out) = Subtract(Range(r.tr0), Range(r.tr1)), "c_subtract_wrong")
    [] r.f = "coalesce" -> Flag(Range(r.out) = Coalesce(Range(r.tr)), "c_coalesce_wrong")
    [] r.f = "next" -> Flag(Range(r.out) = NextInOrder(Range(r.tr), r.k, r.order), "c_next_in_order_wrong")
    [] r.f = "prune" ->
         LET want == Prune(Range(r.tr), r.k) IN
         Flag(Range(r.out) = want, "c_prune_wrong")
         \cup Flag(r.size = Cardinality(want), "c_prune_size_wrong")
         \cup Flag(Range(r.gapsafter) = Gaps(want, <<>>), "c_prune_leaves_unwalkable_trie")
    [] r.f = "find" ->
         LET T == Range(r.tr) IN
         Flag(Range(r.prefix) = FindPrefixOf(T, r.k), "c_prefix_lookup_wrong")
         \cup Flag(r.subok = (SubtrieKeys(T, r.k) # {}), "c_subtrie_lookup_wrong")
         \cup Flag(r.subok => Range(r.sub) = SubtrieKeys(T, r.k), "c_subtrie_keys_wrong")
    [] r.f = "covered" -> Flag(r.out = KeyspaceCovered(Range(r.tr)), "c_keyspace_covered_wrong")
    [] r.f = "shortest" ->
         LET P == {BitsOf(v, L) : v \in Range(r.peers)}
             want == ShortestCovered(r.target, P)
             gotP == {BitsOf(v, L) : v \in Range(r.out)}
         IN IF want.full
            THEN Flag(r.fullkey /\ r.prefix \in P /\ gotP = P, "c_shortest_covered_prefix_wrong")
            ELSE Flag(~r.fullkey /\ r.prefix = want.prefix /\ gotP = want.peers, "c_shortest_covered_prefix_wrong")
    [] OTHER -> {<<"C18", "x_unknown_record">>}

Rec == l <= NLines /\ Ev.e = "Rec" /\ Step([s EXCEPT !.viol = @ \cup Check(Ev)])
Next == Rec
TraceSpec == Init /\ [][Next]_vars
TraceAccepted == TLCGet("distinct") = NLines
InvC18 == s.viol = {}
=============================================================================
