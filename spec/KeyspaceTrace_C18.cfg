SPECIFICATION TraceSpec
INVARIANT InvC18
POSTCONDITION TraceAccepted
CHECK_DEADLOCK FALSE
