------------------------------ MODULE Keystore ------------------------------
(***************************************************************************)
(* The atomic reset of the resettable keystore                             *)
(* (provider/keystore/resettable_keystore.go), factory mode: the two slots *)
(* and the meta store (active marker) are separate physical datastores.    *)
(* Every store has durable content and a list of unsynced writes; a crash  *)
(* keeps the durable content and any prefix of the unsynced writes of each *)
(* store independently.                                                    *)
(*   StartReset  opStart: empty the alternate slot                         *)
(*   Feed        phase A: blind write of an input key to the alternate     *)
(*   Put         a concurrent Put: buffered for the alternate slot,        *)
(*               written and synced to the primary, then acknowledged      *)
(*   Drain       buffered keys written to the alternate slot               *)
(*   Cleanup     final drain, sync of the alternate slot, marker flip +    *)
(*               sync, teardown of the old slot                            *)
(*   Cancel      the reset fails: the alternate slot is torn down          *)
(*   Crash / Recover                                                       *)
(***************************************************************************)
EXTENDS Integers, Sequences, FiniteSets, TLC

CONSTANTS Old, New, Extra,        \* previous contents, reset input, keys put concurrently
          SyncBeforeFlip, DrainAtCleanup, TeardownAfterMarker

Slots == {0, 1}
VARIABLES dur, uns,    \* store -> durable set / sequence of unsynced writes <<"add"|"clear", keys>>
          mdur, muns,  \* meta store: durable marker / sequence of unsynced marker values
          active, phase, input, buf, acked, ackedDuring, crashed, view
vars == <<dur, uns, mdur, muns, active, phase, input, buf, acked, ackedDuring, crashed, view>>

Apply(S, w) == IF w[1] = "add" THEN S \cup w[2] ELSE {}
RECURSIVE ApplyAll(_, _)
ApplyAll(S, ws) == IF ws = <<>> THEN S ELSE ApplyAll(Apply(S, Head(ws)), Tail(ws))
Vol(x) == ApplyAll(dur[x], uns[x])             \* what the running process sees
Write(x, w) == uns' = [uns EXCEPT ![x] = Append(@, w)]
SyncStore(x) == /\ dur' = [dur EXCEPT ![x] = Vol(x)] /\ uns' = [uns EXCEPT ![x] = <<>>]

Init == /\ dur = [x \in Slots |-> IF x = 0 THEN Old ELSE {}] /\ uns = [x \in Slots |-> <<>>]
        /\ mdur = 0 /\ muns = <<>> /\ active = 0 /\ phase = "idle" /\ input = New
        /\ buf = {} /\ acked = {} /\ ackedDuring = {} /\ crashed = FALSE /\ view = {}

Alt == 1 - active

StartReset == /\ phase = "idle" /\ ~crashed /\ input = New
              /\ dur' = [dur EXCEPT ![Alt] = {}] /\ uns' = [uns EXCEPT ![Alt] = <<>>]   \* emptied and synced
              /\ phase' = "A"
              /\ UNCHANGED <<mdur, muns, active, input, buf, acked, ackedDuring, crashed, view>>
Feed(k) == /\ phase = "A" /\ ~crashed /\ k \in input
           /\ Write(Alt, <<"add", {k}>>) /\ input' = input \ {k}
           /\ UNCHANGED <<dur, mdur, muns, active, phase, buf, acked, ackedDuring, crashed, view>>
\* a Put: buffered (during a reset), written + synced to the primary, acknowledged
\* (opCleanup runs on the worker, so no Put can interleave with its steps - only a crash can)
Put(k) == /\ ~crashed /\ k \in Extra \ acked /\ phase \in {"idle", "A", "cleanup"}
          /\ buf' = IF phase = "idle" THEN buf ELSE buf \cup {k}
          /\ dur' = [dur EXCEPT ![active] = Vol(active) \cup {k}] /\ uns' = [uns EXCEPT ![active] = <<>>]
          /\ acked' = acked \cup {k}
          /\ ackedDuring' = IF phase = "idle" THEN ackedDuring ELSE ackedDuring \cup {k}
          /\ UNCHANGED <<mdur, muns, active, phase, input, crashed, view>>
Drain == /\ phase = "A" /\ ~crashed /\ buf # {}
         /\ Write(Alt, <<"add", buf>>) /\ buf' = {}
         /\ UNCHANGED <<dur, mdur, muns, active, phase, input, acked, ackedDuring, crashed, view>>
EndA == /\ phase = "A" /\ ~crashed /\ input = {}
        /\ SyncStore(Alt) /\ phase' = "cleanup"
        /\ UNCHANGED <<mdur, muns, active, input, buf, acked, ackedDuring, crashed, view>>
\* opCleanup on the worker: final drain, sync, marker flip
Cleanup1 == /\ phase = "cleanup" /\ ~crashed
            /\ IF DrainAtCleanup THEN uns' = [uns EXCEPT ![Alt] = Append(@, <<"add", buf>>)] ELSE uns' = uns
            /\ buf' = {} /\ phase' = "synced?"
            /\ UNCHANGED <<dur, mdur, muns, active, input, acked, ackedDuring, crashed, view>>
Cleanup2 == /\ phase = "synced?" /\ ~crashed
            /\ IF SyncBeforeFlip THEN SyncStore(Alt) ELSE UNCHANGED <<dur, uns>>
            /\ phase' = "flip"
            /\ UNCHANGED <<mdur, muns, active, input, buf, acked, ackedDuring, crashed, view>>
Flip == /\ phase = "flip" /\ ~crashed
        /\ muns' = Append(muns, Alt) /\ active' = Alt /\ phase' = "marked"
        /\ UNCHANGED <<dur, uns, mdur, input, buf, acked, ackedDuring, crashed, view>>
MarkerSync == /\ phase = "marked" /\ ~crashed
              /\ mdur' = muns[Len(muns)] /\ muns' = <<>> /\ phase' = "teardown"
              /\ UNCHANGED <<dur, uns, active, input, buf, acked, ackedDuring, crashed, view>>
\* the old slot (now the alternate) is destroyed
Teardown == /\ phase = (IF TeardownAfterMarker THEN "teardown" ELSE "marked") /\ ~crashed
            /\ dur' = [dur EXCEPT ![Alt] = {}] /\ uns' = [uns EXCEPT ![Alt] = <<>>]
            /\ phase' = IF TeardownAfterMarker THEN "swapped" ELSE "teardown"
            /\ UNCHANGED <<mdur, muns, active, input, buf, acked, ackedDuring, crashed, view>>
FinishMarked == /\ ~TeardownAfterMarker /\ phase = "teardown" /\ ~crashed
                /\ mdur' = (IF muns = <<>> THEN mdur ELSE muns[Len(muns)]) /\ muns' = <<>> /\ phase' = "swapped"
                /\ UNCHANGED <<dur, uns, active, input, buf, acked, ackedDuring, crashed, view>>
Cancel == /\ phase \in {"A", "cleanup"} /\ ~crashed
          /\ dur' = [dur EXCEPT ![Alt] = {}] /\ uns' = [uns EXCEPT ![Alt] = <<>>]
          /\ phase' = "cancelled" /\ buf' = {}
          /\ UNCHANGED <<mdur, muns, active, input, acked, ackedDuring, crashed, view>>

\* crash: every store keeps its durable content plus some prefix of its unsynced writes;
\* recovery reads the marker and serves the slot it names
Crash == /\ ~crashed
         /\ \E m \in 0..Len(muns), c0 \in 0..Len(uns[0]), c1 \in 0..Len(uns[1]) :
              LET marker == IF m = 0 THEN mdur ELSE muns[m]
                  s0 == ApplyAll(dur[0], SubSeq(uns[0], 1, c0))
                  s1 == ApplyAll(dur[1], SubSeq(uns[1], 1, c1))
              IN view' = IF marker = 0 THEN s0 ELSE s1
         /\ crashed' = TRUE
         /\ UNCHANGED <<dur, uns, mdur, muns, active, phase, input, buf, acked, ackedDuring>>

Next == StartReset \/ (\E k \in New : Feed(k)) \/ (\E k \in Extra : Put(k)) \/ Drain \/ EndA
        \/ Cleanup1 \/ Cleanup2 \/ Flip \/ MarkerSync \/ Teardown \/ FinishMarked \/ Cancel \/ Crash
        \/ UNCHANGED vars
Spec == Init /\ [][Next]_vars

\* after a crash at any point: the complete previous set or the complete new set, each
\* with the acknowledged concurrent puts - never a mixture or a partial set
ResetAtomic == crashed => (view = Old \cup acked \/ view = New \cup ackedDuring)
\* without a crash, a completed reset serves exactly the new set plus the concurrent puts
CompletedExact == (phase = "swapped" /\ ~crashed) => Vol(active) = New \cup ackedDuring
CancelledKeepsOld == (phase = "cancelled" /\ ~crashed) => Vol(active) = Old \cup acked
=============================================================================
