---------------------------- MODULE KeystoreTrace ----------------------------
(***************************************************************************)
(* Property-level trace specification for the keystore and the resettable  *)
(* keystore (C20), validated against traces of the real implementations    *)
(* recorded by harness/drivers/ks_test.go over journalled datastores       *)
(* (crash = a journal cut per physical store that keeps everything up to   *)
(* the last sync and a prefix of the later writes).                        *)
(* `stored` is the set of keys the keystore must hold; keys are indices    *)
(* into c.bits (their first 12 identifier bits).                           *)
(***************************************************************************)
EXTENDS Integers, Sequences, FiniteSets, TLC, Json, IOUtils

Trace == ndJsonDeserialize(IOEnv.VERIF_TRACE)
NLines == Len(Trace)
VARIABLES l, s
vars == <<l, s>>
Range(f) == {f[i] : i \in DOMAIN f}
Min(a, b) == IF a < b THEN a ELSE b

Fresh(run) == [
  c           |-> run,
  stored      |-> {},
  inReset     |-> FALSE,
  interrupted |-> FALSE,  \* the reset was cut by a crash or by Close
  newSet      |-> {},
  ackedDuring |-> {},
  inflight    |-> {},     \* keys of concurrent puts not (yet) acknowledged
  cancelled   |-> FALSE,
  resetErr    |-> "",
  viol        |-> {} ]

c == s.c
Ev == Trace[l]
Is(e) == l <= NLines /\ Ev.e = e
Flag(b, id) == IF b THEN {} ELSE {<<"C20", id>>}
ResetLines == {i \in 1..NLines : Trace[i].e = "Reset"}
Init == \E i \in ResetLines : l = i + 1 /\ s = Fresh(Trace[i])
Step(ns) == /\ s' = ns /\ l' = l + 1
            /\ (ns.viol = s.viol \/ PrintT("VIOL " \o ToString(s.c.t) \o " " \o ToString(l) \o " " \o ToString(ns.viol \ s.viol)))

IsPrefix(p, q) == Len(p) <= Len(q) /\ \A i \in 1..Len(p) : p[i] = q[i]
Match(K, p) == {k \in K : IsPrefix(p, c.bits[k + 1])}

Put ==
  /\ Is("Put")
  /\ LET ks == Range(Ev.keys) IN
     IF Ev.err = ""
     THEN Step([s EXCEPT
            !.stored = @ \cup ks,
            !.ackedDuring = IF Ev.during THEN @ \cup ks ELSE @,
            !.inflight = @ \ ks,
            \* a put concurrent with a reset may be ordered after the swap: it then sees the new contents
            !.viol = @ \cup Flag(Range(Ev.new) = ks \ s.stored
                                 \/ (Ev.during /\ Range(Ev.new) = ks \ (s.newSet \cup s.ackedDuring)),
                                 "a_put_result_not_exactly_the_new_keys")
                       \cup Flag(Ev.nnew = Cardinality(Range(Ev.new)), "a_put_result_has_duplicates")])
     ELSE \* refused (closed / cancelled): it may or may not have been applied
          Step([s EXCEPT !.viol = @ \cup Flag(Ev.during \/ s.interrupted, "a_put_failed")])

PutStart == Is("PutStart") /\ Step([s EXCEPT !.inflight = @ \cup Range(Ev.keys)])

Get ==
  /\ Is("Get")
  /\ Step([s EXCEPT !.viol = @ \cup Flag(Ev.err = "" /\ Range(Ev.ret) = Match(s.stored, Ev.prefix), "b_get_not_exactly_the_matching_keys")
                                \cup Flag(Ev.nret = Cardinality(Range(Ev.ret)), "b_get_has_duplicates")])
Count ==
  /\ Is("Count")
  /\ LET m == Cardinality(Match(s.stored, Ev.prefix)) IN
     Step([s EXCEPT !.viol = @ \cup Flag(Ev.err = "" /\ Ev.n = (IF Ev.limit > 0 THEN Min(m, Ev.limit) ELSE m), "b_count_wrong")])
Contains ==
  /\ Is("Contains")
  /\ Step([s EXCEPT !.viol = @ \cup Flag(Ev.err = "" /\ (Ev.found <=> Match(s.stored, Ev.prefix) # {}), "b_contains_prefix_wrong")])
Delete == Is("Delete") /\ Step([s EXCEPT !.stored = IF Ev.err = "" THEN @ \ Range(Ev.keys) ELSE @,
                                          !.viol = @ \cup Flag(Ev.err = "", "x_delete_failed")])
Empty == Is("Empty") /\ Step([s EXCEPT !.stored = IF Ev.err = "" THEN {} ELSE @,
                                        !.viol = @ \cup Flag(Ev.err = "", "x_empty_failed")])
Size == Is("Size") /\ Step([s EXCEPT !.viol = @ \cup Flag(Ev.err = "" /\ Ev.n = Cardinality(s.stored), "c_size_not_number_of_stored_keys")])

ResetStart == Is("ResetStart") /\ Step([s EXCEPT !.inReset = TRUE, !.interrupted = FALSE, !.newSet = Range(Ev.new),
                                                  !.ackedDuring = {}, !.inflight = {}])
Cancel == Is("Cancel") /\ Step(s)
CloseStart == Is("CloseStart") /\ Step([s EXCEPT !.interrupted = TRUE])
Crash == Is("Crash") /\ Step([s EXCEPT !.interrupted = TRUE])
\* a completed reset replaces the contents by the supplied keys plus every key acknowledged
\* meanwhile; a failed one leaves the previous contents (with the acknowledged puts)
ResetEnd ==
  /\ Is("ResetEnd")
  /\ Step([s EXCEPT !.cancelled = Ev.cancelled, !.resetErr = Ev.err])   \* judged at the observation / reopen that follows

\* right after the reset returned: the new set (with the concurrent puts) if it succeeded, the
\* previous set (with the acknowledged puts) if it failed; when the caller cancelled, a late
\* cancellation may or may not have let the swap happen - either complete set is fine
Observe ==
  /\ Is("Observe")
  /\ LET S == Range(Ev.content)
         A == s.stored
         B == s.newSet \cup s.ackedDuring
     IN Step([s EXCEPT
          !.stored = S, !.inReset = FALSE, !.inflight = {},
          !.viol = @
            \cup Flag(~Ev.err, "x_keystore_unreadable_after_reset")
            \cup Flag(Ev.ndup = Cardinality(S), "b_get_has_duplicates")
            \cup Flag(Ev.size = Cardinality(S), "c_size_after_reset_not_number_of_keys")
            \cup Flag(IF s.cancelled THEN S = A \/ S = B
                      ELSE IF s.resetErr = "" THEN S = B ELSE S = A, "d_reset_result_not_a_complete_set")])

\* after an interrupted reset: the complete previous set or the complete new set, each
\* with the acknowledged concurrent puts; an unacknowledged put may or may not be there
AllowedAfterInterrupt(S) ==
  \E X \in SUBSET s.inflight : S = s.stored \cup X \/ S = (s.newSet \cup s.ackedDuring) \cup X
Reopen ==
  /\ Is("Reopen")
  /\ LET S == Range(Ev.content) IN
     Step([s EXCEPT
       !.stored = S, !.inReset = FALSE, !.interrupted = FALSE, !.inflight = {},
       !.viol = @
         \cup Flag(~Ev.err, "x_reopened_keystore_unreadable")
         \cup Flag(Ev.ndup = Cardinality(S), "b_get_has_duplicates")
         \cup Flag(Ev.size = Cardinality(S), "c_size_after_reopen_not_number_of_keys")
         \cup (IF s.inReset /\ s.interrupted
               THEN Flag(AllowedAfterInterrupt(S), "d_reset_not_atomic")
               ELSE Flag(S = s.stored, IF Ev.kind = "crash" THEN "c_contents_lost_or_changed_by_crash" ELSE "c_contents_changed_by_restart"))])

Bad(id) == Step([s EXCEPT !.viol = @ \cup {<<"C20", id>>}])
Hang == Is("Hang") /\ Bad("d_reset_hangs")
Stuck == Is("Stuck") /\ Bad("d_keystore_goroutines_blocked_forever")
Left == Is("Left") /\ Bad("d_keystore_goroutines_left_after_close")
OpenFailed == Is("OpenFailed") /\ Bad("x_reopen_failed")
End == Is("End") /\ Step(s)

Next == Put \/ PutStart \/ Get \/ Count \/ Contains \/ Delete \/ Empty \/ Size \/ ResetStart \/ Cancel
        \/ CloseStart \/ Crash \/ ResetEnd \/ Observe \/ Reopen \/ Hang \/ Stuck \/ Left \/ OpenFailed \/ End
TraceSpec == Init /\ [][Next]_vars
TraceAccepted == TLCGet("distinct") = NLines
InvC20 == s.viol = {}
=============================================================================
