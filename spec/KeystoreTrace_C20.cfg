SPECIFICATION TraceSpec
INVARIANT InvC20
POSTCONDITION TraceAccepted
CHECK_DEADLOCK FALSE
