SPECIFICATION Spec
CONSTANTS
  Old = {"a"}
  New = {"b", "c"}
  Extra = {"d"}
  SyncBeforeFlip = TRUE
  DrainAtCleanup = FALSE
  TeardownAfterMarker = TRUE
INVARIANTS ResetAtomic CompletedExact CancelledKeepsOld
CHECK_DEADLOCK FALSE
