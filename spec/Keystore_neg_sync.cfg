SPECIFICATION Spec
CONSTANTS
  Old = {"a"}
  New = {"b", "c"}
  Extra = {"d"}
  SyncBeforeFlip = FALSE
  DrainAtCleanup = TRUE
  TeardownAfterMarker = TRUE
INVARIANTS ResetAtomic CompletedExact CancelledKeepsOld
CHECK_DEADLOCK FALSE
