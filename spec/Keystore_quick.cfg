SPECIFICATION Spec
CONSTANTS
  Old = {"a"}
  New = {"b", "c"}
  Extra = {"d"}
  SyncBeforeFlip = TRUE
  DrainAtCleanup = TRUE
  TeardownAfterMarker = TRUE
INVARIANTS ResetAtomic CompletedExact CancelledKeepsOld
CHECK_DEADLOCK FALSE
