SPECIFICATION Spec
CONSTANTS
  Old = {"a"}
  New = {"b", "c"}
  Extra = {"d", "e", "b"}
  SyncBeforeFlip = TRUE
  DrainAtCleanup = TRUE
  TeardownAfterMarker = TRUE
INVARIANTS ResetAtomic CompletedExact CancelledKeepsOld
CHECK_DEADLOCK FALSE
