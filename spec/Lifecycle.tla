----------------------------- MODULE Lifecycle -----------------------------
(***************************************************************************)
(* Shutdown protocol shared by the components (dht.go Close, the record    *)
(* stores, the refresh manager, the keystores, the sweeping provider):     *)
(*   Close = signal (cancel the context / close the done channel); wait    *)
(*           for every background goroutine; close what the instance owns; *)
(*           return.  A second Close returns as well.                      *)
(*   A background goroutine loops over work and leaves when signalled.     *)
(*   An operation in flight waits for its environment or for the signal,   *)
(*   then finishes or fails.                                               *)
(* Every interleaving of operations, background work and one or two Close  *)
(* calls is explored.                                                      *)
(***************************************************************************)
EXTENDS Integers, FiniteSets, TLC

CONSTANTS Workers, Ops, Closers,
          BugCloseDoesNotWait,     \* Close returns before the goroutines have left
          BugWorkerIgnoresSignal,  \* a background goroutine only looks for work
          BugSecondCloseBlocks     \* the second Close waits for something the first one consumed

VARIABLES signalled, wpc, opc, cpc, owned, firstDone
vars == <<signalled, wpc, opc, cpc, owned, firstDone>>

Init == /\ signalled = FALSE
        /\ wpc = [w \in Workers |-> "idle"]        \* "idle" | "working" | "gone"
        /\ opc = [o \in Ops |-> "new"]             \* "new" | "waiting" | "done"
        /\ cpc = [c \in Closers |-> "new"]         \* "new" | "waiting" | "closing" | "returned"
        /\ owned = "open" /\ firstDone = FALSE

\* background goroutine
Work(w) == /\ wpc[w] = "idle" /\ (~signalled \/ BugWorkerIgnoresSignal) /\ wpc' = [wpc EXCEPT ![w] = "working"]
           /\ UNCHANGED <<signalled, opc, cpc, owned, firstDone>>
WorkDone(w) == /\ wpc[w] = "working" /\ wpc' = [wpc EXCEPT ![w] = "idle"]
               /\ UNCHANGED <<signalled, opc, cpc, owned, firstDone>>
Leave(w) == /\ wpc[w] = "idle" /\ signalled /\ ~BugWorkerIgnoresSignal /\ wpc' = [wpc EXCEPT ![w] = "gone"]
            /\ UNCHANGED <<signalled, opc, cpc, owned, firstDone>>

\* operation
OpStart(o) == /\ opc[o] = "new" /\ opc' = [opc EXCEPT ![o] = "waiting"]
              /\ UNCHANGED <<signalled, wpc, cpc, owned, firstDone>>
\* the environment answers, or the instance is shutting down: either way the operation ends
OpEnd(o) == /\ opc[o] = "waiting" /\ opc' = [opc EXCEPT ![o] = "done"]
            /\ UNCHANGED <<signalled, wpc, cpc, owned, firstDone>>

\* Close
CloseSignal(c) == /\ cpc[c] = "new" /\ signalled' = TRUE /\ cpc' = [cpc EXCEPT ![c] = "waiting"]
                  /\ UNCHANGED <<wpc, opc, owned, firstDone>>
CloseWait(c) == /\ cpc[c] = "waiting"
                /\ BugCloseDoesNotWait \/ \A w \in Workers : wpc[w] = "gone"
                /\ (BugSecondCloseBlocks /\ firstDone) => FALSE
                /\ cpc' = [cpc EXCEPT ![c] = "closing"]
                /\ UNCHANGED <<signalled, wpc, opc, owned, firstDone>>
CloseOwned(c) == /\ cpc[c] = "closing" /\ owned' = "closed" /\ firstDone' = TRUE
                 /\ cpc' = [cpc EXCEPT ![c] = "returned"]
                 /\ UNCHANGED <<signalled, wpc, opc>>

Next == \/ \E w \in Workers : Work(w) \/ WorkDone(w) \/ Leave(w)
        \/ \E o \in Ops : OpStart(o) \/ OpEnd(o)
        \/ \E c \in Closers : CloseSignal(c) \/ CloseWait(c) \/ CloseOwned(c)
Fair == /\ \A w \in Workers : WF_vars(WorkDone(w)) /\ WF_vars(Leave(w))
        /\ \A o \in Ops : WF_vars(OpEnd(o))
        /\ \A c \in Closers : WF_vars(CloseSignal(c)) /\ WF_vars(CloseWait(c)) /\ WF_vars(CloseOwned(c))
Spec == Init /\ [][Next]_vars /\ Fair

\* Close returns only after every goroutine the instance started has left
NothingRunsAfterClose == \A c \in Closers : cpc[c] = "returned" => \A w \in Workers : wpc[w] = "gone"
\* every Close call returns, every operation in flight ends
EveryCloseReturns == \A c \in Closers : <>(cpc[c] = "returned")
EveryOperationEnds == \A o \in Ops : [](opc[o] = "waiting" => <>(opc[o] = "done"))
=============================================================================
