--------------------------- MODULE LifecycleTrace ---------------------------
(***************************************************************************)
(* Trace specification for shutdown and failed construction (C14).  Events *)
(* come from harness/drivers/lifecycle_test.go: construction (error, panic,*)
(* goroutines left behind if it failed), operations started and ended,     *)
(* Close calls started and ended, and the census at the end: after every   *)
(* Close call and every operation has ended, the goroutines of the bubble  *)
(* that were not there before the instance was built.  The abstract state  *)
(* is that of Lifecycle.tla: which operations and Close calls are running. *)
(***************************************************************************)
EXTENDS Integers, Sequences, FiniteSets, TLC, Json, IOUtils

Trace == ndJsonDeserialize(IOEnv.VERIF_TRACE)
NLines == Len(Trace)
VARIABLES l, s
vars == <<l, s>>
Range(f) == {f[i] : i \in DOMAIN f}
Ev == Trace[l]
Is(e) == l <= NLines /\ Ev.e = e
Flag(b, id) == IF b THEN {} ELSE {<<"C14", id>>}
ResetLines == {i \in 1..NLines : Trace[i].e = "Reset"}
Init == \E i \in ResetLines : l = i + 1 /\ s = [c |-> Trace[i], ops |-> {}, everOp |-> FALSE, closes |-> {}, closed |-> 0, viol |-> {}]
Step(ns) == /\ s' = ns /\ l' = l + 1
            /\ (ns.viol = s.viol \/ PrintT("VIOL " \o ToString(s.c.t) \o " " \o ToString(l) \o " " \o ToString(ns.viol \ s.viol)))

Construct ==
  /\ Is("Construct")
  /\ Step([s EXCEPT !.viol = @
       \cup Flag(Ev.panic = "", "d_constructor_panicked")
       \cup Flag(Ev.failwanted <=> Ev.err # "", "x_constructor_outcome_not_as_provoked")
       \* a constructor that returns an error leaves nothing running
       \cup Flag(Ev.err # "" => Len(Ev.left) = 0, "d_failed_constructor_left_goroutines")
       \cup Flag(Ev.err # "" => Ev.subsleft = 0, "d_failed_constructor_left_a_subscription")])

OpStart == Is("OpStart") /\ Step([s EXCEPT !.ops = @ \cup {Ev.op}, !.everOp = TRUE])
OpEnd == /\ Is("OpEnd")
         /\ Step([s EXCEPT !.ops = @ \ {Ev.op},
                           !.viol = @ \cup Flag(Ev.panic = "", "c_operation_panicked_during_shutdown")])
CloseStart == Is("CloseStart") /\ Step([s EXCEPT !.closes = @ \cup {Ev.j}])
CloseEnd == /\ Is("CloseEnd")
            /\ Step([s EXCEPT !.closes = @ \ {Ev.j}, !.closed = @ + 1,
                              !.viol = @ \cup Flag(Ev.panic = "", "b_close_panicked")
                                         \* as long as no operation has been started (goroutines of an operation
                                         \* that has just ended may still be winding down), whatever is blocked at
                                         \* the moment Close returns was started by the instance and not waited for
                                         \cup Flag(~s.everOp => Len(Ev.left) = 0, "a_close_returned_before_its_goroutines_had_left")])

\* everything has been given the time and the answers it needs: all Close calls and operations are over,
\* and nothing the instance started is still there
Quiesce ==
  /\ Is("Quiesce")
  /\ Step([s EXCEPT !.viol = @
       \cup Flag(s.closes = {} /\ \A x \in Range(Ev.pending) : SubSeq(x, 1, 2) = "op", "a_close_did_not_return")
       \cup Flag(s.ops = {} /\ \A x \in Range(Ev.pending) : SubSeq(x, 1, 2) # "op", "c_operation_blocked_for_ever_by_shutdown")
       \cup Flag(s.closed >= s.c.ncloses, "b_repeated_close_did_not_return")
       \* a keystore's datastore belongs to its owner, who may close it once Close has returned: a repeated Close
       \* does not go back to it
       \cup Flag("dsafterclose" \in DOMAIN Ev => Ev.dsafterclose = 0, "b_repeated_close_went_back_to_the_datastore")
       \cup Flag(Len(Ev.left) = 0, "a_goroutines_left_after_close")
       \cup Flag((s.closes = {} /\ Len(Ev.pending) = 0) => Ev.subsleft = 0, "a_subscription_left_after_close")])

Other == Is("End") /\ Step(s)
Stuck == Is("Stuck") /\ Step([s EXCEPT !.viol = @ \cup {<<"C14", "a_shutdown_wedged_or_crashed">>}])
Next == Construct \/ OpStart \/ OpEnd \/ CloseStart \/ CloseEnd \/ Quiesce \/ Other \/ Stuck
TraceSpec == Init /\ [][Next]_vars
TraceAccepted == TLCGet("distinct") = NLines
InvC14 == s.viol = {}
=============================================================================
