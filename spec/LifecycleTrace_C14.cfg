SPECIFICATION TraceSpec
INVARIANT InvC14
POSTCONDITION TraceAccepted
CHECK_DEADLOCK FALSE
