SPECIFICATION Spec
CONSTANTS
  Workers = {1, 2}
  Ops = {1, 2}
  Closers = {1, 2}
  BugCloseDoesNotWait = TRUE
  BugWorkerIgnoresSignal = FALSE
  BugSecondCloseBlocks = FALSE
INVARIANT NothingRunsAfterClose
PROPERTIES EveryCloseReturns EveryOperationEnds
CHECK_DEADLOCK FALSE
