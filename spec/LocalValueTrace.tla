-------------------------- MODULE LocalValueTrace --------------------------
(***************************************************************************)
(* C04, local records: a value lookup never yields a locally stored record *)
(* that the validator rejects at the time of the lookup (a record past its *)
(* end of life).  Events come from harness/drivers/localvalue_test.go.     *)
(***************************************************************************)
EXTENDS Integers, Sequences, FiniteSets, TLC, Json, IOUtils

Trace == ndJsonDeserialize(IOEnv.VERIF_TRACE)
NLines == Len(Trace)
VARIABLES l, s
vars == <<l, s>>
Range(f) == {f[i] : i \in DOMAIN f}
Ev == Trace[l]
Is(e) == l <= NLines /\ Ev.e = e
Flag(b, id) == IF b THEN {} ELSE {<<"C04", id>>}
ResetLines == {i \in 1..NLines : Trace[i].e = "Reset"}
Init == \E i \in ResetLines : l = i + 1 /\ s = [c |-> Trace[i], viol |-> {}]
Step(ns) == /\ s' = ns /\ l' = l + 1
            /\ (ns.viol = s.viol \/ PrintT("VIOL " \o ToString(s.c.t) \o " " \o ToString(l) \o " " \o ToString(ns.viol \ s.viol)))

Lookup ==
  /\ Is("LocalLookup")
  /\ Step([s EXCEPT !.viol = @
       \cup Flag(~Ev.validnow => Len(Ev.emitted) = 0, "a_local_record_rejected_by_the_validator_yielded")
       \cup Flag(Range(Ev.emitted) \subseteq {Ev.value}, "a_value_from_nowhere")
       \* a still valid local record is found (there is nobody else to ask)
       \cup Flag(Ev.validnow => (Ev.err = "" /\ Range(Ev.emitted) = {Ev.value}), "c_valid_local_record_not_found")])
Other == Is("End") /\ Step(s)
Next == Lookup \/ Other
TraceSpec == Init /\ [][Next]_vars
TraceAccepted == TLCGet("distinct") = NLines
InvC04 == s.viol = {}
=============================================================================
