SPECIFICATION TraceSpec
INVARIANT InvC04
POSTCONDITION TraceAccepted
CHECK_DEADLOCK FALSE
