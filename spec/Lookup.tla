------------------------------- MODULE Lookup -------------------------------
(***************************************************************************)
(* Implementation-shaped model of one Kademlia lookup of go-libp2p-kad-dht *)
(* (query.go: runLookupWithFollowup / runQuery / query.run / queryPeer /   *)
(* updateState / isReadyToTerminate / constructLookupResult).              *)
(*                                                                         *)
(* Peers are identified by their distance rank to the key: 1 is nearest.   *)
(* One action per critical section of the code:                            *)
(*   StepUpdate   one iteration of query.run that consumes an update       *)
(*   StepCancel   one iteration of query.run that sees the cancelled ctx   *)
(*   NetComplete  a queryPeer goroutine finishing (dial failure, request   *)
(*                failure or an answer) and posting to the update channel  *)
(*   EndSearch    waitGroup.Wait() + constructLookupResult                 *)
(*   FollowStart / FollowDone / FollowEnd   the follow-up phase            *)
(* The network is nondeterministic: any peer may fail, answer with any set *)
(* of peers (including filter-rejected ones and more than 2K of them).     *)
(***************************************************************************)
EXTENDS Integers, FiniteSets, TLC

CONSTANTS N,        \* number of peers
          K,        \* bucket size
          Alpha,    \* concurrency
          Beta,     \* resiliency
          MaxAns,   \* largest answer the model network gives
          Reject,   \* peers rejected by the query filter
          AllowCancel,
          \* deliberately broken variants used as negative controls
          BugResultIncludesUnreachable, BugNoBeta, BugSpawnAll

Peer == 1..N
VARIABLES st, chan, inflight, term, cancelled, phase, failed, asked, learned,
          result, completed, fq, fdone, maybe
vars == <<st, chan, inflight, term, cancelled, phase, failed, asked, learned,
          result, completed, fq, fdone, maybe>>

InState(S) == {p \in Peer : st[p] \in S}
Nearest(S, n) == {p \in S : Cardinality({q \in S : q < p}) < n}
NotUnreach == InState({"heard", "waiting", "queried"})
LookupTermination == \A p \in Nearest(NotUnreach, Beta) : st[p] = "queried"
Starvation == InState({"heard"}) = {} /\ InState({"waiting"}) = {}

\* dht.routingTable.NearestPeers(key, K): any non-empty set of at most K peers
Init == /\ \E S \in SUBSET Peer : S # {} /\ Cardinality(S) <= K
             /\ chan = {[p |-> 0, ok |-> TRUE, heard |-> S]}
        /\ learned = {} /\ st = [p \in Peer |-> "none"]
        /\ inflight = {} /\ term = "no" /\ cancelled = FALSE /\ phase = "search"
        /\ failed = {} /\ asked = {} /\ result = {} /\ completed = FALSE
        /\ fq = {} /\ fdone = {} /\ maybe = {}

Apply(u) == [p \in Peer |->
               IF p = u.p THEN (IF u.ok THEN "queried" ELSE "unreachable")
               ELSE IF p \in u.heard /\ st[p] = "none" THEN "heard" ELSE st[p]]

StepUpdate(u) ==
  /\ phase = "search" /\ term = "no" /\ u \in chan
  /\ (IF u.p = 0 THEN TRUE ELSE st[u.p] = "waiting")      \* otherwise updateState panics
  /\ chan' = chan \ {u}
  /\ LET s1 == Apply(u)
         heard1 == {p \in Peer : s1[p] = "heard"}
         wait1  == {p \in Peer : s1[p] = "waiting"}
         nu1    == {p \in Peer : s1[p] \in {"heard", "waiting", "queried"}}
         starv  == heard1 = {} /\ wait1 = {}
         lterm  == IF BugNoBeta THEN \A p \in Nearest(nu1, 1) : s1[p] = "queried"
                   ELSE \A p \in Nearest(nu1, Beta) : s1[p] = "queried"
         spawn  == IF BugSpawnAll THEN heard1 ELSE Nearest(heard1, Alpha - Cardinality(wait1))
     IN IF starv THEN /\ st' = s1 /\ term' = "starvation" /\ UNCHANGED <<inflight, asked>>
        ELSE IF lterm THEN /\ st' = s1 /\ term' = "completed" /\ UNCHANGED <<inflight, asked>>
        ELSE /\ st' = [p \in Peer |-> IF p \in spawn THEN "waiting" ELSE s1[p]]
             /\ inflight' = inflight \cup spawn /\ asked' = asked \cup spawn /\ term' = "no"
  /\ learned' = learned \cup u.heard
  \* When this update ends the search, failures still sitting unprocessed in the update channel are never
  \* applied (the run loop stops reading): like at a cancellation they move from `failed` to `maybe`.
  /\ LET lost == IF term' = "no" THEN {} ELSE {v.p : v \in {w \in chan' : ~w.ok}} IN
       /\ failed' = failed \ lost /\ maybe' = maybe \cup (failed \cap lost)
  /\ UNCHANGED <<cancelled, phase, result, completed, fq, fdone>>

\* The run loop sees the cancelled context.  Failures still sitting unprocessed
\* in the update channel are lost to the race between the cancellation and the
\* update (select picks either); they move from `failed` to `maybe`.
StepCancel == /\ phase = "search" /\ term = "no" /\ cancelled /\ term' = "cancelled"
              /\ LET lost == {u.p : u \in {v \in chan : ~v.ok}} IN
                   /\ failed' = failed \ lost /\ maybe' = maybe \cup (failed \cap lost)
              /\ UNCHANGED <<st, chan, inflight, cancelled, phase, asked, learned, result, completed, fq, fdone>>

Cancel == /\ AllowCancel /\ ~cancelled /\ phase # "done" /\ cancelled' = TRUE
          /\ UNCHANGED <<st, chan, inflight, term, phase, failed, asked, learned, result, completed, fq, fdone, maybe>>

\* what enters the lookup from an answer naming S: never more than 2K peers,
\* only peers passing the query filter
Enter(S) == IF Cardinality(S) <= 2 * K THEN {S \ Reject}
            ELSE {T \ Reject : T \in {T \in SUBSET S : Cardinality(T) = 2 * K}}

NetComplete(p) ==
  /\ p \in inflight /\ Cardinality(chan) < Alpha
  /\ inflight' = inflight \ {p}
  /\ \/ /\ \E S \in SUBSET (Peer \ {p}) : Cardinality(S) <= MaxAns
                 /\ \E H \in Enter(S) : chan' = chan \cup {[p |-> p, ok |-> TRUE, heard |-> H]}
        /\ failed' = failed /\ maybe' = maybe
     \/ /\ chan' = chan \cup {[p |-> p, ok |-> FALSE, heard |-> {}]}
        /\ maybe' = IF term = "no" /\ cancelled THEN maybe \cup {p} ELSE maybe
        \* a failure counts once it is delivered while the search is running and the
        \* caller has not cancelled (after a cancellation the run loop may or may not
        \* consume further updates; the property does not constrain that race)
        /\ failed' = IF term = "no" /\ ~cancelled THEN failed \cup {p} ELSE failed
  /\ UNCHANGED <<st, term, cancelled, phase, asked, learned, result, completed, fq, fdone>>

EndSearch ==
  /\ phase = "search" /\ term # "no" /\ inflight = {}      \* waitGroup.Wait
  /\ result' = IF BugResultIncludesUnreachable
               THEN Nearest(InState({"heard", "waiting", "queried", "unreachable"}), K)
               ELSE Nearest(NotUnreach, K)
  /\ completed' = (LookupTermination \/ Starvation)
  /\ phase' = "followup"
  /\ UNCHANGED <<st, chan, inflight, term, cancelled, failed, asked, learned, fq, fdone, maybe>>

\* follow-up: ask every result peer still heard/waiting, unless externally stopped
FollowStart ==
  /\ phase = "followup" /\ fq = {} /\ fdone = {}
  /\ LET todo == {p \in result : st[p] \in {"heard", "waiting"}} IN
     IF todo = {} THEN phase' = "done" /\ UNCHANGED <<fq, asked, completed>>
     ELSE IF cancelled THEN phase' = "done" /\ completed' = FALSE /\ UNCHANGED <<fq, asked>>
     ELSE fq' = todo /\ asked' = asked \cup todo /\ UNCHANGED <<phase, completed>>
  /\ UNCHANGED <<st, chan, inflight, term, cancelled, failed, learned, result, fdone, maybe>>

FollowDone(p) ==
  /\ phase = "followup" /\ p \in fq \ fdone
  /\ fdone' = fdone \cup {p}
  /\ UNCHANGED <<st, chan, inflight, term, cancelled, phase, failed, asked, learned, result, completed, fq, maybe>>

FollowEnd ==
  /\ phase = "followup" /\ fq # {} /\ fdone = fq
  /\ phase' = "done"
  /\ completed' = (completed /\ ~cancelled)
  /\ UNCHANGED <<st, chan, inflight, term, cancelled, failed, asked, learned, result, fq, fdone, maybe>>

Done == phase = "done" /\ UNCHANGED vars
Next == Done \/ (\E u \in chan : StepUpdate(u)) \/ StepCancel \/ Cancel
             \/ (\E p \in Peer : NetComplete(p)) \/ EndSearch
             \/ FollowStart \/ (\E p \in Peer : FollowDone(p)) \/ FollowEnd
Spec == Init /\ [][Next]_vars
Fair == /\ WF_vars(\E u \in chan : StepUpdate(u)) /\ WF_vars(EndSearch)
        /\ WF_vars(\E p \in Peer : NetComplete(p)) /\ WF_vars(StepCancel)
        /\ WF_vars(FollowStart) /\ WF_vars(\E p \in Peer : FollowDone(p)) /\ WF_vars(FollowEnd)
FairSpec == Spec /\ Fair

---------------------------------------------------------------------------
TypeOK == /\ st \in [Peer -> {"none", "heard", "waiting", "queried", "unreachable"}]
          /\ term \in {"no", "starvation", "completed", "cancelled"}
          /\ phase \in {"search", "followup", "done"}
\* #waiting <= alpha is what makes every post to the update channel non-blocking
WaitingBound == Cardinality(InState({"waiting"})) <= Alpha
ChanBound    == Cardinality(chan) <= Alpha
\* updateState never sees an update for a peer that is not waiting
NoPanic      == \A u \in chan : IF u.p = 0 THEN TRUE ELSE (st[u.p] = "waiting" \/ term # "no")
Returned == phase \in {"followup", "done"}
\* C01 (a)(c)(d)(e)
ResultBounded == Returned => Cardinality(result) <= K
ResultLearned == Returned => result \subseteq learned
ResultNoFailed == Returned => result \cap failed = {}
ResultExact == Returned => \E X \in SUBSET maybe : result = Nearest((learned \ failed) \ X, K)
\* C02 (c)(d)
CompletedMeans == (Returned /\ term \in {"completed", "starvation"}) =>
   (Starvation \/ \A p \in Nearest(NotUnreach, Beta) : st[p] = "queried")
ReturnedWereAsked == (phase = "done" /\ completed) => result \subseteq asked
\* a rejected peer enters only through the seeds (the routing table is not filtered)
RejectedNeverEnter == \A u \in chan : u.p # 0 => u.heard \cap Reject = {}
LegalTransitions == [][\A p \in Peer :
     st'[p] # st[p] => \/ st[p] = "none" /\ st'[p] \in {"heard", "waiting"}
                       \/ st[p] = "heard" /\ st'[p] = "waiting"
                       \/ st[p] = "waiting" /\ st'[p] \in {"queried", "unreachable"}]_vars
NoUpdateAfterTerminate == [][term # "no" => st' = st]_vars
Termination == <>(phase = "done")
=============================================================================
