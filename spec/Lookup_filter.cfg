SPECIFICATION Spec
CONSTANTS
  N = 5
  K = 1
  Alpha = 2
  Beta = 1
  MaxAns = 4
  Reject = {2, 4}
  AllowCancel = TRUE
  BugResultIncludesUnreachable = FALSE
  BugNoBeta = FALSE
  BugSpawnAll = FALSE
INVARIANTS TypeOK WaitingBound ChanBound NoPanic ResultBounded ResultLearned ResultNoFailed ResultExact CompletedMeans ReturnedWereAsked RejectedNeverEnter
PROPERTIES LegalTransitions NoUpdateAfterTerminate
CHECK_DEADLOCK TRUE
