SPECIFICATION Spec
CONSTANTS
  N = 4
  K = 2
  Alpha = 2
  Beta = 2
  MaxAns = 3
  Reject = {}
  AllowCancel = TRUE
  BugResultIncludesUnreachable = FALSE
  BugNoBeta = FALSE
  BugSpawnAll = TRUE
INVARIANTS TypeOK WaitingBound ChanBound NoPanic ResultBounded ResultLearned ResultNoFailed ResultExact CompletedMeans ReturnedWereAsked RejectedNeverEnter
CHECK_DEADLOCK TRUE
