SPECIFICATION Spec
CONSTANTS
  N = 4
  K = 2
  Alpha = 2
  Beta = 2
  MaxAns = 3
  Reject = {}
  AllowCancel = TRUE
  BugResultIncludesUnreachable = TRUE
  BugNoBeta = FALSE
  BugSpawnAll = FALSE
INVARIANTS TypeOK WaitingBound ChanBound NoPanic ResultBounded ResultLearned ResultNoFailed ResultExact CompletedMeans ReturnedWereAsked RejectedNeverEnter
CHECK_DEADLOCK TRUE
