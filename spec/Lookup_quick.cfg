SPECIFICATION FairSpec
CONSTANTS
  N = 5
  K = 2
  Alpha = 2
  Beta = 2
  MaxAns = 3
  Reject = {}
  AllowCancel = TRUE
  BugResultIncludesUnreachable = FALSE
  BugNoBeta = FALSE
  BugSpawnAll = FALSE
INVARIANTS TypeOK WaitingBound ChanBound NoPanic ResultBounded ResultLearned ResultNoFailed ResultExact CompletedMeans ReturnedWereAsked RejectedNeverEnter
PROPERTIES Termination LegalTransitions NoUpdateAfterTerminate
CHECK_DEADLOCK TRUE
