SPECIFICATION Spec
CONSTANTS
  N = 6
  K = 3
  Alpha = 3
  Beta = 2
  MaxAns = 3
  Reject = {}
  AllowCancel = TRUE
  BugResultIncludesUnreachable = FALSE
  BugNoBeta = FALSE
  BugSpawnAll = FALSE
INVARIANTS TypeOK WaitingBound ChanBound NoPanic ResultBounded ResultLearned ResultNoFailed ResultExact CompletedMeans ReturnedWereAsked RejectedNeverEnter
PROPERTIES LegalTransitions NoUpdateAfterTerminate
CHECK_DEADLOCK TRUE
