---- MODULE MC_ValueStore_corrupt ----
EXTENDS ValueStore
MCStripe == [k1 |-> 1, k2 |-> 1]
MCWriters == [w1 |-> [k |-> "k1", rank |-> 1], w2 |-> [k |-> "k1", rank |-> 0]]
MCReaders == [r1 |-> "k1", r2 |-> "k1"]
====
