---- MODULE MC_ValueStore_neg_nocompare ----
EXTENDS ValueStore
MCStripe == [k1 |-> 1, k2 |-> 1]
MCWriters == [w1 |-> [k |-> "k1", rank |-> 1]]
MCReaders == [r1 |-> "k1"]
====
