---- MODULE MC_ValueStore_neg_nolock ----
EXTENDS ValueStore
MCStripe == [k1 |-> 1, k2 |-> 1]
MCWriters == [w1 |-> [k |-> "k1", rank |-> 1], w2 |-> [k |-> "k1", rank |-> 0], w3 |-> [k |-> "k2", rank |-> 1]]
MCReaders == [r1 |-> "k1"]
====
