SPECIFICATION Spec
CONSTANTS
  Keys = {"k1", "k2"}
  Stripe <- MCStripe
  Writers <- MCWriters
  Readers <- MCReaders
  MaxAge = 1
  MaxT = 2
  InitCorrupt = {}
  UseLock = TRUE
  CompareBeforeDelete = TRUE
  SelectSwapped = FALSE
INVARIANTS NoDowngrade FreshNeverDeleted StoredAlwaysValid AckedReadable LockDiscipline
CHECK_DEADLOCK FALSE
