---- MODULE MC_ValueStore_thorough ----
EXTENDS ValueStore
MCStripe == [k1 |-> 1, k2 |-> 2]
MCWriters == [w1 |-> [k |-> "k1", rank |-> 2], w2 |-> [k |-> "k1", rank |-> 0], w3 |-> [k |-> "k1", rank |-> 1], w4 |-> [k |-> "k2", rank |-> 1]]
MCReaders == [r1 |-> "k1", r2 |-> "k2"]
====
