------------------------------- MODULE Modes -------------------------------
(***************************************************************************)
(* Client/server mode of a DHT node (dht.go setMode / moveToServerMode /    *)
(* moveToClientMode, subscriber_notifee.go reachability events, dht_net.go  *)
(* per-message mode check).                                                 *)
(*                                                                          *)
(* The libp2p host delivers an inbound stream in three steps (handler       *)
(* lookup, protocol set on the stream, handler invoked); the handler loop   *)
(* is check-mode / read / handle / write; a switch to client mode is        *)
(* set-mode / remove handlers / snapshot inbound streams / reset each, all  *)
(* under the mode lock.  Reachability events are queued by the event bus    *)
(* and processed one at a time.  Every step is a separate action so that    *)
(* TLC explores all interleavings.                                          *)
(***************************************************************************)
EXTENDS Integers, Sequences, FiniteSets, TLC

CONSTANTS Streams,          \* stream ids
          MaxEvents,        \* reachability events per behaviour
          MaxReqs,          \* requests per stream
          BugNoReset,       \* switching to client mode leaves open inbound streams alone
          BugNoMsgCheck,    \* the handler does not re-check the mode before each message
          BugUnknownServer, \* plain auto mode treats unknown reachability as server
          BugFixedFollows   \* fixed modes follow reachability events too

Cfgs == {"auto", "autoserver", "client", "server"}
Reach == {"public", "private", "unknown"}

VARIABLES cfg, mode, handlers, queue, nev, last,
          sw,       \* the switch in progress: [pc, snap]
          st,       \* per stream: "none" | "refused" | "lookedup" | "open" | "reset" | "closed"
          hpc,      \* handler of the stream: "none" | "check" | "read" | "handle" | "done"
          inbox,    \* per stream: per request, the number of events emitted so far if it arrived at a node settled in client mode, else -1
          cur,      \* per stream: the flag of the request being handled
          nreq, lateAnswered
vars == <<cfg, mode, handlers, queue, nev, last, sw, st, hpc, inbox, cur, nreq, lateAnswered>>

Initial(c) == IF c \in {"auto", "client"} THEN "client" ELSE "server"
Target(c, r) == CASE r = "private" -> "client"
                  [] r = "public" -> "server"
                  [] OTHER -> IF c = "autoserver" \/ (BugUnknownServer /\ c = "auto") THEN "server" ELSE "client"
Subscribed(c) == c \in {"auto", "autoserver"} \/ BugFixedFollows
Settled == sw.pc = "idle" /\ queue = <<>>

Init == /\ cfg \in Cfgs /\ mode = Initial(cfg) /\ handlers = (Initial(cfg) = "server")
        /\ queue = <<>> /\ nev = 0 /\ last = "none"
        /\ sw = [pc |-> "idle", snap |-> {}]
        /\ st = [s \in Streams |-> "none"] /\ hpc = [s \in Streams |-> "none"]
        /\ inbox = [s \in Streams |-> <<>>] /\ cur = [s \in Streams |-> -1]
        /\ nreq = [s \in Streams |-> 0] /\ lateAnswered = FALSE

\* ---- reachability events -------------------------------------------------
Emit(r) == /\ nev < MaxEvents /\ nev' = nev + 1
           /\ IF Subscribed(cfg) THEN queue' = Append(queue, r) /\ last' = r ELSE UNCHANGED <<queue, last>>
           /\ UNCHANGED <<cfg, mode, handlers, sw, st, hpc, inbox, cur, nreq, lateAnswered>>

\* the subscriber takes the next event and calls setMode: lock, compare, set the mode variable
Take == /\ sw.pc = "idle" /\ queue # <<>>
        /\ queue' = Tail(queue)
        /\ LET t == Target(cfg, Head(queue)) IN
           IF t = mode THEN UNCHANGED <<mode, sw>>
           ELSE mode' = t /\ sw' = [pc |-> "modeset", snap |-> {}]
        /\ UNCHANGED <<cfg, handlers, nev, last, st, hpc, inbox, cur, nreq, lateAnswered>>

\* handlers registered (server) or removed (client)
SwHandlers == /\ sw.pc = "modeset"
              /\ handlers' = (mode = "server")
              /\ sw' = IF mode = "server" \/ BugNoReset THEN [pc |-> "idle", snap |-> {}]
                       ELSE [pc |-> "snapshot", snap |-> {}]
              /\ UNCHANGED <<cfg, mode, queue, nev, last, st, hpc, inbox, cur, nreq, lateAnswered>>

\* the inbound streams of the DHT protocol, as the connections list them now
SwSnapshot == /\ sw.pc = "snapshot"
              /\ sw' = [pc |-> "resetting", snap |-> {s \in Streams : st[s] = "open"}]
              /\ UNCHANGED <<cfg, mode, handlers, queue, nev, last, st, hpc, inbox, cur, nreq, lateAnswered>>

SwReset(s) == /\ sw.pc = "resetting" /\ s \in sw.snap
              /\ st' = [st EXCEPT ![s] = IF @ = "open" THEN "reset" ELSE @]
              /\ sw' = [sw EXCEPT !.snap = @ \ {s}]
              /\ UNCHANGED <<cfg, mode, handlers, queue, nev, last, hpc, inbox, cur, nreq, lateAnswered>>

SwDone == /\ sw.pc = "resetting" /\ sw.snap = {}
          /\ sw' = [pc |-> "idle", snap |-> {}]
          /\ UNCHANGED <<cfg, mode, handlers, queue, nev, last, st, hpc, inbox, cur, nreq, lateAnswered>>

\* ---- the host delivers an inbound stream ---------------------------------
Lookup(s) == /\ st[s] = "none"
             /\ st' = [st EXCEPT ![s] = IF handlers THEN "lookedup" ELSE "refused"]
             /\ UNCHANGED <<cfg, mode, handlers, queue, nev, last, sw, hpc, inbox, cur, nreq, lateAnswered>>

\* protocol set on the stream, handler goroutine started
Invoke(s) == /\ st[s] = "lookedup"
             /\ st' = [st EXCEPT ![s] = "open"] /\ hpc' = [hpc EXCEPT ![s] = "check"]
             /\ UNCHANGED <<cfg, mode, handlers, queue, nev, last, sw, inbox, cur, nreq, lateAnswered>>

\* the remote writes a request
Req(s) == /\ st[s] \in {"lookedup", "open"} /\ nreq[s] < MaxReqs
          /\ nreq' = [nreq EXCEPT ![s] = @ + 1]
          /\ inbox' = [inbox EXCEPT ![s] = Append(@, IF Settled /\ mode = "client" THEN nev ELSE -1)]
          /\ UNCHANGED <<cfg, mode, handlers, queue, nev, last, sw, st, hpc, cur, lateAnswered>>

\* ---- the handler loop ----------------------------------------------------
\* getMode takes the mode lock, which a switch holds from set-mode to its end
HCheck(s) == /\ hpc[s] = "check" /\ sw.pc = "idle"
             /\ IF mode = "server" \/ BugNoMsgCheck
                THEN hpc' = [hpc EXCEPT ![s] = "read"] /\ UNCHANGED st
                ELSE hpc' = [hpc EXCEPT ![s] = "done"] /\ st' = [st EXCEPT ![s] = "reset"]
             /\ UNCHANGED <<cfg, mode, handlers, queue, nev, last, sw, inbox, cur, nreq, lateAnswered>>

HRead(s) == /\ hpc[s] = "read"
            /\ \/ /\ st[s] = "open" /\ inbox[s] # <<>>
                  /\ cur' = [cur EXCEPT ![s] = Head(inbox[s])]
                  /\ inbox' = [inbox EXCEPT ![s] = Tail(@)]
                  /\ hpc' = [hpc EXCEPT ![s] = "handle"]
               \/ /\ st[s] = "reset"            \* the read fails on a reset stream
                  /\ hpc' = [hpc EXCEPT ![s] = "done"]
                  /\ UNCHANGED <<cur, inbox>>
            /\ UNCHANGED <<cfg, mode, handlers, queue, nev, last, sw, st, nreq, lateAnswered>>

\* the response is written (it is lost if the stream was reset meanwhile)
HWrite(s) == /\ hpc[s] = "handle"
             /\ IF st[s] = "open"
                THEN /\ lateAnswered' = (lateAnswered \/ (cur[s] # -1 /\ cur[s] = nev))
                     /\ hpc' = [hpc EXCEPT ![s] = "check"]
                ELSE /\ hpc' = [hpc EXCEPT ![s] = "done"] /\ UNCHANGED lateAnswered
             /\ UNCHANGED <<cfg, mode, handlers, queue, nev, last, sw, st, inbox, cur, nreq>>

Next == \/ \E r \in Reach : Emit(r)
        \/ Take \/ SwHandlers \/ SwSnapshot \/ SwDone
        \/ \E s \in Streams : SwReset(s) \/ Lookup(s) \/ Invoke(s) \/ Req(s) \/ HCheck(s) \/ HRead(s) \/ HWrite(s)

Spec == Init /\ [][Next]_vars

\* ---- properties ----------------------------------------------------------
\* a request that arrives at a node settled in client mode is not answered (unless reachability changes meanwhile)
NoAnswerInClientMode == ~lateAnswered
\* once settled in client mode no inbound stream is still being served
ClientModeStreamsReset == (Settled /\ mode = "client") => \A s \in Streams : ~(st[s] = "open" /\ hpc[s] \in {"read", "handle"})
\* no new stream is accepted by a node settled in client mode; one settled in server mode accepts
HandlersFollowMode == Settled => (handlers <=> mode = "server")
\* the mode after any event sequence depends on the last event only; fixed modes never change
ModeFollowsLastEvent ==
  Settled => mode = (IF cfg \in {"client", "server"} \/ last = "none" THEN Initial(cfg)
                     ELSE CASE last = "private" -> "client"
                            [] last = "public" -> "server"
                            [] OTHER -> IF cfg = "autoserver" THEN "server" ELSE "client")
=============================================================================
