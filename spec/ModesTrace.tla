----------------------------- MODULE ModesTrace -----------------------------
(***************************************************************************)
(* Trace specification for client/server mode (C13).  The events come from *)
(* harness/drivers/modes_test.go: reachability events emitted on the bus,  *)
(* the library's handler registration/removal (the point where a mode      *)
(* switch becomes visible, logged while the library holds its mode lock),  *)
(* stream deliveries in the host's three steps, requests, every response   *)
(* written, and the observable state at quiescent points ("Settle": no     *)
(* event pending, nothing parked).  The abstract state is that of          *)
(* Modes.tla: configured mode, current mode, events not yet processed.     *)
(***************************************************************************)
EXTENDS Integers, Sequences, FiniteSets, TLC, Json, IOUtils

Trace == ndJsonDeserialize(IOEnv.VERIF_TRACE)
NLines == Len(Trace)
VARIABLES l, s
vars == <<l, s>>
Range(f) == {f[i] : i \in DOMAIN f}
Ev == Trace[l]
Is(e) == l <= NLines /\ Ev.e = e
Flag(b, id) == IF b THEN {} ELSE {<<"C13", id>>}
ResetLines == {i \in 1..NLines : Trace[i].e = "Reset"}

Initial(c) == IF c \in {"auto", "client"} THEN "client" ELSE "server"
Target(c, r) == CASE r = "private" -> "client"
                  [] r = "public" -> "server"
                  [] OTHER -> IF c = "autoserver" THEN "server" ELSE "client"
Subscribed(c) == c \in {"auto", "autoserver"}
StreamIds == 1..8

Fresh(run) == [c |-> run, cfg |-> run.cfg,
               mode |-> Initial(run.cfg),     \* the mode as switched so far
               pending |-> <<>>,              \* reachability events emitted and not yet accounted for
               nev |-> 0,                     \* events emitted
               settled |-> Initial(run.cfg),  \* the mode the node is settled in, "none" once an event is in flight
               reqs |-> [i \in StreamIds |-> <<>>],  \* per request: nev if it arrived at a node settled in client mode, else -1
               clean |-> {},                  \* streams accepted by a node settled in server mode, no event since
               viol |-> Flag(run.handlers <=> Initial(run.cfg) = "server", "d_initial_mode_wrong")]
Init == \E i \in ResetLines : l = i + 1 /\ s = Fresh(Trace[i])
Step(ns) == /\ s' = ns /\ l' = l + 1
            /\ (ns.viol = s.viol \/ PrintT("VIOL " \o ToString(s.c.t) \o " " \o ToString(l) \o " " \o ToString(ns.viol \ s.viol)))

Emit == /\ Is("Emit")
        /\ Step([s EXCEPT !.nev = @ + 1, !.settled = "none", !.clean = {},
                          !.pending = IF Subscribed(s.cfg) THEN Append(@, Ev.reach) ELSE @])

\* a switch must be caused by a pending event whose target differs from the current mode;
\* the events before it were no-ops
Switch ==
  /\ Is("Switch")
  /\ LET causes == {k \in DOMAIN s.pending : Target(s.cfg, s.pending[k]) = Ev.to}
         k == IF causes = {} THEN 0 ELSE CHOOSE x \in causes : \A y \in causes : x <= y
     IN Step([s EXCEPT
          !.mode = Ev.to,
          !.pending = IF k = 0 THEN @ ELSE SubSeq(@, k + 1, Len(@)),
          !.viol = @ \cup Flag(Subscribed(s.cfg), "d_fixed_mode_changed")
                     \cup Flag(k # 0 /\ Ev.to # s.mode, "d_switch_without_cause")
                     \* every event skipped was a no-op for the mode at that time
                     \cup Flag(k = 0 \/ \A j \in 1..(k - 1) : Target(s.cfg, s.pending[j]) = s.mode, "d_event_ignored")])

Lookup ==
  /\ Is("Lookup")
  /\ Step([s EXCEPT
       !.clean = IF s.settled = "server" /\ Ev.accepted THEN @ \cup {Ev.s} ELSE @,
       !.viol = @ \cup Flag(s.settled = "client" => ~Ev.accepted, "a_stream_accepted_in_client_mode")
                  \cup Flag(s.settled = "server" => Ev.accepted, "c_stream_refused_in_server_mode")])

Req == /\ Is("Req")
       /\ Step([s EXCEPT !.reqs[Ev.s] = Append(@, IF s.settled = "client" THEN s.nev ELSE -1)])

\* the n-th response on a stream answers its n-th request
Wrote ==
  /\ Is("Wrote")
  /\ LET rs == s.reqs[Ev.s] IN
     Step([s EXCEPT !.viol = @
        \cup Flag(Ev.n <= Len(rs), "a_unsolicited_response")
        \cup Flag(Ev.n <= Len(rs) => ~(rs[Ev.n] # -1 /\ rs[Ev.n] = s.nev), "a_answered_in_client_mode")])

\* quiescent: every pending event has been processed, so all of them were no-ops
Settle ==
  /\ Is("Settle")
  /\ LET final == IF s.pending = <<>> THEN s.mode ELSE Target(s.cfg, s.pending[Len(s.pending)])
         open == {x \in Range(Ev.streams) : x.invoked /\ ~x.finished}
     IN Step([s EXCEPT
          !.pending = <<>>, !.settled = s.mode,
          !.viol = @
            \cup Flag(Ev.parked = 0, "z_harness_not_quiescent")
            \cup Flag(final = s.mode, "d_mode_does_not_follow_last_event")
            \cup Flag(Ev.handlers <=> s.mode = "server", "d_handlers_do_not_match_mode")
            \cup Flag(s.mode = "client" => open = {}, "b_inbound_stream_left_open_in_client_mode")
            \cup Flag(\A x \in Range(Ev.streams) : (x.s \in s.clean /\ x.invoked) => (x.nresp = x.nreq /\ ~x.finished),
                      "c_server_did_not_answer")])

Other == /\ (Is("Invoke") \/ Is("LocalReset") \/ Is("Park") \/ Is("Release") \/ Is("End")) /\ Step(s)
Stuck == /\ Is("Stuck") /\ Step([s EXCEPT !.viol = @ \cup {<<"C13", "e_node_wedged">>}])

Next == Emit \/ Switch \/ Lookup \/ Req \/ Wrote \/ Settle \/ Other \/ Stuck
TraceSpec == Init /\ [][Next]_vars
TraceAccepted == TLCGet("distinct") = NLines
InvC13 == s.viol = {}
=============================================================================
