SPECIFICATION TraceSpec
INVARIANT InvC13
POSTCONDITION TraceAccepted
CHECK_DEADLOCK FALSE
