SPECIFICATION Spec
CONSTANTS
  Streams = {1, 2}
  MaxEvents = 2
  MaxReqs = 2
  BugNoReset = FALSE
  BugNoMsgCheck = TRUE
  BugUnknownServer = FALSE
  BugFixedFollows = FALSE
INVARIANTS NoAnswerInClientMode ClientModeStreamsReset HandlersFollowMode ModeFollowsLastEvent
CHECK_DEADLOCK FALSE
