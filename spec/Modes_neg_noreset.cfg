SPECIFICATION Spec
CONSTANTS
  Streams = {1, 2}
  MaxEvents = 2
  MaxReqs = 2
  BugNoReset = TRUE
  BugNoMsgCheck = FALSE
  BugUnknownServer = FALSE
  BugFixedFollows = FALSE
INVARIANTS NoAnswerInClientMode ClientModeStreamsReset HandlersFollowMode ModeFollowsLastEvent
CHECK_DEADLOCK FALSE
