SPECIFICATION Spec
CONSTANTS
  Streams = {1, 2, 3}
  MaxEvents = 3
  MaxReqs = 2
  BugNoReset = FALSE
  BugNoMsgCheck = FALSE
  BugUnknownServer = FALSE
  BugFixedFollows = FALSE
INVARIANTS NoAnswerInClientMode ClientModeStreamsReset HandlersFollowMode ModeFollowsLastEvent
CHECK_DEADLOCK FALSE
