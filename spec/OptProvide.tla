----------------------------- MODULE OptProvide -----------------------------
(***************************************************************************)
(* The wait protocol of the optimistic provide (lookup_optim.go:           *)
(* waitForRPCs / consumeDoneChan).  R ADD_PROVIDER RPCs were scheduled;    *)
(* each posts on doneChan (capacity T0 = ceil(0.75 K)) when it completes.  *)
(* The waiter first consumes min(T0, R) completions, then for each         *)
(* remaining RPC either takes a lease from the jobs pool and hands the     *)
(* completion to a consumer goroutine, or consumes it directly; the        *)
(* channel is closed by whoever consumes the last completion.              *)
(* ReturnWhenNothingScheduled models the guard for R = 0 (fix of D7);      *)
(* without it the waiter blocks on a channel nobody will ever post to.     *)
(***************************************************************************)
EXTENDS Integers, TLC
CONSTANTS R, T0, PoolCap, PoolBusy, ReturnWhenNothingScheduled
VARIABLES pending, ch, done, pc, remaining, consumers, pool, closed
vars == <<pending, ch, done, pc, remaining, consumers, pool, closed>>
Min(a, b) == IF a < b THEN a ELSE b
Thr == Min(T0, R)
Init == pending = R /\ ch = 0 /\ done = 0 /\ pc = "loop1" /\ remaining = 0 /\ consumers = 0
        /\ pool = PoolBusy /\ closed = FALSE
RpcPost == pending > 0 /\ ch < T0 /\ ch' = ch + 1 /\ pending' = pending - 1
           /\ UNCHANGED <<done, pc, remaining, consumers, pool, closed>>
Skip == /\ pc = "loop1" /\ R = 0 /\ ReturnWhenNothingScheduled
        /\ pc' = "returned" /\ UNCHANGED <<pending, ch, done, remaining, consumers, pool, closed>>
Loop1 == /\ pc = "loop1" /\ ch > 0
         /\ ch' = ch - 1 /\ done' = done + 1
         /\ IF done + 1 = Thr THEN pc' = "loop2" /\ remaining' = R - (done + 1)
                              ELSE pc' = pc /\ remaining' = remaining
         /\ closed' = (closed \/ done + 1 = R)
         /\ UNCHANGED <<pending, consumers, pool>>
Lease == /\ pc = "loop2" /\ remaining > 0 /\ pool < PoolCap
         /\ pool' = pool + 1 /\ consumers' = consumers + 1 /\ remaining' = remaining - 1
         /\ UNCHANGED <<pending, ch, done, pc, closed>>
Direct == /\ pc = "loop2" /\ remaining > 0 /\ ch > 0
          /\ ch' = ch - 1 /\ done' = done + 1 /\ remaining' = remaining - 1
          /\ closed' = (closed \/ done + 1 = R)
          /\ UNCHANGED <<pending, pc, consumers, pool>>
Ret == pc = "loop2" /\ remaining = 0 /\ pc' = "returned"
       /\ UNCHANGED <<pending, ch, done, remaining, consumers, pool, closed>>
Consume == /\ consumers > 0 /\ ch > 0
           /\ ch' = ch - 1 /\ pool' = pool - 1 /\ done' = done + 1 /\ consumers' = consumers - 1
           /\ closed' = (closed \/ done + 1 = R)
           /\ UNCHANGED <<pending, pc, remaining>>
Fin == pc = "returned" /\ pending = 0 /\ consumers = 0 /\ UNCHANGED vars
Next == RpcPost \/ Skip \/ Loop1 \/ Lease \/ Direct \/ Ret \/ Consume \/ Fin
Spec == Init /\ [][Next]_vars /\ WF_vars(Next)
NeverOverConsumed == done <= R /\ ch >= 0 /\ pool >= 0 /\ pool <= (IF PoolCap > PoolBusy THEN PoolCap ELSE PoolBusy)
ClosedOnlyWhenAllDone == closed => done = R
Returns == <>(pc = "returned")
Quiesces == <>(pc = "returned" /\ pending = 0 /\ consumers = 0)
=============================================================================
