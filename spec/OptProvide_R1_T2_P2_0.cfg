SPECIFICATION Spec
CONSTANTS
  R = 1
  T0 = 2
  PoolCap = 2
  PoolBusy = 0
  ReturnWhenNothingScheduled = TRUE
INVARIANTS NeverOverConsumed ClosedOnlyWhenAllDone
PROPERTIES Returns Quiesces
CHECK_DEADLOCK TRUE
