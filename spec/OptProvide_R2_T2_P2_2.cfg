SPECIFICATION Spec
CONSTANTS
  R = 2
  T0 = 2
  PoolCap = 2
  PoolBusy = 2
  ReturnWhenNothingScheduled = TRUE
INVARIANTS NeverOverConsumed ClosedOnlyWhenAllDone
PROPERTIES Returns Quiesces
CHECK_DEADLOCK TRUE
