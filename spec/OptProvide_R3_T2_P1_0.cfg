SPECIFICATION Spec
CONSTANTS
  R = 3
  T0 = 2
  PoolCap = 1
  PoolBusy = 0
  ReturnWhenNothingScheduled = TRUE
INVARIANTS NeverOverConsumed ClosedOnlyWhenAllDone
PROPERTIES Returns Quiesces
CHECK_DEADLOCK TRUE
