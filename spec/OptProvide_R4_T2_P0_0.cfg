SPECIFICATION Spec
CONSTANTS
  R = 4
  T0 = 2
  PoolCap = 0
  PoolBusy = 0
  ReturnWhenNothingScheduled = TRUE
INVARIANTS NeverOverConsumed ClosedOnlyWhenAllDone
PROPERTIES Returns Quiesces
CHECK_DEADLOCK TRUE
