SPECIFICATION Spec
CONSTANTS
  R = 4
  T0 = 3
  PoolCap = 1
  PoolBusy = 1
  ReturnWhenNothingScheduled = TRUE
INVARIANTS NeverOverConsumed ClosedOnlyWhenAllDone
PROPERTIES Returns Quiesces
CHECK_DEADLOCK TRUE
