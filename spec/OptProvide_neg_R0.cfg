SPECIFICATION Spec
CONSTANTS
  R = 0
  T0 = 2
  PoolCap = 2
  PoolBusy = 0
  ReturnWhenNothingScheduled = FALSE
INVARIANTS NeverOverConsumed ClosedOnlyWhenAllDone
PROPERTIES Returns Quiesces
CHECK_DEADLOCK TRUE
