------------------------------- MODULE PQueue -------------------------------
(***************************************************************************)
(* State machine over the queue operators of PQueueOps.tla: every history  *)
(* of enqueue / dequeue / dequeue-matching / remove and of the reprovide   *)
(* queue operations, checked exhaustively for the C19 invariants.          *)
(***************************************************************************)
EXTENDS PQueueOps
---------------------------------------------------------------------------
VARIABLES order, keys, rorder, nops
vars == <<order, keys, rorder, nops>>
CONSTANT MaxOps
Init == order = <<>> /\ keys = {} /\ rorder = <<>> /\ nops = 0

Op == nops < MaxOps /\ nops' = nops + 1
DoEnq == /\ Op /\ \E p \in Prefixes : \E ks \in (SUBSET Under(AllKeys, p)) \ {{}} :
              /\ Cardinality(ks) <= 2
              /\ LET r == Enq(order, keys, p, ks) IN order' = r[1] /\ keys' = r[2]
         /\ UNCHANGED rorder
DoDeq == /\ Op /\ LET r == Deq(order, keys) IN order' = r[1] /\ keys' = r[2]
         /\ UNCHANGED rorder
DoDeqM == /\ Op /\ \E p \in Prefixes : LET r == DeqM(order, keys, p) IN order' = r[1] /\ keys' = r[2]
          /\ UNCHANGED rorder
DoRem == /\ Op /\ \E k \in AllKeys : LET r == Rem(order, keys, {k}) IN order' = r[1] /\ keys' = r[2]
         /\ UNCHANGED rorder
DoREnq == /\ Op /\ \E p \in Prefixes : rorder' = Push(rorder, p) /\ UNCHANGED <<order, keys>>
DoRDeq == /\ Op /\ rorder # <<>> /\ rorder' = Tail(rorder) /\ UNCHANGED <<order, keys>>
DoRRem == /\ Op /\ \E p \in Prefixes : rorder' = RemoveSup(rorder, p) /\ UNCHANGED <<order, keys>>
Next == DoEnq \/ DoDeq \/ DoDeqM \/ DoRem \/ DoREnq \/ DoRDeq \/ DoRRem \/ UNCHANGED vars
Spec == Init /\ [][Next]_vars

NoOverlap == NoOverlapIn(order) /\ NoOverlapIn(rorder)
EachPrefixHasKeys == \A i \in DOMAIN order : Under(keys, order[i]) # {}
EachKeyCoveredOnce == \A k \in keys : Cardinality({i \in DOMAIN order : IsPrefix(order[i], Bits(k))}) = 1
\* an absorbing prefix takes the place of the first prefix it absorbs; the others keep their relative order
AbsorptionPosition ==
  \A p \in Prefixes :
    LET o2 == Push(rorder, p)
        sup == {q \in Range(rorder) : IsPrefix(p, q) /\ q # p}
    IN (sup # {} /\ p \notin Range(rorder)) =>
         /\ Without(o2, {p}) = Without(rorder, sup)
         /\ \A q \in Range(rorder) \ sup :
               (Index(rorder, q) < (CHOOSE i \in DOMAIN rorder : rorder[i] \in sup /\ \A j \in DOMAIN rorder : rorder[j] \in sup => i <= j))
               <=> (Index(o2, q) < Index(o2, p))
=============================================================================
