------------------------------- MODULE PQueueOps -------------------------------
(***************************************************************************)
(* The provide queue and the reprovide queue of the sweeping provider      *)
(* (provider/internal/queue) as an ordered map from non-overlapping        *)
(* keyspace prefixes to keys.                                              *)
(*   order   sequence of prefixes (bit sequences), oldest first            *)
(*   keys    set of queued keys (integers of B bits)                       *)
(* Every operation is a function on (order, keys); the same operators are  *)
(* used as the oracle for traces of the real queues (PQueueTrace.tla).     *)
(***************************************************************************)
EXTENDS Integers, Sequences, FiniteSets, TLC

CONSTANTS B,        \* key length in bits
          MaxP,     \* longest prefix used
          BugAppendOnAbsorb, BugKeepEmptyPrefix

Bit(k, i) == (k \div (2 ^ (B - i))) % 2            \* i-th bit (1-based, most significant first)
Bits(k) == [i \in 1..B |-> Bit(k, i)]
AllKeys == 0..(2 ^ B - 1)
IsPrefix(p, q) == Len(p) <= Len(q) /\ \A i \in 1..Len(p) : p[i] = q[i]
Overlap(p, q) == IsPrefix(p, q) \/ IsPrefix(q, p)
Under(K, p) == {k \in K : IsPrefix(p, Bits(k))}
Range(f) == {f[i] : i \in DOMAIN f}
RECURSIVE SeqOfLen(_)
SeqOfLen(n) == IF n = 0 THEN {<<>>} ELSE {Append(s, b) : s \in SeqOfLen(n - 1), b \in {0, 1}}
Prefixes == UNION {SeqOfLen(n) : n \in 0..MaxP}

Without(o, S) == SelectSeq(o, LAMBDA x : x \notin S)
Index(o, x) == CHOOSE i \in DOMAIN o : o[i] = x
InsertAt(o, i, x) == SubSeq(o, 1, i - 1) \o <<x>> \o SubSeq(o, i, Len(o))

\* prefixQueue.Push
Push(o, p) ==
  IF p \in Range(o) THEN o
  ELSE LET sup == {q \in Range(o) : IsPrefix(p, q)} IN
       IF sup # {}
       THEN LET first == CHOOSE i \in DOMAIN o : o[i] \in sup /\ \A j \in DOMAIN o : o[j] \in sup => i <= j
                rest == Without(o, sup)
                \* position of the first absorbed prefix, counted in the queue without the absorbed ones
                pos == Cardinality({j \in 1..(first - 1) : o[j] \notin sup}) + 1
            IN IF BugAppendOnAbsorb THEN Append(rest, p) ELSE InsertAt(rest, pos, p)
       ELSE IF \E q \in Range(o) : IsPrefix(q, p) THEN o
       ELSE Append(o, p)

\* prefixQueue.Remove: the prefix or all its superstrings
RemoveSup(o, p) == Without(o, {q \in Range(o) : IsPrefix(p, q)})

Enq(o, K, p, ks) == <<Push(o, p), K \cup ks>>
DeqKeys(o, K) == IF o = <<>> THEN {} ELSE Under(K, Head(o))
Deq(o, K) == IF o = <<>> THEN <<o, K>> ELSE <<Tail(o), K \ Under(K, Head(o))>>
DeqM(o, K, p) ==
  LET ks == Under(K, p)
      K1 == K \ ks
  IN IF ks = {} THEN <<o, K>>
     ELSE IF \E q \in Range(o) : IsPrefix(p, q) THEN <<RemoveSup(o, p), K1>>
     ELSE LET sh == {q \in Range(o) : IsPrefix(q, p)} IN
          IF sh = {} THEN <<o, K1>>
          ELSE LET s == CHOOSE q \in sh : TRUE IN
               IF Under(K1, s) = {} /\ ~BugKeepEmptyPrefix THEN <<Without(o, {s}), K1>> ELSE <<o, K1>>
Rem(o, K, ks) ==
  LET K1 == K \ ks
      hit == {q \in Range(o) : \E k \in ks : IsPrefix(q, Bits(k))}
      dead == {q \in hit : Under(K1, q) = {}}
  IN <<IF BugKeepEmptyPrefix THEN o ELSE Without(o, dead), K1>>
\* persist + drain into a fresh queue restores prefixes, order and keys
PersistDrain(o, K) == <<o, K>>

NoOverlapIn(o) == \A i, j \in DOMAIN o : i # j => ~Overlap(o[i], o[j])
=============================================================================
