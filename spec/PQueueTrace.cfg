SPECIFICATION TraceSpec
CONSTANTS
  B = 5
  MaxP = 3
  BugAppendOnAbsorb = FALSE
  BugKeepEmptyPrefix = FALSE
POSTCONDITION TraceAccepted
CHECK_DEADLOCK FALSE
