----------------------------- MODULE PQueueTrace -----------------------------
(***************************************************************************)
(* Trace specification for the provide / reprovide queues (C19): TLC is    *)
(* the oracle.  Each line of the trace carries one operation on the real   *)
(* queues, its result, and the full projected state afterwards; the        *)
(* operators of PQueue.tla compute what the state and result must be from  *)
(* the previous (logged) state.                                            *)
(***************************************************************************)
EXTENDS PQueueOps, Json, IOUtils

Trace == ndJsonDeserialize(IOEnv.VERIF_TRACE)
NLines == Len(Trace)
VARIABLES l, s
tvars == <<l, s>>

\* so, sK: the snapshot held by the datastore (written by Persist, consumed by DrainDatastore)
Fresh(run) == [c |-> run, o |-> <<>>, K |-> {}, ro |-> <<>>, so |-> <<>>, sK |-> {}, viol |-> {}]
Ev == Trace[l]
Is(e) == l <= NLines /\ Ev.e = e
Flag(b, prop, id) == IF b THEN {} ELSE {<<prop, id>>}
ResetLines == {i \in 1..NLines : Trace[i].e = "Reset"}
TInit == \E i \in ResetLines : l = i + 1 /\ s = Fresh(Trace[i])
Step(ns) == /\ s' = ns /\ l' = l + 1
            /\ (ns.viol = s.viol \/ PrintT("VIOL " \o ToString(s.c.t) \o " " \o ToString(l) \o " " \o ToString(ns.viol \ s.viol)))

\* expected <<order, keys, returned keys, returned prefix, ok>> of a provide-queue operation
Expect(op, p, ks) ==
  CASE op = "enq" -> LET r == Enq(s.o, s.K, p, ks) IN <<r[1], r[2], {}, <<>>, TRUE>>
    [] op = "deq" -> LET r == Deq(s.o, s.K) IN
                     <<r[1], r[2], DeqKeys(s.o, s.K), IF s.o = <<>> THEN <<>> ELSE Head(s.o), s.o # <<>>>>
    [] op = "deqm" -> LET r == DeqM(s.o, s.K, p) IN <<r[1], r[2], Under(s.K, p), <<>>, TRUE>>
    [] op = "rem" -> LET r == Rem(s.o, s.K, ks) IN <<r[1], r[2], {}, <<>>, TRUE>>
    [] op = "clear" -> <<<<>>, {}, {Cardinality(s.K)}, <<>>, TRUE>>
    [] op = "persist" -> LET r == PersistDrain(s.o, s.K) IN <<r[1], r[2], {}, <<>>, TRUE>>
    [] op = "restart" -> LET r == PersistDrain(s.so, s.sK) IN <<r[1], r[2], {}, <<>>, TRUE>>
    [] OTHER -> <<s.o, s.K, {}, <<>>, TRUE>>

OpLine ==
  /\ Is("Op")
  /\ LET op == Ev.op
         p == Ev.prefix
         ks == Range(Ev.keys)
         isR == op \in {"renq", "rdeq", "rrem", "rclear"}
         ex == Expect(op, p, ks)
         exRo == CASE op = "renq" -> Push(s.ro, p)
                   [] op = "rdeq" -> IF s.ro = <<>> THEN s.ro ELSE Tail(s.ro)
                   [] op = "rrem" -> RemoveSup(s.ro, p)
                   [] op = "rclear" -> <<>>
                   [] OTHER -> s.ro
         gotK == Range(Ev.qkeys)
     IN Step([s EXCEPT
          !.o = Ev.order, !.K = gotK, !.ro = Ev.rorder,
          \* Persist replaces the stored snapshot by the current queue; a drain consumes it
          !.so = IF op = "snap" THEN s.o ELSE IF op \in {"persist", "restart"} THEN <<>> ELSE @,
          !.sK = IF op = "snap" THEN s.K ELSE IF op \in {"persist", "restart"} THEN {} ELSE @,
          !.viol = @
            \cup Flag(Ev.order = ex[1], "C19",
                      IF op \in {"persist", "restart"} THEN "d_persist_drain_changes_prefix_order" ELSE "c_prefix_order_wrong")
            \cup Flag(gotK = ex[2], "C19",
                      IF op \in {"persist", "restart"} THEN "d_persist_drain_changes_keys" ELSE "a_key_set_wrong")
            \cup Flag(Len(Ev.qkeys) = Cardinality(gotK), "C19", "a_key_queued_twice")
            \cup Flag(op \in {"deq", "deqm", "clear"} => Range(Ev.retkeys) = ex[3], "C19", "b_returned_keys_wrong")
            \cup Flag(op = "deq" => (Ev.retok = ex[5] /\ (ex[5] => Ev.retprefix = ex[4])), "C19", "b_dequeue_not_oldest_prefix")
            \cup Flag(Ev.retok \/ op \in {"deq", "rdeq", "rrem"}, "C19", "d_persist_or_drain_failed")
            \cup Flag(NoOverlapIn(Ev.order) /\ NoOverlapIn(Ev.rorder), "C19", "c_prefixes_overlap")
            \cup Flag(Ev.size = Cardinality(gotK) /\ Ev.regions = Len(Ev.order) /\ (Ev.empty <=> gotK = {}), "C19", "a_size_disagrees")
            \cup Flag(Ev.rorder = exRo, "C19", "e_reprovide_order_wrong")
            \cup Flag(Ev.rsize = Len(Ev.rorder), "C19", "e_reprovide_size_disagrees")
            \cup Flag(op = "rdeq" => (Ev.retok = (s.ro # <<>>) /\ (s.ro # <<>> => Ev.retprefix = Head(s.ro))), "C19", "e_reprovide_dequeue_wrong")
            \cup Flag(op = "rrem" => (Ev.retok = (\E q \in Range(s.ro) : IsPrefix(p, q))), "C19", "e_reprovide_remove_result_wrong")])

EndLine == Is("End") /\ Step(s)
TNext == OpLine \/ EndLine
TraceSpec == TInit /\ [][TNext]_tvars
TraceAccepted == TLCGet("distinct") = NLines
InvC19 == {v \in s.viol : v[1] = "C19"} = {}
=============================================================================
