SPECIFICATION TraceSpec
CONSTANTS
  B = 5
  MaxP = 3
  BugAppendOnAbsorb = FALSE
  BugKeepEmptyPrefix = FALSE
INVARIANT InvC19
POSTCONDITION TraceAccepted
CHECK_DEADLOCK FALSE
