SPECIFICATION Spec
CONSTANTS
  B = 3
  MaxP = 2
  MaxOps = 4
  BugAppendOnAbsorb = FALSE
  BugKeepEmptyPrefix = FALSE
INVARIANTS NoOverlap EachPrefixHasKeys EachKeyCoveredOnce AbsorptionPosition
CHECK_DEADLOCK FALSE
