SPECIFICATION Spec
CONSTANTS
  B = 3
  MaxP = 3
  MaxOps = 5
  BugAppendOnAbsorb = FALSE
  BugKeepEmptyPrefix = FALSE
INVARIANTS NoOverlap EachPrefixHasKeys EachKeyCoveredOnce AbsorptionPosition
CHECK_DEADLOCK FALSE
