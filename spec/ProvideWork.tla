----------------------------- MODULE ProvideWork -----------------------------
(***************************************************************************)
(* Where a key handed to the sweeping provider *is* until it has been      *)
(* advertised (provider/provider.go: handleProvide, provideLoop,           *)
(* batchProvide / failedProvide, batchReprovide / failedReprovide,         *)
(* sendProviderRecords, Close with the persisted provide queue, New with   *)
(* resume).  One keyspace region; keys are either kept (StartProviding: in *)
(* the keystore, reprovided on schedule) or one-off (ProvideOnce: nowhere  *)
(* but in the provide queue).  Delivery of provider records works or does  *)
(* not (the swarm is reachable or not), attempts fail or succeed as a      *)
(* whole.  The model was written after the checks had found D22 and D24 in *)
(* the code; both are switches here and must be refuted:                   *)
(*   BugReprovideDropsQueued  a reprovide takes every waiting key of its   *)
(*      region out of the provide queue, although it advertises only the   *)
(*      keys of the keystore (D22);                                        *)
(*   BugCloseCountsUnsentAsSent  an attempt interrupted by Close is        *)
(*      reported as successful, its keys are not put back into the queue   *)
(*      that Close persists (D24).                                         *)
(***************************************************************************)
EXTENDS Naturals, FiniteSets, TLC

CONSTANTS Keys, BugReprovideDropsQueued, BugCloseCountsUnsentAsSent, MaxRestarts

VARIABLES keystore,   \* kept keys (survives restarts)
          queue,      \* provide queue (persisted at Close, read back at start)
          inflight,   \* keys of the provide attempt in flight (taken out of the queue)
          rkeys,      \* keys of the reprovide attempt in flight ({} = none)
          rpending,   \* the region waits in the reprovide queue after a failed reprovide (memory only)
          owed,       \* ghost: handed over and not advertised since
          reach,      \* provider records can be delivered
          restarts
vars == <<keystore, queue, inflight, rkeys, rpending, owed, reach, restarts>>

Init == /\ keystore = {} /\ queue = {} /\ inflight = {} /\ rkeys = {} /\ rpending = FALSE
        /\ owed = {} /\ reach \in BOOLEAN /\ restarts = 0

ProvideOnce(k) == /\ k \notin owed /\ k \notin keystore
                  /\ queue' = queue \cup {k} /\ owed' = owed \cup {k}
                  /\ UNCHANGED <<keystore, inflight, rkeys, rpending, reach, restarts>>
StartProviding(k) == /\ k \notin keystore
                     /\ keystore' = keystore \cup {k} /\ queue' = queue \cup {k} /\ owed' = owed \cup {k}
                     /\ UNCHANGED <<inflight, rkeys, rpending, reach, restarts>>
\* provideLoop takes the region's waiting keys and starts an attempt
Dequeue == /\ queue # {} /\ inflight = {}
           /\ inflight' = queue /\ queue' = {}
           /\ UNCHANGED <<keystore, rkeys, rpending, owed, reach, restarts>>
\* the attempt ends: advertised, or failed and put back (failedProvide)
ProvideEnd == /\ inflight # {}
              /\ IF reach THEN owed' = owed \ inflight /\ queue' = queue
                          ELSE owed' = owed /\ queue' = queue \cup inflight
              /\ inflight' = {}
              /\ UNCHANGED <<keystore, rkeys, rpending, reach, restarts>>
\* a reprovide of the region begins (its slot, or the retry of a failed one): the keys of the keystore are loaded,
\* waiting keys that are part of it leave the provide queue
ReprovideBegin == /\ rkeys = {} /\ keystore # {}
                  /\ rkeys' = keystore /\ rpending' = FALSE
                  /\ queue' = IF BugReprovideDropsQueued THEN {} ELSE queue \ keystore
                  /\ UNCHANGED <<keystore, inflight, owed, reach, restarts>>
ReprovideEnd == /\ rkeys # {}
                /\ IF reach THEN owed' = owed \ rkeys /\ rpending' = rpending
                            ELSE owed' = owed /\ rpending' = TRUE
                /\ rkeys' = {}
                /\ UNCHANGED <<keystore, queue, inflight, reach, restarts>>
StopProviding(k) == /\ k \in keystore
                    /\ keystore' = keystore \ {k} /\ queue' = queue \ {k} /\ owed' = owed \ {k}
                    /\ UNCHANGED <<inflight, rkeys, rpending, reach, restarts>>
Toggle == reach' = ~reach /\ UNCHANGED <<keystore, queue, inflight, rkeys, rpending, owed, restarts>>
\* Close and restart on the same datastores: attempts in flight are interrupted (nothing of them is delivered),
\* their keys go back to the queue, the queue is persisted and read back; the reprovide queue is forgotten
Restart == /\ restarts < MaxRestarts
           /\ restarts' = restarts + 1
           /\ queue' = IF BugCloseCountsUnsentAsSent THEN queue ELSE queue \cup inflight
           /\ inflight' = {} /\ rkeys' = {} /\ rpending' = FALSE
           /\ UNCHANGED <<keystore, owed, reach>>

Next == \/ \E k \in Keys : ProvideOnce(k) \/ StartProviding(k) \/ StopProviding(k)
        \/ Dequeue \/ ProvideEnd \/ ReprovideBegin \/ ReprovideEnd \/ Toggle \/ Restart
Spec == Init /\ [][Next]_vars
\* fairness for liveness: the provider keeps working, the region's reprovide slot keeps coming
FairSpec == Spec /\ WF_vars(Dequeue) /\ WF_vars(ProvideEnd) /\ WF_vars(ReprovideBegin) /\ WF_vars(ReprovideEnd)

TypeOK == /\ keystore \subseteq Keys /\ queue \subseteq Keys /\ inflight \subseteq Keys /\ rkeys \subseteq Keys
          /\ owed \subseteq Keys /\ rpending \in BOOLEAN /\ reach \in BOOLEAN
\* a key that is owed is somewhere from where it will be advertised: waiting, in an attempt, or kept (its region's
\* reprovide comes again)
NoLostWork == \A k \in owed : k \in queue \/ k \in inflight \/ k \in keystore
\* once delivery works for good and nothing is handed over or restarted any more, everything owed is advertised
Quiet == <>[](reach /\ restarts = MaxRestarts)
EventuallyAdvertised == \A k \in Keys : (<>[](reach)) => [](k \in owed => <>(k \notin owed))
=============================================================================
