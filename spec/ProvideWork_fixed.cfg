SPECIFICATION FairSpec
CONSTANTS
  Keys = {k1, k2}
  BugReprovideDropsQueued = FALSE
  BugCloseCountsUnsentAsSent = FALSE
  MaxRestarts = 2
INVARIANTS TypeOK NoLostWork
PROPERTIES EventuallyAdvertised
CHECK_DEADLOCK FALSE
