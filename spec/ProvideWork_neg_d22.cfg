SPECIFICATION Spec
CONSTANTS
  Keys = {k1, k2}
  BugReprovideDropsQueued = TRUE
  BugCloseCountsUnsentAsSent = FALSE
  MaxRestarts = 2
INVARIANTS TypeOK NoLostWork
CHECK_DEADLOCK FALSE
