SPECIFICATION Spec
CONSTANTS
  Keys = {k1, k2}
  BugReprovideDropsQueued = FALSE
  BugCloseCountsUnsentAsSent = TRUE
  MaxRestarts = 2
INVARIANTS TypeOK NoLostWork
CHECK_DEADLOCK FALSE
