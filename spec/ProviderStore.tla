---------------------------- MODULE ProviderStore ----------------------------
(***************************************************************************)
(* The provider store of go-libp2p-kad-dht (records/providers_manager.go). *)
(*  disk      (key, peer) -> time of the entry, or -1                      *)
(*  lru       the cached keys, most recently used last, capacity Cap       *)
(*  cached    key -> (peer -> time) for cached keys                        *)
(* AddProvider updates the cached set (if the key is cached) and writes    *)
(* through; GetProviders serves the cached set minus expired entries, or   *)
(* loads from disk deleting expired entries and caches a non-empty set;    *)
(* the background sweep takes a snapshot and deletes, entry by entry, what *)
(* the snapshot showed as expired at sweep start - without looking at the  *)
(* cache or the current disk value (the documented re-add race).           *)
(***************************************************************************)
EXTENDS Integers, Sequences, FiniteSets, TLC

CONSTANTS Keys, Provs, Cap, V, MaxT, MaxOps,
          BugNoCacheUpdate, BugBoundary, BugServeCachedExpired

KP == Keys \X Provs
VARIABLES disk, lru, cached, now, snap, swNow, lastAdd, raced, lastGet, nops, stopped
vars == <<disk, lru, cached, now, snap, swNow, lastAdd, raced, lastGet, nops, stopped>>

Init == /\ disk = [x \in KP |-> -1] /\ lru = <<>> /\ cached = [k \in Keys |-> [p \in Provs |-> -1]]
        /\ now = 0 /\ snap = {} /\ swNow = 0 /\ lastAdd = [x \in KP |-> -1] /\ raced = {}
        /\ lastGet = [k |-> "none", got |-> {}, t |-> 0, ok |-> TRUE] /\ nops = 0 /\ stopped = FALSE

Expired(t, at) == IF BugBoundary THEN at - t >= V ELSE at - t > V
IsCached(k) == \E i \in DOMAIN lru : lru[i] = k
Touch(k) == LET rest == SelectSeq(lru, LAMBDA x : x # k) IN Append(rest, k)
AddLRU(k) == LET q == Touch(k) IN IF Len(q) > Cap THEN Tail(q) ELSE q
Op == nops < MaxOps /\ nops' = nops + 1 /\ ~stopped

\* judged at the moment of the call, against the history of acknowledged additions
Verdict(k, got) ==
  LET fresh == {p \in Provs : lastAdd[<<k, p>>] >= 0 /\ now - lastAdd[<<k, p>>] <= V}
      maybe == {p \in Provs : <<k, p>> \in raced}
  IN (fresh \ maybe) \subseteq got /\ got \subseteq fresh

Add(k, p) ==
  /\ Op
  /\ disk' = [disk EXCEPT ![<<k, p>>] = now]
  /\ IF IsCached(k)
     THEN /\ cached' = IF BugNoCacheUpdate THEN cached ELSE [cached EXCEPT ![k][p] = now]
          /\ lru' = Touch(k)
     ELSE UNCHANGED <<cached, lru>>
  /\ lastAdd' = [lastAdd EXCEPT ![<<k, p>>] = now]
  /\ raced' = raced \ {<<k, p>>}
  /\ UNCHANGED <<now, snap, swNow, lastGet, stopped>>

Get(k) ==
  /\ Op
  /\ IF IsCached(k)
     THEN LET keep == {p \in Provs : cached[k][p] >= 0 /\ (BugServeCachedExpired \/ ~Expired(cached[k][p], now))} IN
          /\ cached' = [cached EXCEPT ![k] = [p \in Provs |-> IF p \in keep THEN cached[k][p] ELSE -1]]
          /\ lru' = Touch(k)
          /\ disk' = disk
          /\ lastGet' = [k |-> k, got |-> keep, t |-> now, ok |-> Verdict(k, keep)]
     ELSE LET live == {p \in Provs : disk[<<k, p>>] >= 0 /\ ~Expired(disk[<<k, p>>], now)} IN
          /\ disk' = [x \in KP |-> IF x[1] = k /\ disk[x] >= 0 /\ Expired(disk[x], now) THEN -1 ELSE disk[x]]
          /\ IF live # {}
             THEN /\ lru' = AddLRU(k)
                  /\ cached' = [cached EXCEPT ![k] = [p \in Provs |-> IF p \in live THEN disk[<<k, p>>] ELSE -1]]
             ELSE UNCHANGED <<lru, cached>>
          /\ lastGet' = [k |-> k, got |-> live, t |-> now, ok |-> Verdict(k, live)]
  /\ UNCHANGED <<now, snap, swNow, lastAdd, raced, stopped>>

Tick == /\ now < MaxT /\ now' = now + 1
        /\ UNCHANGED <<disk, lru, cached, snap, swNow, lastAdd, raced, lastGet, nops, stopped>>

SweepStart == /\ snap = {} /\ ~stopped
              /\ snap' = {<<x, disk[x]>> : x \in {y \in KP : disk[y] >= 0}} /\ swNow' = now
              /\ snap' # {}
              /\ UNCHANGED <<disk, lru, cached, now, lastAdd, raced, lastGet, nops, stopped>>
SweepStep ==
  /\ snap # {}
  /\ \E e \in snap :
       /\ snap' = snap \ {e}
       /\ IF Expired(e[2], swNow) /\ ~stopped
          THEN /\ disk' = [disk EXCEPT ![e[1]] = -1]
               /\ raced' = IF lastAdd[e[1]] >= 0 /\ ~Expired(lastAdd[e[1]], now) THEN raced \cup {e[1]} ELSE raced
          ELSE UNCHANGED <<disk, raced>>
  /\ UNCHANGED <<lru, cached, now, swNow, lastAdd, lastGet, nops, stopped>>

Restart == /\ Op /\ snap = {}
           /\ lru' = <<>> /\ cached' = [k \in Keys |-> [p \in Provs |-> -1]]
           /\ UNCHANGED <<disk, now, snap, swNow, lastAdd, raced, lastGet, stopped>>

Next == \/ \E k \in Keys, p \in Provs : Add(k, p)
        \/ \E k \in Keys : Get(k)
        \/ Tick \/ SweepStart \/ SweepStep \/ Restart
        \/ UNCHANGED vars
Spec == Init /\ [][Next]_vars

\* the last Get returned exactly the providers whose most recent addition is still valid
\* (a provider hit by the documented sweep race may be missing)
ServedIffFresh == lastGet.ok
CacheBounded == Len(lru) <= Cap
CacheWithinDisk == \A k \in Keys : ~IsCached(k) => \A p \in Provs : cached[k][p] = -1 \/ TRUE
=============================================================================
