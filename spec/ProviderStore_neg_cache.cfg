SPECIFICATION Spec
CONSTANTS
  Keys = {"k1", "k2"}
  Provs = {"p"}
  Cap = 1
  V = 2
  MaxT = 4
  MaxOps = 5
  BugNoCacheUpdate = TRUE
  BugBoundary = FALSE
  BugServeCachedExpired = FALSE
INVARIANTS ServedIffFresh CacheBounded
CHECK_DEADLOCK FALSE
