SPECIFICATION Spec
CONSTANTS
  Keys = {"k1", "k2", "k3"}
  Provs = {"p", "q"}
  Cap = 2
  V = 2
  MaxT = 5
  MaxOps = 6
  BugNoCacheUpdate = FALSE
  BugBoundary = FALSE
  BugServeCachedExpired = FALSE
INVARIANTS ServedIffFresh CacheBounded
CHECK_DEADLOCK FALSE
