SPECIFICATION Spec
CONSTANTS
  Keys = {"k1", "k2"}
  Provs = {"p", "q"}
  Cap = 1
  V = 2
  MaxT = 3
  MaxOps = 4
  BugNoCacheUpdate = FALSE
  BugBoundary = FALSE
  BugServeCachedExpired = FALSE
INVARIANTS ServedIffFresh CacheBounded
CHECK_DEADLOCK FALSE
