---------------------------- MODULE ProviderTrace ----------------------------
(***************************************************************************)
(* Property-level trace specification for the provider store (C07),        *)
(* validated against traces of the real records.ProviderManager recorded   *)
(* by harness/drivers/prov_test.go (gated datastore, virtual clock).       *)
(* lastAdd[k,p] is the time of the most recent acknowledged addition.      *)
(* A provider must be returned exactly while now - lastAdd <= validity;    *)
(* the one documented exception is a re-addition racing with the GC sweep  *)
(* of the same, already expired record (the sweeper decided from a         *)
(* snapshot taken before the re-addition).                                 *)
(***************************************************************************)
EXTENDS Integers, Sequences, FiniteSets, TLC, Json, IOUtils

Trace == ndJsonDeserialize(IOEnv.VERIF_TRACE)
NLines == Len(Trace)
VARIABLES l, s
vars == <<l, s>>
Range(f) == {f[i] : i \in DOMAIN f}

Fresh(run) == [
  c        |-> run,
  lastAdd  |-> <<>>,   \* <<k, p>> -> time of the last acknowledged add
  gcNow    |-> -1,     \* start time of the sweep in progress (its query)
  gcSnap   |-> <<>>,   \* lastAdd as the sweeper's snapshot saw it
  raced    |-> {},     \* <<k,p>> whose fresh record was dropped by the documented race
  pending  |-> {},     \* <<k,p>> with an addition in progress (concurrent operations)
  getsOpen |-> {},     \* keys with a query in progress, with the additions that overlapped it
  overlap  |-> {},     \* <<k,p>> whose addition overlapped a query still in progress
  closed   |-> FALSE,
  viol     |-> {} ]

c == s.c
Ev == Trace[l]
Is(e) == l <= NLines /\ Ev.e = e
Flag(b, prop, id) == IF b THEN {} ELSE {<<prop, id>>}
ResetLines == {i \in 1..NLines : Trace[i].e = "Reset"}
Init == \E i \in ResetLines : l = i + 1 /\ s = Fresh(Trace[i])
Step(ns) == /\ s' = ns /\ l' = l + 1
            /\ (ns.viol = s.viol \/ PrintT("VIOL " \o ToString(s.c.t) \o " " \o ToString(l) \o " " \o ToString(ns.viol \ s.viol)))

Set(f, x, v) == [y \in (DOMAIN f) \cup {x} |-> IF y = x THEN v ELSE f[y]]
FreshAt(f, x, t) == x \in DOMAIN f /\ t - f[x] <= c.validity
FreshSet(k, t) == {x[2] : x \in {y \in DOMAIN s.lastAdd : y[1] = k /\ FreshAt(s.lastAdd, y, t)}}

AddStart == Is("AddStart") /\ Step([s EXCEPT !.pending = @ \cup {<<Ev.k, Ev.p>>},
                                                 !.overlap = IF Ev.k \in s.getsOpen THEN @ \cup {<<Ev.k, Ev.p>>} ELSE @])
GetStart == Is("GetStart") /\ Step([s EXCEPT !.getsOpen = @ \cup {Ev.k},
                                                 !.overlap = @ \cup {x \in s.pending : x[1] = Ev.k}])
AddRefused == Is("AddRefused") /\ Step([s EXCEPT !.pending = @ \ {<<Ev.k, Ev.p>>}])
ConcEnd == Is("ConcEnd") /\ Step([s EXCEPT !.pending = {}, !.getsOpen = {}, !.overlap = {}])

Add ==
  /\ Is("Add")
  /\ IF Ev.closed
     THEN Step([s EXCEPT !.viol = @ \cup Flag(Ev.err = "closed", "C07", "d_add_after_close_not_refused")])
     ELSE Step([s EXCEPT
            !.lastAdd = IF Ev.err = "" THEN Set(@, <<Ev.k, Ev.p>>, Ev.ts) ELSE @,
            !.raced = @ \ {<<Ev.k, Ev.p>>},
            !.pending = @ \ {<<Ev.k, Ev.p>>},
            !.viol = @ \cup Flag(Ev.err = "", "C07", "a_add_failed")])

Get ==
  /\ Is("Get")
  /\ IF Ev.closed
     THEN Step([s EXCEPT !.viol = @ \cup Flag(Ev.err = "closed", "C07", "d_get_after_close_not_refused")])
     ELSE LET got == Range(Ev.provs)
              fresh == FreshSet(Ev.k, Ev.ts)
              \* additions that overlapped this query may or may not be visible to it
              conc == {x[2] : x \in {y \in s.overlap \cup s.pending : y[1] = Ev.k}}
              maybe == {x[2] : x \in {y \in s.raced : y[1] = Ev.k}} \cup conc
          IN Step([s EXCEPT !.viol = @
               \cup Flag(Ev.err = "", "C07", "a_get_failed")
               \cup Flag((fresh \ maybe) \subseteq got, "C07", "a_valid_provider_not_returned")
               \cup Flag(got \subseteq fresh \cup conc, "C07", "b_expired_or_unknown_provider_returned")
               \cup Flag(Cardinality(got) = Len(Ev.provs), "C07", "c_duplicate_provider")])

DS ==
  /\ Is("DS")
  /\ LET x == <<Ev.k, Ev.p>> IN
     IF Ev.afterclose THEN Step([s EXCEPT !.viol = @ \cup {<<"C07", "d_datastore_touched_after_close">>}])
     ELSE IF Ev.actor = "gc" /\ Ev.op = "query"
       THEN Step([s EXCEPT !.gcNow = Ev.ts, !.gcSnap = s.lastAdd])
     ELSE IF Ev.op = "delete" /\ Ev.k >= 0 THEN
       IF Ev.actor = "gc"
       THEN \* the sweeper may only delete what its snapshot showed as expired at sweep start
            LET snapExpired == x \in DOMAIN s.gcSnap /\ s.gcNow - s.gcSnap[x] > c.validity
                nowFresh == FreshAt(s.lastAdd, x, Ev.ts)
            IN Step([s EXCEPT
                 !.raced = IF snapExpired /\ nowFresh THEN @ \cup {x} ELSE @,
                 !.viol = @ \cup Flag(snapExpired, "C07", "a_gc_deleted_valid_record")])
       ELSE \* lazy expiry on load: only expired records
            Step([s EXCEPT !.viol = @ \cup Flag(~FreshAt(s.lastAdd, x, Ev.ts), "C07", "a_valid_record_deleted_on_read")])
     ELSE Step(s)

Tick == Is("Tick") /\ Step(s)
Restart == Is("Restart") /\ Step(s)
Close == Is("Close") /\ Step([s EXCEPT !.closed = TRUE])
Stuck == Is("Stuck") /\ Step([s EXCEPT !.viol = @ \cup {<<"C07", "d_goroutines_blocked_forever">>}])
End == Is("End") /\ Step(s)

Next == AddStart \/ GetStart \/ AddRefused \/ ConcEnd \/ Add \/ Get \/ DS \/ Tick \/ Restart \/ Close \/ Stuck \/ End
TraceSpec == Init /\ [][Next]_vars
TraceAccepted == TLCGet("distinct") = NLines
InvC07 == {v \in s.viol : v[1] = "C07"} = {}
=============================================================================
