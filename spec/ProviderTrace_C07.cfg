SPECIFICATION TraceSpec
INVARIANT InvC07
POSTCONDITION TraceAccepted
CHECK_DEADLOCK FALSE
