----------------------------- MODULE PutProvide -----------------------------
(***************************************************************************)
(* PutValue and classic Provide of go-libp2p-kad-dht (routing.go):         *)
(* store locally, run the closest-peers lookup, then send the record /     *)
(* ADD_PROVIDER to every peer the lookup returned, one goroutine per peer, *)
(* each with its own 30 s timeout, and wait for all of them.               *)
(* Classic provide additionally budgets a caller deadline: the lookup gets *)
(* the deadline minus a reserve, and when only that inner deadline expires *)
(* the peers found so far are still used.                                  *)
(* Time is an integer clock; a recipient answers, fails, or hangs.         *)
(***************************************************************************)
EXTENDS Integers, FiniteSets, TLC

CONSTANTS Peers,
          Deadline,    \* 0 = none, else the caller's deadline (ticks)
          LookupTime,  \* set of possible lookup durations
          PerPeerTimeout,
          BugAbortOnFirstFailure, BugSendBeforeStore

Reserve(d) == IF d < 10 THEN (d + 9) \div 10 ELSE 1

VARIABLES pc, now, localStored, result, outcome, sent, done, ret, lookupExceeded
vars == <<pc, now, localStored, result, outcome, sent, done, ret, lookupExceeded>>

Init == /\ pc = "start" /\ now = 0 /\ localStored = FALSE /\ result = {}
        /\ outcome \in [Peers -> {"ok", "fail", "hang"}]
        /\ sent = {} /\ done = {} /\ ret = "none" /\ lookupExceeded = FALSE

Store == /\ pc = "start"
         /\ IF BugSendBeforeStore THEN localStored' = FALSE ELSE localStored' = TRUE
         /\ pc' = "lookup"
         /\ UNCHANGED <<now, result, outcome, sent, done, ret, lookupExceeded>>

\* the lookup returns some set of peers after some time, or is cut by the inner deadline
Lookup ==
  /\ pc = "lookup"
  /\ \E R \in SUBSET Peers, d \in LookupTime :
       LET inner == IF Deadline = 0 THEN 1000 ELSE Deadline - Reserve(Deadline) IN
       /\ result' = R
       /\ IF d <= inner THEN now' = d /\ lookupExceeded' = FALSE
                        ELSE now' = inner /\ lookupExceeded' = TRUE
  /\ pc' = "fanout"
  /\ UNCHANGED <<localStored, outcome, sent, done, ret>>

Send(p) ==
  /\ pc = "fanout" /\ p \in result \ sent
  /\ ~(BugAbortOnFirstFailure /\ \E q \in done : outcome[q] = "fail")
  /\ sent' = sent \cup {p}
  /\ UNCHANGED <<pc, now, localStored, result, outcome, done, ret, lookupExceeded>>

\* a recipient completes: immediately (ok / fail) or at its timeout / the caller's deadline (hang)
Complete(p) ==
  /\ pc = "fanout" /\ p \in sent \ done
  /\ done' = done \cup {p}
  /\ now' = IF outcome[p] = "hang"
            THEN (IF Deadline > 0 /\ Deadline < now + PerPeerTimeout THEN Deadline ELSE now + PerPeerTimeout)
            ELSE now
  /\ UNCHANGED <<pc, localStored, result, outcome, sent, ret, lookupExceeded>>

Return ==
  /\ pc = "fanout" /\ done = sent
  /\ (sent = result \/ (BugAbortOnFirstFailure /\ \E q \in done : outcome[q] = "fail"))
  /\ pc' = "returned"
  /\ ret' = IF lookupExceeded \/ (Deadline > 0 /\ now >= Deadline) THEN "deadline" ELSE "ok"
  /\ localStored' = TRUE
  /\ UNCHANGED <<now, result, outcome, sent, done, lookupExceeded>>

Done == pc = "returned" /\ UNCHANGED vars
Next == Store \/ Lookup \/ (\E p \in Peers : Send(p) \/ Complete(p)) \/ Return \/ Done
Spec == Init /\ [][Next]_vars /\ WF_vars(Next)

LocalBeforeRemote == sent # {} => localStored
RecipientsEqualLookupResult == pc = "returned" => sent = result
FailureIndependence == pc = "returned" => \A p \in result : p \in sent
ReturnsByDeadline == (pc = "returned" /\ Deadline > 0) => now <= Deadline
Termination == <>(pc = "returned")
=============================================================================
