SPECIFICATION Spec
CONSTANTS
  Peers = {"a", "b", "c"}
  Deadline = 5
  LookupTime = {1, 12}
  PerPeerTimeout = 30
  BugAbortOnFirstFailure = FALSE
  BugSendBeforeStore = FALSE
INVARIANTS LocalBeforeRemote RecipientsEqualLookupResult FailureIndependence ReturnsByDeadline
PROPERTY Termination
CHECK_DEADLOCK TRUE
