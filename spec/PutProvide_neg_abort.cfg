SPECIFICATION Spec
CONSTANTS
  Peers = {"a", "b", "c"}
  Deadline = 0
  LookupTime = {1, 12}
  PerPeerTimeout = 30
  BugAbortOnFirstFailure = TRUE
  BugSendBeforeStore = FALSE
INVARIANTS LocalBeforeRemote RecipientsEqualLookupResult FailureIndependence ReturnsByDeadline
PROPERTY Termination
CHECK_DEADLOCK TRUE
