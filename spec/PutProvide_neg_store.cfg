SPECIFICATION Spec
CONSTANTS
  Peers = {"a", "b", "c"}
  Deadline = 0
  LookupTime = {1, 12}
  PerPeerTimeout = 30
  BugAbortOnFirstFailure = FALSE
  BugSendBeforeStore = TRUE
INVARIANTS LocalBeforeRemote RecipientsEqualLookupResult FailureIndependence ReturnsByDeadline

CHECK_DEADLOCK TRUE
