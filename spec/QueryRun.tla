------------------------------ MODULE QueryRun ------------------------------
(* Design model of how one lookup ends (query.go: run, spawnQuery, queryPeer, terminate).        *)
(*                                                                                                *)
(* The lookup loop and its workers talk over ONE buffered channel `ch` of capacity alpha that is  *)
(* never closed.  A worker sends exactly one update and exits; the loop stops reading the channel *)
(* the moment it terminates (end-of-lookup condition, starvation, or cancellation) and then       *)
(* returns through `defer q.waitGroup.Wait()`.  The lookup therefore returns only if every worker *)
(* still in flight can complete its send with NOBODY reading - which holds because the loop never *)
(* has more than alpha peers in state Waiting (maxNumQueriesToSpawn = alpha - NumWaiting) and a   *)
(* peer stays Waiting until its update has been taken out of the channel.                         *)
(*                                                                                                *)
(* Actions are the critical sections of the code:                                                 *)
(*   LoopUpdate    - `case update := <-ch` + updateState + isReadyToTerminate + spawnQuery*        *)
(*   LoopCancelled - `case <-pathCtx.Done()` + terminate                                          *)
(*   Cancel        - the caller's context ends (any time)                                         *)
(*   WorkerSend(p) - queryPeer's single `ch <- update` (dial/RPC outcome abstracted).  The dial   *)
(*                   runs under the path context, which terminate() cancels; the RPC runs under   *)
(*                   the CALLER's context (queryCtx = q.ctx), so after an end-of-lookup           *)
(*                   termination an RPC in flight ends only by its answer or by the message       *)
(*                   sender's own timeout (property C11, Sender.tla).  Weak fairness on           *)
(*                   WorkerSend stands for exactly that assumption.                               *)
(*   Return        - waitGroup.Wait() is over                                                     *)
(* Deviation switches (negative controls): ChanCap # Alpha, SpawnIgnoresWaiting,                  *)
(* WaitsForWorkers = FALSE (the seeded change C03-m6: run returns while workers are in flight).   *)
EXTENDS Naturals, Sequences, FiniteSets

CONSTANTS Peers,               \* remote peers that can be heard of
          Alpha,               \* concurrency
          ChanCap,             \* capacity of ch (as coded: Alpha)
          SpawnIgnoresWaiting, \* TRUE: spawn up to Alpha per round, ignoring NumWaiting
          WaitsForWorkers      \* as coded: TRUE

VARIABLES pc,        \* "select" | "wait" | "returned"
          ch,        \* sequence of updates in the buffer: 0 = seed update, p = update caused by p
          st,        \* peer state in the query peer set: "unknown" "heard" "waiting" "done"
          worker,    \* "none" | "running" | "exited"
          cancelled, \* the caller's / path context is done
          reason     \* "none" | "completed" | "starved" | "cancelled"
vars == <<pc, ch, st, worker, cancelled, reason>>

Self == 0
NumWaiting == Cardinality({p \in Peers : st[p] = "waiting"})
Running == {p \in Peers : worker[p] = "running"}
Min(a, b) == IF a < b THEN a ELSE b

TypeOK ==
  /\ pc \in {"select", "wait", "returned"}
  /\ ch \in Seq(Peers \cup {Self})
  /\ st \in [Peers -> {"unknown", "heard", "waiting", "done"}]
  /\ worker \in [Peers -> {"none", "running", "exited"}]
  /\ cancelled \in BOOLEAN
  /\ reason \in {"none", "completed", "starved", "cancelled"}

Init ==
  /\ pc = "select"
  /\ ch = <<Self>>          \* ch <- &queryUpdate{cause: self, heard: seedPeers}
  /\ st = [p \in Peers |-> "unknown"]
  /\ worker = [p \in Peers |-> "none"]
  /\ cancelled = FALSE
  /\ reason = "none"

Terminate(r) == /\ reason' = r
                /\ cancelled' = TRUE      \* cancel(): abort outstanding queries
                /\ pc' = IF WaitsForWorkers THEN "wait" ELSE "returned"

(* One round of the loop that took an update out of the channel. *)
LoopUpdate ==
  /\ pc = "select" /\ ch # <<>>
  /\ LET c == Head(ch) IN
     \E news \in SUBSET {p \in Peers : st[p] = "unknown"} :
       LET st1 == [p \in Peers |-> IF p = c THEN "done"
                                   ELSE IF p \in news THEN "heard" ELSE st[p]]
           nw  == Cardinality({p \in Peers : st1[p] = "waiting"})
           heard == {p \in Peers : st1[p] = "heard"}
           room == IF SpawnIgnoresWaiting THEN Alpha ELSE Alpha - nw
       IN
       /\ ch' = Tail(ch)
       /\ \/ \* end-of-lookup condition met (abstract: may happen in any round)
             /\ st' = st1 /\ worker' = worker /\ Terminate("completed")
          \/ \* starvation: nothing to ask and nobody asked
             /\ heard = {} /\ nw = 0
             /\ st' = st1 /\ worker' = worker /\ Terminate("starved")
          \/ \* go on: spawn min(room, |heard|) queries
             /\ ~(heard = {} /\ nw = 0)
             /\ \E S \in SUBSET heard :
                  /\ Cardinality(S) = Min(room, Cardinality(heard))
                  /\ st' = [p \in Peers |-> IF p \in S THEN "waiting" ELSE st1[p]]
                  /\ worker' = [p \in Peers |-> IF p \in S THEN "running" ELSE worker[p]]
             /\ UNCHANGED <<pc, cancelled, reason>>

LoopCancelled ==
  /\ pc = "select" /\ cancelled
  /\ Terminate("cancelled")
  /\ UNCHANGED <<ch, st, worker>>

Cancel == /\ ~cancelled /\ pc = "select" /\ cancelled' = TRUE
          /\ UNCHANGED <<pc, ch, st, worker, reason>>

WorkerSend(p) ==
  /\ worker[p] = "running"
  /\ Len(ch) < ChanCap              \* a buffered send blocks when the buffer is full
  /\ ch' = Append(ch, p)
  /\ worker' = [worker EXCEPT ![p] = "exited"]
  /\ UNCHANGED <<pc, st, cancelled, reason>>

Return == /\ pc = "wait" /\ Running = {}
          /\ pc' = "returned"
          /\ UNCHANGED <<ch, st, worker, cancelled, reason>>

Next == LoopUpdate \/ LoopCancelled \/ Cancel \/ Return \/ \E p \in Peers : WorkerSend(p)
Spec == Init /\ [][Next]_vars
FairSpec == Spec /\ WF_vars(LoopUpdate) /\ WF_vars(LoopCancelled) /\ WF_vars(Return)
                 /\ \A p \in Peers : WF_vars(WorkerSend(p))

----
(* Properties *)

\* The loop never has more than alpha queries outstanding.
BoundedConcurrency == NumWaiting <= Alpha /\ Cardinality(Running) <= Alpha

\* Every worker in flight can finish its send even if the loop never reads again.
SendNeverBlocksForever == Len(ch) + Cardinality(Running) <= ChanCap

\* A peer is Waiting exactly while its worker runs or its update sits in the channel.
WaitingMeansOutstanding ==
  \A p \in Peers : st[p] = "waiting" <=>
     (worker[p] = "running" \/ \E i \in 1..Len(ch) : ch[i] = p)

\* Once the lookup has returned no worker of it is still running (C03: a returned operation
\* leaves nothing of the lookup behind; C03-m6 breaks exactly this).
NoWorkerOutlivesTheLookup == pc = "returned" => Running = {}

\* A peer is asked at most once per lookup.
AskedOnce == [][\A p \in Peers : worker[p] # "none" => worker'[p] # "none" /\
                  (worker[p] = "exited" => worker'[p] = "exited")]_vars

\* The lookup always returns (finite swarm; each round consumes an update).
Returns == <>(pc = "returned")
\* ... and after a cancellation it does so without reading the channel again.
CancelledReturns == [](cancelled => <>(pc = "returned"))
=============================================================================
