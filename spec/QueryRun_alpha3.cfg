SPECIFICATION FairSpec
CONSTANTS
  Peers = {1, 2, 3, 4, 5}
  Alpha = 3
  ChanCap = 3
  SpawnIgnoresWaiting = FALSE
  WaitsForWorkers = TRUE
INVARIANTS TypeOK BoundedConcurrency SendNeverBlocksForever WaitingMeansOutstanding NoWorkerOutlivesTheLookup
PROPERTIES AskedOnce Returns CancelledReturns
CHECK_DEADLOCK FALSE
