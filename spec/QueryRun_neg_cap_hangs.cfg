SPECIFICATION FairSpec
CONSTANTS
  Peers = {1, 2, 3, 4}
  Alpha = 2
  ChanCap = 1
  SpawnIgnoresWaiting = FALSE
  WaitsForWorkers = TRUE
INVARIANTS TypeOK
PROPERTIES CancelledReturns
CHECK_DEADLOCK FALSE
