SPECIFICATION Spec
CONSTANTS
  Peers = {1, 2, 3, 4}
  Alpha = 2
  ChanCap = 2
  SpawnIgnoresWaiting = FALSE
  WaitsForWorkers = FALSE
INVARIANTS TypeOK BoundedConcurrency SendNeverBlocksForever WaitingMeansOutstanding NoWorkerOutlivesTheLookup
PROPERTIES AskedOnce 
CHECK_DEADLOCK FALSE
