SPECIFICATION FairSpec
CONSTANTS
  Peers = {1, 2, 3, 4}
  Alpha = 2
  ChanCap = 2
  SpawnIgnoresWaiting = FALSE
  WaitsForWorkers = TRUE
INVARIANTS TypeOK BoundedConcurrency SendNeverBlocksForever WaitingMeansOutstanding NoWorkerOutlivesTheLookup
PROPERTIES AskedOnce Returns CancelledReturns
CHECK_DEADLOCK FALSE
