SPECIFICATION FairSpec
CONSTANTS
  Peers = {1, 2, 3, 4, 5, 6}
  Alpha = 4
  ChanCap = 4
  SpawnIgnoresWaiting = FALSE
  WaitsForWorkers = TRUE
INVARIANTS TypeOK BoundedConcurrency SendNeverBlocksForever WaitingMeansOutstanding NoWorkerOutlivesTheLookup
PROPERTIES AskedOnce Returns CancelledReturns
CHECK_DEADLOCK FALSE
