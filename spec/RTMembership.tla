---------------------------- MODULE RTMembership ----------------------------
(***************************************************************************)
(* Routing-table membership of go-libp2p-kad-dht (C12).                    *)
(*  - admission: identify / protocol events -> validRTPeer (protocol +     *)
(*    filter) -> probe (lookupCheck) -> validPeerFound -> rtPeerLoop       *)
(*    TryAddPeer (the table may refuse for capacity);                      *)
(*  - lookups: a successful query adds, a failed dial/request of an        *)
(*    uncancelled lookup evicts (query.go queryPeer);                      *)
(*  - protocol withdrawal evicts (subscriber_notifee.go);                  *)
(*  - refresh: request/answer handshake of rtrefresh.RtRefreshManager      *)
(*    (Refresh goroutine, loop batching, ping-and-evict, answers, Close).  *)
(* Self is not in Peers: nothing in the model can add it.                  *)
(***************************************************************************)
EXTENDS Integers, FiniteSets, TLC

CONSTANTS Peers, FilterNo, Reqs, MaxEvents,
          BugAddOnConnect, BugEvictOnCancelled, BugDropRequestOnShutdown

VARIABLES speaks, member, answered, probing, \* probing: peer -> "no" | "spk" (sent while advertising) 
          lookup,      \* "idle" | "live" | "cancelled"
          inflight,    \* peers being queried by the lookup
          req,         \* refresh request -> "new" | "waiting" (goroutine started) | "accepted" | "answered"
          loop,        \* "idle" | "batch" | "work" | "exited"
          pinging,     \* members being pinged by the refresh
          shutdown, nev, mustGo
vars == <<speaks, member, answered, probing, lookup, inflight, req, loop, pinging, shutdown, nev, mustGo>>

Init == /\ speaks = {} /\ member = {} /\ answered = {} /\ probing = [p \in Peers |-> "no"]
        /\ lookup = "idle" /\ inflight = {} /\ req = [r \in Reqs |-> "new"]
        /\ loop = "idle" /\ pinging = {} /\ shutdown = FALSE /\ nev = 0 /\ mustGo = {}

Tick == nev < MaxEvents /\ nev' = nev + 1

\* ---- identify / protocol events (subscriber goroutine) ----------------
PeerEvent(p, sp) ==
  /\ Tick /\ ~shutdown
  /\ speaks' = IF sp THEN speaks \cup {p} ELSE speaks \ {p}
  /\ IF sp /\ p \notin FilterNo
     THEN /\ probing' = IF p \notin member /\ probing[p] = "no" THEN [probing EXCEPT ![p] = "spk"] ELSE probing
          /\ member' = IF BugAddOnConnect THEN member \cup {p} ELSE member
          /\ mustGo' = mustGo
     ELSE /\ member' = member \ {p} /\ probing' = probing /\ mustGo' = mustGo \ {p}
  /\ UNCHANGED <<answered, lookup, inflight, req, loop, pinging, shutdown>>

\* the probe returns; on success the table may still refuse the peer (capacity)
ProbeDone(p, ok) ==
  /\ probing[p] # "no"
  /\ probing' = [probing EXCEPT ![p] = "no"]
  /\ IF ok /\ ~shutdown
     THEN /\ answered' = answered \cup {p}
          /\ \E accept \in BOOLEAN : member' = IF accept THEN member \cup {p} ELSE member
     ELSE member' = member /\ answered' = answered
  /\ UNCHANGED <<speaks, lookup, inflight, req, loop, pinging, shutdown, nev, mustGo>>

\* ---- lookups -------------------------------------------------------------
LookupStart == /\ Tick /\ lookup = "idle" /\ ~shutdown /\ lookup' = "live"
               /\ UNCHANGED <<speaks, member, answered, probing, inflight, req, loop, pinging, shutdown, mustGo>>
Ask(p) == /\ lookup = "live" /\ p \notin inflight /\ Cardinality(inflight) < 2
          /\ inflight' = inflight \cup {p}
          /\ UNCHANGED <<speaks, member, answered, probing, lookup, req, loop, pinging, shutdown, nev, mustGo>>
CancelLookup == /\ lookup = "live" /\ lookup' = "cancelled"
                /\ UNCHANGED <<speaks, member, answered, probing, inflight, req, loop, pinging, shutdown, nev, mustGo>>
QueryDone(p, ok) ==
  /\ p \in inflight /\ inflight' = inflight \ {p}
  /\ IF ok /\ lookup = "live"
     THEN /\ answered' = answered \cup {p}
          /\ \E accept \in BOOLEAN : member' = IF accept /\ ~shutdown THEN member \cup {p} ELSE member
          /\ mustGo' = mustGo
     ELSE IF ~ok /\ (lookup = "live" \/ BugEvictOnCancelled)
          THEN member' = member \ {p} /\ answered' = answered /\ mustGo' = mustGo \ {p}
          ELSE member' = member /\ answered' = answered /\ mustGo' = mustGo
  /\ UNCHANGED <<speaks, probing, lookup, req, loop, pinging, shutdown, nev>>
LookupEnd == /\ lookup \in {"live", "cancelled"} /\ inflight = {} /\ lookup' = "idle"
             /\ UNCHANGED <<speaks, member, answered, probing, inflight, req, loop, pinging, shutdown, nev, mustGo>>

\* ---- refresh request / answer handshake ---------------------------------
\* Refresh(): a goroutine is started that offers the request to the loop
Request(r) == /\ Tick /\ req[r] = "new" /\ req' = [req EXCEPT ![r] = "waiting"]
              /\ UNCHANGED <<speaks, member, answered, probing, lookup, inflight, loop, pinging, shutdown, mustGo>>
\* the loop receives it (first select, or the non-blocking batch drain)
Accept(r) == /\ req[r] = "waiting" /\ loop \in {"idle", "batch"}
             /\ (loop = "idle" => ~shutdown \/ TRUE)
             /\ req' = [req EXCEPT ![r] = "accepted"] /\ loop' = "batch"
             /\ UNCHANGED <<speaks, member, answered, probing, lookup, inflight, pinging, shutdown, nev, mustGo>>
\* the request goroutine sees the cancelled context first and answers itself
SelfAnswer(r) == /\ req[r] = "waiting" /\ shutdown
                 /\ req' = [req EXCEPT ![r] = IF BugDropRequestOnShutdown THEN "dropped" ELSE "answered"]
                 /\ UNCHANGED <<speaks, member, answered, probing, lookup, inflight, loop, pinging, shutdown, nev, mustGo>>
\* batch drained: ping stale members, then refresh
StartWork == /\ loop = "batch" /\ loop' = "work" /\ pinging' = member
             /\ UNCHANGED <<speaks, member, answered, probing, lookup, inflight, req, shutdown, nev, mustGo>>
PingDone(p, ok) ==
  /\ loop = "work" /\ p \in pinging /\ pinging' = pinging \ {p}
  /\ member' = IF ok THEN member ELSE member \ {p}
  /\ UNCHANGED <<speaks, answered, probing, lookup, inflight, req, loop, shutdown, nev, mustGo>>
\* doRefresh returned (result or context error): every waiting requester gets it
FinishWork == /\ loop = "work" /\ pinging = {}
              /\ req' = [r \in Reqs |-> IF req[r] = "accepted" THEN "answered" ELSE req[r]]
              /\ loop' = "idle"
              /\ UNCHANGED <<speaks, member, answered, probing, lookup, inflight, pinging, shutdown, nev, mustGo>>
LoopExit == /\ loop = "idle" /\ shutdown /\ loop' = "exited"
            /\ UNCHANGED <<speaks, member, answered, probing, lookup, inflight, req, pinging, shutdown, nev, mustGo>>
Shutdown == /\ ~shutdown /\ shutdown' = TRUE
            /\ lookup' = IF lookup = "live" THEN "cancelled" ELSE lookup
            /\ UNCHANGED <<speaks, member, answered, probing, inflight, req, loop, pinging, nev, mustGo>>

Next == \/ \E p \in Peers, b \in BOOLEAN : PeerEvent(p, b) \/ ProbeDone(p, b) \/ QueryDone(p, b) \/ PingDone(p, b)
        \/ \E p \in Peers : Ask(p)
        \/ LookupStart \/ CancelLookup \/ LookupEnd
        \/ \E r \in Reqs : Request(r) \/ Accept(r) \/ SelfAnswer(r)
        \/ StartWork \/ FinishWork \/ LoopExit \/ Shutdown
        \/ UNCHANGED vars
Fair == /\ WF_vars(\E p \in Peers, b \in BOOLEAN : ProbeDone(p, b) \/ QueryDone(p, b) \/ PingDone(p, b))
        /\ WF_vars(LookupEnd) /\ WF_vars(StartWork) /\ WF_vars(FinishWork) /\ WF_vars(LoopExit)
        /\ \A r \in Reqs : WF_vars(Accept(r) \/ SelfAnswer(r))
        /\ WF_vars(Shutdown)
Spec == Init /\ [][Next]_vars /\ Fair

MemberImpliesAnswered == member \subseteq answered
NoFilteredViaProbe == TRUE
NoRequestLost == \A r \in Reqs : req[r] # "dropped"
\* every refresh request receives an answer, also during shutdown
EveryRefreshAnswered == \A r \in Reqs : (req[r] = "waiting") ~> (req[r] = "answered")
LoopEventuallyExits == <>(loop = "exited")
\* an uncancelled lookup failure / failed ping / protocol withdrawal leaves the peer out
WithdrawnLeaves == [][\A p \in Peers : (p \in speaks /\ p \notin speaks') => p \notin member']_vars
FailedQueryLeaves == [][\A p \in Peers : (p \in inflight /\ p \notin inflight' /\ lookup = "live" /\ p \in member /\ p \in member') => p \in answered']_vars
CancelDoesNotEvict == [][\A p \in Peers : (p \in inflight /\ p \notin inflight' /\ lookup = "cancelled") => (p \in member <=> p \in member')]_vars
=============================================================================
