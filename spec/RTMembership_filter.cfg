SPECIFICATION Spec
CONSTANTS
  Peers = {"a", "b"}
  FilterNo = {"b"}
  Reqs = {"r1"}
  MaxEvents = 5
  BugAddOnConnect = FALSE
  BugEvictOnCancelled = FALSE
  BugDropRequestOnShutdown = FALSE
INVARIANTS MemberImpliesAnswered NoRequestLost
PROPERTIES EveryRefreshAnswered LoopEventuallyExits WithdrawnLeaves CancelDoesNotEvict
CHECK_DEADLOCK FALSE
