SPECIFICATION Spec
CONSTANTS
  Peers = {"a", "b"}
  FilterNo = {}
  Reqs = {"r1"}
  MaxEvents = 2
  BugAddOnConnect = TRUE
  BugEvictOnCancelled = FALSE
  BugDropRequestOnShutdown = FALSE
INVARIANTS MemberImpliesAnswered NoRequestLost
PROPERTIES EveryRefreshAnswered LoopEventuallyExits WithdrawnLeaves CancelDoesNotEvict
CHECK_DEADLOCK FALSE
