SPECIFICATION Spec
CONSTANTS
  Peers = {"a", "b"}
  FilterNo = {}
  Reqs = {"r1"}
  MaxEvents = 3
  BugAddOnConnect = FALSE
  BugEvictOnCancelled = TRUE
  BugDropRequestOnShutdown = FALSE
INVARIANTS MemberImpliesAnswered NoRequestLost
PROPERTIES EveryRefreshAnswered LoopEventuallyExits WithdrawnLeaves CancelDoesNotEvict
CHECK_DEADLOCK FALSE
