SPECIFICATION Spec
CONSTANTS
  Peers = {"a", "b"}
  FilterNo = {}
  Reqs = {"r1"}
  MaxEvents = 2
  BugAddOnConnect = FALSE
  BugEvictOnCancelled = FALSE
  BugDropRequestOnShutdown = TRUE
INVARIANTS MemberImpliesAnswered NoRequestLost
PROPERTIES EveryRefreshAnswered LoopEventuallyExits WithdrawnLeaves CancelDoesNotEvict
CHECK_DEADLOCK FALSE
