SPECIFICATION Spec
CONSTANTS
  Peers = {"a", "b"}
  FilterNo = {}
  Reqs = {"r1", "r2"}
  MaxEvents = 4
  BugAddOnConnect = FALSE
  BugEvictOnCancelled = FALSE
  BugDropRequestOnShutdown = FALSE
INVARIANTS MemberImpliesAnswered NoRequestLost
PROPERTIES EveryRefreshAnswered LoopEventuallyExits WithdrawnLeaves CancelDoesNotEvict
CHECK_DEADLOCK FALSE
