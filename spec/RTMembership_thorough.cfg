SPECIFICATION Spec
CONSTANTS
  Peers = {"a", "b"}
  FilterNo = {}
  Reqs = {"r1", "r2"}
  MaxEvents = 6
  BugAddOnConnect = FALSE
  BugEvictOnCancelled = FALSE
  BugDropRequestOnShutdown = FALSE
INVARIANTS MemberImpliesAnswered NoRequestLost
PROPERTIES EveryRefreshAnswered LoopEventuallyExits WithdrawnLeaves CancelDoesNotEvict
CHECK_DEADLOCK FALSE
