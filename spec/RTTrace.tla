------------------------------ MODULE RTTrace ------------------------------
(***************************************************************************)
(* Property-level trace specification for routing-table membership (C12),  *)
(* validated against traces of the real IpfsDHT recorded by                *)
(* harness/drivers/rt_test.go.  Peers are numbered 1..N, 0 is the node     *)
(* itself.  "Q" lines are quiescent points and carry the routing table.    *)
(* Actions reconstruct what the node has observed about each peer; clauses *)
(* are judged at quiescent points.                                         *)
(***************************************************************************)
EXTENDS Integers, Sequences, FiniteSets, TLC, Json, IOUtils

Trace == ndJsonDeserialize(IOEnv.VERIF_TRACE)
NLines == Len(Trace)
VARIABLES l, s
vars == <<l, s>>
Range(f) == {f[i] : i \in DOMAIN f}

Fresh(run) == [
  c         |-> run,
  member    |-> Range(run.rt),  \* table at the last quiescent point
  okLookup  |-> Range(run.rt),  \* peers that answered a lookup / refresh query (seeded peers are given)
  okProbe   |-> {},             \* peers that answered the admission probe, having advertised the protocol and passing the filter when it was sent
  speaks    |-> {},             \* peers currently advertising the protocol
  probeSpk  |-> {},             \* peers whose in-flight probe was sent while they advertised the protocol
  nPing     |-> [p \in 0..run.N |-> 0],   \* liveness pings in flight per peer (probe sent while the peer was in the table)
  nAdm      |-> [p \in 0..run.N |-> 0],   \* admission probes in flight per peer (probe sent while it was not)
  mustGo    |-> {},
  cutShort  |-> {},             \* members whose dial / request was cut by a context since the last quiescent point
  failedNow |-> {},             \* peers with a failure delivered since the last quiescent point
  admitted  |-> FALSE,          \* (unused)             \* members that have to be gone at the next quiescent point
  lkLive    |-> FALSE,          \* a user lookup is in its search phase and not cancelled
  refreshOpen |-> {},           \* refresh requests not answered yet
  closed    |-> FALSE,
  viol      |-> {} ]

c == s.c
Ev == Trace[l]
Is(e) == l <= NLines /\ Ev.e = e
Flag(b, prop, id) == IF b THEN {} ELSE {<<prop, id>>}
ResetLines == {i \in 1..NLines : Trace[i].e = "Reset"}
Init == \E i \in ResetLines : l = i + 1 /\ s = Fresh(Trace[i])
Step(ns) == /\ s' = ns /\ l' = l + 1
            /\ (ns.viol = s.viol \/ PrintT("VIOL " \o ToString(s.c.t) \o " " \o ToString(l) \o " " \o ToString(ns.viol \ s.viol)))

FilterOK(p) == p \notin Range(c.filterno)

Ext ==
  /\ Is("Ext")
  /\ LET k == Ev.kind IN
     Step([s EXCEPT
       !.speaks = IF k \in {"identify", "proto"} THEN (IF Ev.speaks THEN @ \cup {Ev.p} ELSE @ \ {Ev.p}) ELSE @,
       \* a peer reported as no longer supporting the protocol is removed
       !.mustGo = IF k \in {"identify", "proto"} /\ ~Ev.speaks /\ Ev.p \in s.member /\ ~s.closed THEN @ \cup {Ev.p} ELSE @,
       !.lkLive = IF k = "lookup" THEN TRUE ELSE IF k = "cancel" THEN FALSE ELSE @,
       !.refreshOpen = IF k = "refresh" THEN @ \cup {Ev.id} ELSE @,
       !.closed = @ \/ k = "close"])

IsMemberAtSend == IF "member" \in DOMAIN Ev THEN Ev.member ELSE Ev.p \in s.member
Dec(f, p) == [f EXCEPT ![p] = IF @ > 0 THEN @ - 1 ELSE 0]
Sent ==
  /\ Is("Sent")
  /\ Step([s EXCEPT
       !.probeSpk = IF Ev.kind = "req" /\ Ev.cls = "probe"
                    THEN (IF Ev.speaks /\ FilterOK(Ev.p) THEN @ \cup {Ev.p} ELSE @ \ {Ev.p}) ELSE @,
       \* A probe to a peer that is in the table when the request leaves is a liveness ping, otherwise an admission
       \* probe (the driver reads the table at that instant; membership at the last quiescent point can be stale).
       \* Several probes to one peer can be in flight; answers and timeouts do not say which probe they belong to,
       \* so they are attributed in the way that obliges the node least: a failure to an admission probe if one is
       \* in flight, a success to a ping if one is in flight.
       !.nPing = IF Ev.kind = "req" /\ Ev.cls = "probe" /\ IsMemberAtSend THEN [@ EXCEPT ![Ev.p] = @ + 1] ELSE @,
       !.nAdm = IF Ev.kind = "req" /\ Ev.cls = "probe" /\ ~IsMemberAtSend THEN [@ EXCEPT ![Ev.p] = @ + 1] ELSE @])

\* a probe answer naming nobody is a failure once the table holds K peers
ProbeOK(ev) == ev.out = "ok" /\ (ev.named > 0 \/ Cardinality(s.member) < c.K)

Deliver ==
  /\ Is("Deliver")
  /\ LET p == Ev.p
         isProbe == Ev.kind = "req" /\ Ev.cls = "probe"
         isLk == Ev.kind = "dial" \/ (Ev.kind = "req" /\ Ev.cls = "lookup")
         okQ == Ev.kind = "req" /\ Ev.cls \in {"lookup", "refresh"} /\ Ev.out = "ok"
         okP == isProbe /\ ProbeOK(Ev) /\ p \in s.probeSpk
         \* failures that oblige the node to evict a member
         lkFail == isLk /\ Ev.out # "ok" /\ s.lkLive /\ Ev.cls # "refresh"
         probeFail == isProbe /\ ~ProbeOK(Ev)
         pingFail == probeFail /\ p \in s.member /\ s.nAdm[p] = 0 /\ s.nPing[p] > 0
     IN Step([s EXCEPT
          !.failedNow = IF Ev.out # "ok" \/ (isProbe /\ ~ProbeOK(Ev)) THEN @ \cup {p} ELSE @,
          !.okLookup = IF okQ THEN @ \cup {p} ELSE @,
          !.okProbe = IF okP THEN @ \cup {p} ELSE @,
          !.nAdm = IF isProbe /\ (probeFail \/ s.nPing[p] = 0) THEN Dec(@, p) ELSE @,
          !.nPing = IF isProbe /\ ~(probeFail \/ s.nPing[p] = 0) THEN Dec(@, p)
                    ELSE IF isProbe /\ probeFail /\ s.nAdm[p] = 0 THEN Dec(@, p) ELSE @,
          !.mustGo = IF (lkFail \/ pingFail) /\ p \in s.member /\ ~s.closed THEN @ \cup {p} ELSE @])

LTerm == Is("LTerm") /\ Step([s EXCEPT !.lkLive = FALSE])
LookupEnd == Is("LookupEnd") /\ Step([s EXCEPT !.lkLive = FALSE])
\* a dial / request that ends because the operation's own timeout expired is a failure of
\* the peer (a timed-out liveness ping of a member obliges eviction); one that ends because
\* the caller or the lookup itself cancelled it is not
Abort ==
  /\ Is("Abort")
  /\ IF Ev.why = "deadline"
     THEN LET isProbe == Ev.kind = "req" /\ Ev.cls = "probe"
              pingFail == isProbe /\ Ev.p \in s.member /\ s.nAdm[Ev.p] = 0 /\ s.nPing[Ev.p] > 0 IN
          Step([s EXCEPT
            !.failedNow = @ \cup {Ev.p},
            !.nAdm = IF isProbe THEN Dec(@, Ev.p) ELSE @,
            !.nPing = IF isProbe /\ s.nAdm[Ev.p] = 0 THEN Dec(@, Ev.p) ELSE @,
            !.mustGo = IF pingFail /\ ~s.closed THEN @ \cup {Ev.p} ELSE @])
     ELSE LET isProbe == Ev.kind = "req" /\ Ev.cls = "probe" IN
          Step([s EXCEPT !.cutShort = IF Ev.p \in s.member THEN @ \cup {Ev.p} ELSE @,
                         !.nAdm = IF isProbe THEN Dec(@, Ev.p) ELSE @,
                         !.nPing = IF isProbe /\ s.nAdm[Ev.p] = 0 THEN Dec(@, Ev.p) ELSE @])

RefreshAns ==
  /\ Is("RefreshAns")
  /\ Step([s EXCEPT !.refreshOpen = @ \ {Ev.id},
                    !.viol = @ \cup Flag(~Ev.closed, "C12", "d_refresh_channel_closed_without_answer")])

Quiesce ==
  /\ Is("Q")
  /\ LET rt == Range(Ev.rt)
         new == rt \ s.member
     IN Step([s EXCEPT
          !.member = rt,
          !.mustGo = {},
          !.cutShort = {},
          !.failedNow = {},
          \* a dial during a refresh cannot be attributed to a lookup phase; lookups of
          \* the refresh are not judged (mustGo only holds user-lookup and ping failures)
          !.viol = @
            \cup Flag(\A p \in new : p \in s.okLookup \/ p \in s.okProbe, "C12", "a_member_never_answered")
            \cup Flag(0 \notin rt, "C12", "b_self_is_member")
            \cup Flag(s.mustGo \cap rt = {}, "C12", "c_failed_member_not_removed")
            \* a dial / request cut by cancellation or by the lookup's own termination is not
            \* a failure of the peer: it must not cost the member its place (the table did not
            \* admit anybody in this interval, so it is not a capacity replacement either)
            \cup Flag(s.closed \/ new # {} \/
                      ((s.cutShort \ s.failedNow) \ s.mustGo) \subseteq rt,
                      "C12", "c_member_evicted_by_cancelled_request")])

Closed ==
  /\ Is("Closed")
  /\ Step([s EXCEPT !.viol = @ \cup Flag(Len(Ev.openrefresh) = 0 /\ s.refreshOpen = {}, "C12", "d_refresh_request_never_answered")
                               \cup Flag(Ev.ok, "C12", "d_close_blocked")])
Hang == Is("Hang") /\ Step([s EXCEPT !.viol = @ \cup {<<"C12", "d_refresh_or_lookup_hangs">>}])
Stuck == Is("Stuck") /\ Step([s EXCEPT !.viol = @ \cup {<<"C12", "d_goroutines_blocked_forever">>}])
End == Is("End") /\ Step(s)

Next == Ext \/ Sent \/ Deliver \/ LTerm \/ LookupEnd \/ Abort \/ RefreshAns \/ Quiesce \/ Closed \/ Hang \/ Stuck \/ End
TraceSpec == Init /\ [][Next]_vars
TraceAccepted == TLCGet("distinct") = NLines
InvC12 == {v \in s.viol : v[1] = "C12"} = {}
=============================================================================
