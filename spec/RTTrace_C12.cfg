SPECIFICATION TraceSpec
INVARIANT InvC12
POSTCONDITION TraceAccepted
CHECK_DEADLOCK FALSE
