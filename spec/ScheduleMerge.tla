--------------------------- MODULE ScheduleMerge ---------------------------
(***************************************************************************)
(* The reprovide schedule of the sweeping provider under region merges     *)
(* (provider/provider.go handleReprovide / batchReprovide /                *)
(* reschedulePrefix / unscheduleSubsumedPrefixes), reduced to what decides *)
(* the deadline "a key is re-advertised at most interval + max delay after *)
(* its previous advertisement".                                            *)
(*                                                                         *)
(* Keyspace: bit strings of length Depth; the schedule holds prefixes of   *)
(* length Depth (one region per leaf) or their parents after a merge; a    *)
(* prefix p is due at offset Slot(p) within every cycle of length Cycle.   *)
(* When a due prefix is explored, the swarm decides whether the prefix     *)
(* itself can be covered or only its parent (too few peers under it): the  *)
(* covered prefix is reprovided (all keys under it), scheduled at its own  *)
(* slot of the next cycle, and every scheduled prefix it subsumes is       *)
(* removed from the schedule.  Two ways of replacing scheduled prefixes by *)
(* a shorter one do not advertise the keys of the replaced prefixes:       *)
(*  - WidenIndividual: a region of one or two keys is reprovided key by    *)
(*    key, and the prefix covered by the one key's lookup was adopted also *)
(*    when it was shorter (finding D19, repaired: FALSE is the code now);  *)
(*  - MergeOnStart: a key is started whose prefix of the current average   *)
(*    length is shorter than scheduled prefixes under it (finding D23,     *)
(*    pinned by the repository's tests: TRUE is the code).                 *)
(* The library forgets the due times of the removed prefixes               *)
(* (InheritEarliestDue = FALSE); with InheritEarliestDue = TRUE the merged *)
(* prefix takes over the earliest of them, which restores the deadline.    *)
(***************************************************************************)
EXTENDS Integers, Sequences, FiniteSets, TLC

CONSTANTS Depth,               \* length of the leaf prefixes (2 or 3)
          Cycle,               \* reprovide interval in ticks (a multiple of the number of leaves)
          MaxDelay,            \* allowed delay in ticks
          Horizon,             \* ticks explored
          InheritEarliestDue, WidenIndividual, MergeOnStart

Bits == {0, 1}
Leaves == [1..Depth -> Bits]
Parents == [1..(Depth - 1) -> Bits]
IsPrefix(p, q) == Len(p) <= Len(q) /\ \A i \in 1..Len(p) : p[i] = q[i]
Parent(p) == SubSeq(p, 1, Len(p) - 1)
\* position of a prefix in the cycle: the value of its bits, scaled to the cycle (a parent sits at the slot
\* of its first leaf)
RECURSIVE Val(_)
Val(p) == IF p = <<>> THEN 0 ELSE 2 * Val(SubSeq(p, 1, Len(p) - 1)) + p[Len(p)]
NLeaves == 2 ^ Depth
Slot(p) == (Val(p) * (2 ^ (Depth - Len(p)))) * (Cycle \div NLeaves)

VARIABLES now, due, last, keys
vars == <<now, due, last, keys>>
\* due: function from scheduled prefixes to the tick at which they are due; last: per leaf, the tick of the
\* last advertisement of its keys; keys: the leaves that hold kept keys
Init == /\ now = 0
        /\ keys \in (SUBSET Leaves) \ {{}}
        /\ due = [p \in keys |-> Slot(p)]
        /\ last = [p \in Leaves |-> 0]

Scheduled == DOMAIN due
DueNow == {p \in Scheduled : due[p] = now}

\* the next occurrence of the prefix's slot strictly after now
NextSlot(p) == LET base == (now \div Cycle) * Cycle + Slot(p) IN IF base > now THEN base ELSE base + Cycle
Earliest(S) == CHOOSE d \in S : \A e \in S : d <= e

Reprovide(p, c, path) ==
  \* p is due; c (p itself, or its parent when too few peers match p) is what the exploration covers
  /\ p \in DueNow /\ c \in {p} \cup (IF Len(p) = Depth THEN {Parent(p)} ELSE {})
  /\ path \in {"batch", "individual"}
  /\ (path = "individual" /\ ~WidenIndividual) => c = p
  /\ LET subsumed == {q \in Scheduled : IsPrefix(c, q)}
         dues == {due[q] : q \in subsumed \ {p}} \cup {NextSlot(c)}
         when == IF InheritEarliestDue THEN Earliest(dues) ELSE NextSlot(c)
         advertised == IF path = "batch" THEN c ELSE p
     IN /\ last' = [l \in Leaves |-> IF IsPrefix(advertised, l) THEN now ELSE last[l]]
        /\ due' = [q \in (Scheduled \ subsumed) \cup {c} |-> IF q = c THEN when ELSE due[q]]
  /\ UNCHANGED <<now, keys>>

\* A key is started in a leaf l that holds none yet; it is advertised now.  If a scheduled prefix covers l nothing
\* else changes.  Otherwise a prefix of the current average length enters the schedule: the leaf itself, or
\* (MergeOnStart) its parent c, which replaces the leaves scheduled under it - nothing is advertised for their keys.
StartKey(l, c) ==
  /\ l \in Leaves \ keys /\ c \in {l, Parent(l)}
  /\ keys' = keys \cup {l}
  /\ last' = [last EXCEPT ![l] = now]
  /\ IF \E q \in Scheduled : IsPrefix(q, l)
     THEN c = l /\ UNCHANGED due
     ELSE /\ (c # l) => MergeOnStart
          /\ LET subsumed == {q \in Scheduled : IsPrefix(c, q)}
                 dues == {due[q] : q \in subsumed} \cup {NextSlot(c)}
                 when == IF InheritEarliestDue THEN Earliest(dues) ELSE NextSlot(c)
             IN due' = [q \in (Scheduled \ subsumed) \cup {c} |-> IF q = c THEN when ELSE due[q]]
  /\ UNCHANGED now

Tick == /\ DueNow = {} /\ now < Horizon /\ now' = now + 1 /\ UNCHANGED <<due, last, keys>>

Next == \/ Tick
        \/ \E l \in Leaves : \E c \in Leaves \cup Parents : StartKey(l, c)
        \/ \E p \in Scheduled : \E c \in Leaves \cup Parents : \E path \in {"batch", "individual"} : Reprovide(p, c, path)
Spec == Init /\ [][Next]_vars

\* every leaf with keys is covered by exactly one scheduled prefix
Covered == \A l \in keys : Cardinality({p \in Scheduled : IsPrefix(p, l)}) = 1
\* the documented bound
Deadline == \A l \in keys : now - last[l] <= Cycle + MaxDelay
\* what still holds in the library: never later than one further cycle
TwoCycles == \A l \in keys : now - last[l] <= 2 * Cycle + MaxDelay
=============================================================================
