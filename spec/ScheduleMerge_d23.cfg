SPECIFICATION Spec
CONSTANTS
  Depth = 2
  Cycle = 8
  MaxDelay = 2
  Horizon = 40
  InheritEarliestDue = FALSE
  WidenIndividual = FALSE
  MergeOnStart = TRUE
INVARIANTS Covered Deadline
CHECK_DEADLOCK FALSE
