SPECIFICATION Spec
CONSTANTS
  Depth = 2
  Cycle = 8
  MaxDelay = 2
  Horizon = 40
  InheritEarliestDue = TRUE
  WidenIndividual = TRUE
  MergeOnStart = TRUE
INVARIANTS Covered Deadline TwoCycles
CHECK_DEADLOCK FALSE
