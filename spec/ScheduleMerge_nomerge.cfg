SPECIFICATION Spec
CONSTANTS
  Depth = 2
  Cycle = 8
  MaxDelay = 2
  Horizon = 40
  InheritEarliestDue = FALSE
  WidenIndividual = FALSE
  MergeOnStart = FALSE
INVARIANTS Covered Deadline TwoCycles
CHECK_DEADLOCK FALSE
