------------------------------- MODULE Sender -------------------------------
(***************************************************************************)
(* The message sender (internal/net/message_manager.go): requests to one   *)
(* remote peer from concurrent callers.  One sender object per peer holds  *)
(* a context-aware lock and at most one stream; an exchange is             *)
(*   lock; (open stream if none); write; read one message bounded by a     *)
(*   timeout and the caller's context; on any failure reset+drop the       *)
(*   stream, retry once (not after cancellation); unlock.                  *)
(* The remote answers each request it has read on a stream at any later    *)
(* time, or never; replies on a stream arrive in the order sent; a reply   *)
(* written to a stream the local side has reset is lost.  A disconnect     *)
(* notification replaces the sender object; the old one is invalidated     *)
(* (its stream reset) as soon as its lock is free.                         *)
(***************************************************************************)
EXTENDS Integers, Sequences, FiniteSets, TLC

CONSTANTS Callers, MaxStreams, MaxDisconnects,
          BugReuseAfterTimeout,  \* a stream is kept after a read timeout
          BugNoLock,             \* exchanges are not serialized
          BugReuseAfterCancel    \* a stream is kept after a cancelled read

None == 0
VARIABLES pc,        \* per caller: "idle" | "waitlock" | "locked" | "written" | "done"
          tries,     \* per caller: exchanges attempted
          onobj,     \* per caller: the sender object it uses
          result,    \* per caller: None, -1 for an error, or the id the returned reply answers
          obj,       \* current sender object id
          holder,    \* per sender object: the callers holding its lock (a set; at most one unless BugNoLock)
          stream,    \* per sender object: its stream id or None
          invalid,   \* set of invalidated sender objects
          nstreams, ndisc,
          inflight,  \* per stream: sequence of request ids the remote has read and not answered
          pipe,      \* per stream: sequence of reply ids written by the remote and not yet read
          dead       \* streams reset by the local side
vars == <<pc, tries, onobj, result, obj, holder, stream, invalid, nstreams, ndisc, inflight, pipe, dead>>

Objs == 1..(MaxDisconnects + 1)
SIds == 1..MaxStreams

Init == /\ pc = [c \in Callers |-> "idle"] /\ tries = [c \in Callers |-> 0]
        /\ onobj = [c \in Callers |-> None] /\ result = [c \in Callers |-> None]
        /\ obj = 1 /\ holder = [o \in Objs |-> {}] /\ stream = [o \in Objs |-> None]
        /\ invalid = {} /\ nstreams = 0 /\ ndisc = 0
        /\ inflight = [s \in SIds |-> <<>>] /\ pipe = [s \in SIds |-> <<>>] /\ dead = {}

\* the caller finds the current sender object in the map
Start(c) == /\ pc[c] = "idle"
            /\ pc' = [pc EXCEPT ![c] = "waitlock"] /\ onobj' = [onobj EXCEPT ![c] = obj]
            /\ UNCHANGED <<tries, result, obj, holder, stream, invalid, nstreams, ndisc, inflight, pipe, dead>>

Lock(c) == /\ pc[c] = "waitlock"
           /\ holder[onobj[c]] = {} \/ BugNoLock
           /\ holder' = [holder EXCEPT ![onobj[c]] = @ \cup {c}]
           /\ pc' = [pc EXCEPT ![c] = "locked"]
           /\ UNCHANGED <<tries, onobj, result, obj, stream, invalid, nstreams, ndisc, inflight, pipe, dead>>

Fail(c) == /\ holder' = [holder EXCEPT ![onobj[c]] = @ \ {c}]
           /\ pc' = [pc EXCEPT ![c] = "done"] /\ result' = [result EXCEPT ![c] = -1]

\* prep + write: an invalidated object fails; a stream is opened if there is none
Write(c) ==
  /\ pc[c] = "locked"
  /\ LET o == onobj[c] IN
     IF o \in invalid \/ (stream[o] = None /\ nstreams = MaxStreams)
     THEN Fail(c) /\ UNCHANGED <<tries, onobj, obj, stream, invalid, nstreams, ndisc, inflight, pipe, dead>>
     ELSE LET s == IF stream[o] = None THEN nstreams + 1 ELSE stream[o] IN
          /\ stream' = [stream EXCEPT ![o] = s]
          /\ nstreams' = IF stream[o] = None THEN nstreams + 1 ELSE nstreams
          /\ inflight' = [inflight EXCEPT ![s] = Append(@, c)]
          /\ tries' = [tries EXCEPT ![c] = @ + 1]
          /\ pc' = [pc EXCEPT ![c] = "written"]
          /\ UNCHANGED <<onobj, result, obj, holder, invalid, ndisc, pipe, dead>>

\* the remote answers some request it has read on s (any order, any time)
Reply(s) == /\ inflight[s] # <<>>
            /\ \E i \in DOMAIN inflight[s] :
                 /\ inflight' = [inflight EXCEPT ![s] = SubSeq(@, 1, i - 1) \o SubSeq(@, i + 1, Len(@))]
                 /\ pipe' = [pipe EXCEPT ![s] = IF s \in dead THEN @ ELSE Append(@, inflight[s][i])]
            /\ UNCHANGED <<pc, tries, onobj, result, obj, holder, stream, invalid, nstreams, ndisc, dead>>

\* the caller reads the next message on its object's stream
ReadOK(c) == /\ pc[c] = "written"
             /\ LET o == onobj[c]
                    s == stream[o] IN
                /\ s # None /\ s \notin dead /\ pipe[s] # <<>>
                /\ result' = [result EXCEPT ![c] = Head(pipe[s])]
                /\ pipe' = [pipe EXCEPT ![s] = Tail(@)]
                /\ holder' = [holder EXCEPT ![o] = @ \ {c}]
                /\ pc' = [pc EXCEPT ![c] = "done"]
             /\ UNCHANGED <<tries, onobj, obj, stream, invalid, nstreams, ndisc, inflight, dead>>

\* timeout, remote reset, undecodable reply (kind "err") or cancellation (kind "cancel")
ReadFail(c, kind) ==
  /\ pc[c] = "written"
  /\ LET o == onobj[c]
         s == stream[o]
         keep == (kind = "err" /\ BugReuseAfterTimeout) \/ (kind = "cancel" /\ BugReuseAfterCancel) IN
     /\ stream' = IF keep THEN stream ELSE [stream EXCEPT ![o] = None]
     /\ dead' = IF keep \/ s = None THEN dead ELSE dead \cup {s}
     /\ IF kind = "err" /\ tries[c] < 2
        THEN pc' = [pc EXCEPT ![c] = "locked"] /\ UNCHANGED <<holder, result>>
        ELSE Fail(c)
  /\ UNCHANGED <<tries, onobj, obj, invalid, nstreams, ndisc, inflight, pipe>>

\* disconnect notification: the map entry is dropped; the old object is invalidated once its lock is free
Disconnect == /\ ndisc < MaxDisconnects /\ ndisc' = ndisc + 1 /\ obj' = obj + 1
              /\ UNCHANGED <<pc, tries, onobj, result, holder, stream, invalid, nstreams, inflight, pipe, dead>>
Invalidate(o) == /\ o < obj /\ o \notin invalid /\ holder[o] = {}
                 /\ invalid' = invalid \cup {o}
                 /\ dead' = IF stream[o] = None THEN dead ELSE dead \cup {stream[o]}
                 /\ stream' = [stream EXCEPT ![o] = None]
                 /\ UNCHANGED <<pc, tries, onobj, result, obj, holder, nstreams, ndisc, inflight, pipe>>

Next == \/ \E c \in Callers : Start(c) \/ Lock(c) \/ Write(c) \/ ReadOK(c) \/ ReadFail(c, "err") \/ ReadFail(c, "cancel")
        \/ \E s \in SIds : Reply(s)
        \/ Disconnect \/ \E o \in Objs : Invalidate(o)
Spec == Init /\ [][Next]_vars

\* every reply returned answers the caller's own request
OwnReply == \A c \in Callers : result[c] \in {None, -1, c}
\* exchanges over one sender object are serialized
Serialized == \A o \in Objs : Cardinality(holder[o]) <= 1
\* a stream never carries two unanswered requests, and a dropped stream is dead
OneOutstanding == \A s \in SIds : s \notin dead => Len(inflight[s]) + Len(pipe[s]) <= 1
=============================================================================
