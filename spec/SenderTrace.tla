----------------------------- MODULE SenderTrace -----------------------------
(***************************************************************************)
(* Trace specification for the message sender (C11).  Events come from     *)
(* harness/drivers/sender_test.go: calls and their returns, streams opened *)
(* / refused, every request the remote read on a stream, every reply,      *)
(* garbage, reset or EOF the remote produced, cancellations, disconnect    *)
(* notifications, passage of time, local resets/closes of streams.  The    *)
(* abstract state is that of Sender.tla seen from the wire: per stream the *)
(* outstanding requests and whether an exchange on it has failed.          *)
(***************************************************************************)
EXTENDS Integers, Sequences, FiniteSets, TLC, Json, IOUtils

Trace == ndJsonDeserialize(IOEnv.VERIF_TRACE)
NLines == Len(Trace)
VARIABLES l, s
vars == <<l, s>>
Range(f) == {f[i] : i \in DOMAIN f}
Ev == Trace[l]
Is(e) == l <= NLines /\ Ev.e = e
Flag(b, id) == IF b THEN {} ELSE {<<"C11", id>>}
ResetLines == {i \in 1..NLines : Trace[i].e = "Reset"}
SIds == 1..40
CIds == 1..10
ReadTimeout == 10000

Fresh(run) == [c |-> run,
               peerOf |-> [i \in SIds |-> 0],       \* 0 = stream not opened
               fresh |-> [i \in SIds |-> FALSE],    \* opened by a call that started after the last disconnect notification
               out |-> [i \in SIds |-> {}],         \* requests read by the remote on the stream and not answered
               failed |-> [i \in SIds |-> FALSE],   \* an exchange on the stream failed
               ended |-> [i \in SIds |-> "no"],     \* "no" | "reset" | "close" (by the local side)
               good |-> {},                         \* calls whose own reply was sent in time on a healthy stream
               kind |-> [i \in CIds |-> "none"],
               returned |-> {},
               viol |-> {}]
Init == \E i \in ResetLines : l = i + 1 /\ s = Fresh(Trace[i])
Step(ns) == /\ s' = ns /\ l' = l + 1
            /\ (ns.viol = s.viol \/ PrintT("VIOL " \o ToString(s.c.t) \o " " \o ToString(l) \o " " \o ToString(ns.viol \ s.viol)))

Call == Is("Call") /\ Step([s EXCEPT !.kind[Ev.id] = Ev.kind])

\* at most one stream in use per peer (streams from before a disconnect notification aside)
StreamOpen ==
  /\ Is("StreamOpen")
  /\ LET live == {i \in SIds : s.peerOf[i] = Ev.p /\ s.ended[i] = "no" /\ s.fresh[i]} IN
     Step([s EXCEPT !.peerOf[Ev.sid] = Ev.p, !.fresh[Ev.sid] = Ev.fresh,
                    !.viol = @ \cup Flag(Ev.fresh => live = {}, "c_second_stream_to_a_peer_while_one_is_in_use")])

\* the remote has read a request: the stream must be idle and healthy
Recv ==
  /\ Is("Recv")
  /\ Step([s EXCEPT
       !.out[Ev.sid] = IF Ev.kind = "req" THEN @ \cup {Ev.id} ELSE @,
       !.viol = @ \cup Flag(Ev.kind # "junk", "x_undecodable_request_written")
                  \cup Flag(s.out[Ev.sid] = {}, "c_exchanges_not_serialized")
                  \cup Flag(~s.failed[Ev.sid], "d_stream_reused_after_failed_exchange")])

Reply ==
  /\ Is("Reply")
  /\ Step([s EXCEPT !.out[Ev.sid] = @ \ {Ev.id},
                    !.good = IF ~s.failed[Ev.sid] /\ Ev.id \in s.out[Ev.sid] THEN @ \cup {Ev.id} ELSE @])

\* garbage, reset or EOF from the remote while a request is outstanding fails that exchange
RemoteFault ==
  /\ (Is("Garbage") \/ Is("RemoteReset") \/ Is("RemoteEOF"))
  /\ Step([s EXCEPT !.failed[Ev.sid] = @ \/ s.out[Ev.sid] # {}])

\* a cancelled caller's exchange fails
Cancel ==
  /\ Is("Cancel")
  /\ Step([s EXCEPT !.failed = [i \in SIds |-> s.failed[i] \/ Ev.id \in s.out[i]]])

\* the read timeout passes: every outstanding exchange fails
Advance ==
  /\ Is("Advance")
  /\ Step([s EXCEPT !.failed = [i \in SIds |-> s.failed[i] \/ (Ev.ms >= ReadTimeout /\ s.out[i] # {})]])

\* a disconnect notification replaces the sender object: streams of the old one no longer count
Disconnect == Is("Disconnect") /\ Step([s EXCEPT !.fresh = [i \in SIds |-> s.fresh[i] /\ s.peerOf[i] # Ev.p]])

LocalEnd == Is("LocalEnd") /\ Step([s EXCEPT !.ended[Ev.sid] = IF @ = "no" THEN Ev.how ELSE @])

Return ==
  /\ Is("Return")
  /\ Step([s EXCEPT !.returned = @ \cup {Ev.id},
       !.viol = @
         \cup Flag(Ev.id \notin s.returned, "x_returned_twice")
         \cup Flag((Ev.ok /\ s.kind[Ev.id] = "req") => Ev.replyto = Ev.id, "a_reply_to_another_request_returned")
         \cup Flag((Ev.ok /\ s.kind[Ev.id] = "req") => Ev.id \in s.good, "b_late_or_missing_reply_returned_as_success")])

Quiesce ==
  /\ Is("Quiesce")
  /\ Step([s EXCEPT !.viol = @
       \cup Flag(Len(Ev.pending) = 0, "e_call_never_returned")
       \cup Flag(\A x \in Range(Ev.streams) : s.failed[x.sid] => x.localreset, "d_failed_stream_not_reset")])

Other == (Is("StreamReq") \/ Is("StreamAbort") \/ Is("StreamFail") \/ Is("End")) /\ Step(s)
Stuck == Is("Stuck") /\ Step([s EXCEPT !.viol = @ \cup {<<"C11", "e_sender_wedged">>}])

Next == Call \/ StreamOpen \/ Recv \/ Reply \/ RemoteFault \/ Cancel \/ Advance \/ Disconnect \/ LocalEnd \/ Return \/ Quiesce \/ Other \/ Stuck
TraceSpec == Init /\ [][Next]_vars
TraceAccepted == TLCGet("distinct") = NLines
InvC11 == s.viol = {}
=============================================================================
