SPECIFICATION TraceSpec
INVARIANT InvC11
POSTCONDITION TraceAccepted
CHECK_DEADLOCK FALSE
