SPECIFICATION Spec
CONSTANTS
  Callers = {1, 2, 3}
  MaxStreams = 3
  MaxDisconnects = 1
  BugReuseAfterTimeout = FALSE
  BugNoLock = FALSE
  BugReuseAfterCancel = TRUE
INVARIANTS OwnReply
CHECK_DEADLOCK FALSE
