SPECIFICATION Spec
CONSTANTS
  Callers = {1, 2, 3}
  MaxStreams = 3
  MaxDisconnects = 1
  BugReuseAfterTimeout = TRUE
  BugNoLock = FALSE
  BugReuseAfterCancel = FALSE
INVARIANTS OwnReply
CHECK_DEADLOCK FALSE
