SPECIFICATION Spec
CONSTANTS
  Callers = {1, 2, 3}
  MaxStreams = 3
  MaxDisconnects = 1
  BugReuseAfterTimeout = FALSE
  BugNoLock = FALSE
  BugReuseAfterCancel = FALSE
INVARIANTS OwnReply Serialized OneOutstanding
CHECK_DEADLOCK FALSE
