SPECIFICATION Spec
CONSTANTS
  Callers = {1, 2, 3, 4}
  MaxStreams = 4
  MaxDisconnects = 1
  BugReuseAfterTimeout = FALSE
  BugNoLock = FALSE
  BugReuseAfterCancel = FALSE
INVARIANTS OwnReply Serialized OneOutstanding
CHECK_DEADLOCK FALSE
