SPECIFICATION Spec
CONSTANTS
  Callers = {1, 2, 3, 4}
  MaxStreams = 5
  MaxDisconnects = 2
  BugReuseAfterTimeout = FALSE
  BugNoLock = FALSE
  BugReuseAfterCancel = FALSE
INVARIANTS OwnReply Serialized OneOutstanding
CHECK_DEADLOCK FALSE
