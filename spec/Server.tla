------------------------------- MODULE Server -------------------------------
(***************************************************************************)
(* The DHT stream handler (dht_net.go handleNewMessage + handlers.go) as a *)
(* function from (node configuration, request class) to a response class.  *)
(* TLC enumerates the whole class space and checks the C09 clauses on the  *)
(* function; the same clauses are evaluated on responses of the real       *)
(* handler (ServerTrace.tla).                                              *)
(* Peers are ranks by distance to the request key: members of the routing  *)
(* table are a subset of 1..N; the requester may be a member or a stranger *)
(* (rank 0 = stranger).                                                    *)
(***************************************************************************)
EXTENDS Integers, Sequences, FiniteSets, TLC

CONSTANTS N, K, BugRequesterListed, BugClientAnswers, BugEchoNotStripped

Types == {"PUT_VALUE", "GET_VALUE", "ADD_PROVIDER", "GET_PROVIDERS", "FIND_NODE", "PING", "UNKNOWN"}
VARIABLES cfg, req, resp
vars == <<cfg, req, resp>>

Cfgs == [mode : {"server", "client"}, values : BOOLEAN, provs : BOOLEAN, rt : SUBSET (1..N), noaddr : SUBSET (1..N), reqrank : 0..N]
Reqs == [typ : Types, key : {"none", "ok", "long"}, rec : {"none", "match", "mismatch", "invalid"},
         ent : {"none", "sender+addr", "sender+noaddr", "other+addr"}, stuffed : BOOLEAN, garbage : BOOLEAN,
         target : {"none", "member", "known", "unknown"}]

Sorted(S) == LET RECURSIVE B(_)
                 B(R) == IF R = {} THEN <<>> ELSE LET m == CHOOSE x \in R : \A y \in R : x <= y IN <<m>> \o B(R \ {m})
             IN B(S)
FirstK(q) == SubSeq(q, 1, IF Len(q) < K THEN Len(q) ELSE K)
Supported(c, r) == CASE r.typ \in {"PUT_VALUE", "GET_VALUE"} -> c.values
                     [] r.typ \in {"ADD_PROVIDER", "GET_PROVIDERS"} -> c.provs
                     [] r.typ \in {"FIND_NODE", "PING"} -> TRUE
                     [] OTHER -> FALSE
KeyOK(r) == r.typ = "PING" \/ r.key = "ok"
ResetResp == [kind |-> "reset", closer |-> <<>>, targetfirst |-> FALSE, echoPeers |-> FALSE, storeProv |-> FALSE, storeVal |-> FALSE]

\* closestPeersToQuery: the K nearest members, never the requester (nor self, which is never a member)
Closest(c) == FirstK(Sorted(IF BugRequesterListed THEN c.rt ELSE c.rt \ {c.reqrank}))

Respond(c, r) ==
  IF c.mode = "client" /\ ~BugClientAnswers THEN ResetResp
  ELSE IF r.garbage \/ ~Supported(c, r) \/ ~KeyOK(r) THEN ResetResp
  ELSE CASE r.typ = "PING" ->
              [ResetResp EXCEPT !.kind = "resp", !.echoPeers = r.stuffed /\ BugEchoNotStripped]
         [] r.typ = "PUT_VALUE" ->
              IF r.rec = "match"
              THEN [ResetResp EXCEPT !.kind = "resp", !.storeVal = TRUE, !.echoPeers = r.stuffed /\ BugEchoNotStripped]
              ELSE ResetResp
         [] r.typ = "GET_VALUE" -> [ResetResp EXCEPT !.kind = "resp", !.closer = Closest(c)]
         [] r.typ = "GET_PROVIDERS" -> [ResetResp EXCEPT !.kind = "resp", !.closer = Closest(c)]
         [] r.typ = "FIND_NODE" ->
              \* the requested peer first when its addresses are known; peers without addresses dropped
              [ResetResp EXCEPT !.kind = "resp",
                                !.closer = SelectSeq(Closest(c), LAMBDA m : m \notin c.noaddr),
                                !.targetfirst = r.target \in {"member", "known"}]
         [] r.typ = "ADD_PROVIDER" ->
              IF r.ent = "sender+addr"
              THEN [ResetResp EXCEPT !.kind = "silent", !.storeProv = TRUE]
              ELSE ResetResp
         [] OTHER -> ResetResp

Init == cfg \in Cfgs /\ req \in Reqs /\ resp = Respond(cfg, req)
Next == UNCHANGED vars
Spec == Init /\ [][Next]_vars

ClientSilent == cfg.mode = "client" => resp.kind = "reset"
WellFormedOrReset == resp.kind \in {"resp", "reset", "silent"} /\ (resp.kind = "silent" => req.typ = "ADD_PROVIDER")
CloserRule ==
  LET L == resp.closer IN
  /\ Len(L) <= K
  /\ \A i \in DOMAIN L : L[i] \in cfg.rt /\ L[i] # cfg.reqrank
  /\ \A i \in 1..(Len(L) - 1) : L[i] < L[i + 1]
EchoStripped == req.typ \in {"PING", "PUT_VALUE"} => ~resp.echoPeers
AddProviderRule == resp.storeProv <=> (cfg.mode = "server" /\ cfg.provs /\ ~req.garbage /\ req.typ = "ADD_PROVIDER"
                                        /\ req.key = "ok" /\ req.ent = "sender+addr")
PutValueRule == resp.storeVal <=> (cfg.mode = "server" /\ cfg.values /\ ~req.garbage /\ req.typ = "PUT_VALUE"
                                    /\ req.key = "ok" /\ req.rec = "match")
DisabledSubsystemSilent == (~Supported(cfg, req)) => resp.kind = "reset"
=============================================================================
