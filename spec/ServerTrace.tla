----------------------------- MODULE ServerTrace -----------------------------
(***************************************************************************)
(* The server side of the DHT protocol (C09) as a relation between a       *)
(* (node configuration, request class) pair and the observed response      *)
(* class, evaluated by TLC on every case recorded from the real stream     *)
(* handler (harness/drivers/server_test.go).  Peers are identified by      *)
(* their distance rank to the request key.                                 *)
(***************************************************************************)
EXTENDS Integers, Sequences, FiniteSets, TLC, Json, IOUtils

Trace == ndJsonDeserialize(IOEnv.VERIF_TRACE)
NLines == Len(Trace)
VARIABLES l, s
vars == <<l, s>>
Range(f) == {f[i] : i \in DOMAIN f}
Ev == Trace[l]
Flag(b, id) == IF b THEN {} ELSE {<<"C09", id>>}
ResetLines == {i \in 1..NLines : Trace[i].e = "Reset"}
Init == \E i \in ResetLines : l = i + 1 /\ s = [c |-> Trace[i], viol |-> {}]
Step(ns) == /\ s' = ns /\ l' = l + 1
            /\ (ns.viol = s.viol \/ PrintT("VIOL " \o ToString(s.c.t) \o " " \o ToString(l) \o " " \o ToString(ns.viol \ s.viol)))

MaxRec == 8192
MaxMsg == 4194304
Serving(r) == r.mode = "server" /\ r.garbage = "none"
Supported(r) == CASE r.typ \in {"PUT_VALUE", "GET_VALUE"} -> r.values
                  [] r.typ \in {"ADD_PROVIDER", "GET_PROVIDERS"} -> r.provs
                  [] r.typ \in {"FIND_NODE", "PING"} -> TRUE
                  [] OTHER -> FALSE
KeyOK(r) == CASE r.typ = "PING" -> TRUE
              [] r.typ \in {"ADD_PROVIDER", "GET_PROVIDERS"} -> r.keylen >= 1 /\ r.keylen <= 80
              [] OTHER -> r.keylen >= 1
\* the request must be answered (not reset)
MustAnswer(r) == Serving(r) /\ Supported(r) /\ KeyOK(r) /\ r.typ \in {"GET_VALUE", "GET_PROVIDERS", "FIND_NODE", "PING"}
\* the closer-peer list without the FIND_NODE target-first exception
Body(r) == IF r.typ = "FIND_NODE" /\ Len(r.closer) >= 1 /\ r.closer[1].target THEN Tail(r.closer) ELSE r.closer

Check(r) ==
  \* (a) well-formed response or reset; no panic; other peers keep being served
     Flag(~r.panic, "a_handler_panicked")
  \cup Flag(r.alive, "a_node_stopped_serving_other_peers")
  \cup Flag(~r.junk /\ r.nmsgs <= 1, "a_malformed_response")
  \cup Flag(r.mode = "server" => (r.nmsgs = 1 \/ r.reset \/ (r.nmsgs = 0 /\ r.closed /\ (r.typ = "ADD_PROVIDER" \/ r.garbage # "none"))),
            "a_neither_response_nor_reset")
  \cup Flag(MustAnswer(r) => (r.nmsgs = 1 /\ ~r.reset /\ r.rtype = r.typ), "a_valid_request_not_answered")
  \cup Flag((r.mode = "server" /\ r.garbage = "none" /\ (~Supported(r) \/ ~KeyOK(r))) => (r.nmsgs = 0 /\ r.reset),
            "a_unsupported_or_bad_key_request_served")
  \* (b) a client-mode node answers nothing
  \cup Flag(r.mode = "client" => (r.nmsgs = 0 /\ ~r.storedsender /\ (r.storedval = "" \/ ("prerec" \in DOMAIN r /\ r.prerec /\ r.storedval = "V2"))),
            "b_client_mode_node_answered")
  \* (c) closer peers
  \cup (IF r.nmsgs = 1 /\ r.rtype \in {"GET_VALUE", "GET_PROVIDERS", "FIND_NODE"}
        THEN LET B == Body(r)
                 ranks == [i \in DOMAIN B |-> B[i].r]
                 listed == Range(ranks)
                 \* members that may be listed as closer peers: not the requester; for FIND_NODE only
                 \* peers with known addresses, and the requested peer itself is handled apart
                 eligible == {m \in Range(r.rt) : m # r.reqrank
                                /\ (r.rtype = "FIND_NODE" => (m \notin Range(r.noaddr) /\ m # r.targetrank))}
             IN Flag(Len(B) <= r.K, "c_more_than_K_closer_peers")
                \cup Flag(\A i \in DOMAIN B : ~B[i].self /\ ~B[i].req, "c_self_or_requester_listed")
                \cup Flag(\A i \in DOMAIN B : B[i].inrt, "c_non_member_listed")
                \cup Flag(\A i \in 1..(Len(B) - 1) : ranks[i] < ranks[i + 1], "c_closer_peers_not_nearest_first")
                \cup Flag(\A m \in eligible : (listed # {} /\ \E x \in listed : m < x) => m \in listed, "c_nearer_member_omitted")
                \cup Flag((r.rtype # "FIND_NODE" /\ Cardinality(eligible) >= 1) => Len(B) >= 1, "c_no_closer_peers_although_known")
                \cup (IF r.rtype = "FIND_NODE"
                      THEN Flag(r.targethasaddrs <=> (Len(r.closer) >= 1 /\ r.closer[1].target), "c_target_not_first_iff_known")
                           \cup Flag(\A i \in 2..Len(r.closer) : ~r.closer[i].target \/ r.closer[i].inrt, "c_target_listed_but_not_first")
                           \cup Flag(\A i \in DOMAIN r.closer : r.closer[i].na >= 1, "c_find_node_peer_without_addresses")
                      ELSE {})
        ELSE {})
  \* (d) sizes
  \cup Flag(\A x \in Range(r.closer) \cup Range(r.rprovs) : x.sz <= MaxRec, "d_peer_record_over_8KiB")
  \cup Flag(r.rtype \in {"FIND_NODE", "GET_PROVIDERS"} => r.total <= MaxMsg + 16, "d_response_over_transport_limit")
  \* (e) echoes carry no peer records
  \cup Flag((r.nmsgs = 1 /\ r.rtype \in {"PING", "PUT_VALUE"}) => (Len(r.closer) = 0 /\ Len(r.rprovs) = 0), "e_echo_carries_peer_records")
  \* (f) ADD_PROVIDER
  \cup Flag(~r.storedother, "f_provider_other_than_sender_stored")
  \cup Flag(r.storedaddrsok, "f_filtered_address_stored")
  \cup Flag(r.storedsender <=> (r.typ = "ADD_PROVIDER" /\ Serving(r) /\ r.provs /\ r.keylen >= 1 /\ r.keylen <= 80 /\ r.anyvalident),
            "f_add_provider_acceptance_rule")
  \* PUT_VALUE stores exactly the valid record filed under the message key
  \* (or, when the node already held a better record, still holds that one)
  \cup Flag(IF "prerec" \in DOMAIN r /\ r.prerec THEN r.storedval = "V2"
            ELSE (r.storedval # "") <=> (r.typ = "PUT_VALUE" /\ Serving(r) /\ r.values /\ r.keylen >= 1 /\ r.rec = "match"),
            "g_put_value_acceptance_rule")

Case == l <= NLines /\ Ev.e = "Case" /\ Step([s EXCEPT !.viol = @ \cup Check(Ev)])
End == l <= NLines /\ Ev.e = "End" /\ Step(s)
Next == Case \/ End
TraceSpec == Init /\ [][Next]_vars
TraceAccepted == TLCGet("distinct") = NLines
InvC09 == s.viol = {}
=============================================================================
