SPECIFICATION TraceSpec
INVARIANT InvC09
POSTCONDITION TraceAccepted
CHECK_DEADLOCK FALSE
