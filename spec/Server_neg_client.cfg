SPECIFICATION Spec
CONSTANTS
  N = 2
  K = 2
  BugRequesterListed = FALSE
  BugClientAnswers = TRUE
  BugEchoNotStripped = FALSE
INVARIANTS ClientSilent WellFormedOrReset CloserRule EchoStripped AddProviderRule PutValueRule DisabledSubsystemSilent
CHECK_DEADLOCK FALSE
