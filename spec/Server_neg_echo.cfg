SPECIFICATION Spec
CONSTANTS
  N = 2
  K = 2
  BugRequesterListed = FALSE
  BugClientAnswers = FALSE
  BugEchoNotStripped = TRUE
INVARIANTS ClientSilent WellFormedOrReset CloserRule EchoStripped AddProviderRule PutValueRule DisabledSubsystemSilent
CHECK_DEADLOCK FALSE
