SPECIFICATION Spec
CONSTANTS
  N = 3
  K = 2
  BugRequesterListed = FALSE
  BugClientAnswers = FALSE
  BugEchoNotStripped = FALSE
INVARIANTS ClientSilent WellFormedOrReset CloserRule EchoStripped AddProviderRule PutValueRule DisabledSubsystemSilent
CHECK_DEADLOCK FALSE
