----------------------------- MODULE SweepTrace -----------------------------
(***************************************************************************)
(* Trace specification for the sweeping provider (C17).  Events come from  *)
(* harness/drivers/sweep_test.go: the calls (start / once / stop), every   *)
(* ADD_PROVIDER the message sender saw (key, recipient, virtual second),   *)
(* swarm changes with the r nearest peers of every key (computed by the    *)
(* harness with sha256/XOR, independently of the library), outages,        *)
(* restarts, and quiescent points ("Settle").  The network is              *)
(* instantaneous, so all work triggered at one virtual instant is finished *)
(* before time moves on; the ADD_PROVIDERs of one key at one instant are   *)
(* one advertisement of that key.                                          *)
(***************************************************************************)
EXTENDS Integers, Sequences, FiniteSets, TLC, Json, IOUtils

Trace == ndJsonDeserialize(IOEnv.VERIF_TRACE)
NLines == Len(Trace)
VARIABLES l, s
vars == <<l, s>>
Range(f) == {f[i] : i \in DOMAIN f}
Ev == Trace[l]
Is(e) == l <= NLines /\ Ev.e = e
Flag(b, id) == IF b THEN {} ELSE {<<"C17", id>>}
ResetLines == {i \in 1..NLines : Trace[i].e = "Reset"}
Keys == 1..s.c.nkeys
Grace == 600          \* seconds the node is given after (re)gaining connectivity or a restart
Max(a, b) == IF a > b THEN a ELSE b

Fresh(run) == [c |-> run,
               nearest |-> run.nearest,                       \* per key the r nearest peers in the current swarm
               kept |-> {},                                   \* keys to be reprovided
               since |-> [k \in 1..run.nkeys |-> 0],          \* from when on the key has to be advertised
               once |-> {},                                   \* keys with an outstanding provide-once
               stopped |-> [k \in 1..run.nkeys |-> -1],       \* when the key was stopped (-1: not stopped)
               saved |-> [k \in 1..run.nkeys |-> [kept |-> FALSE, since |-> 0, last |-> -1]],  \* what a stop replaced
               last |-> [k \in 1..run.nkeys |-> -1],          \* instant of the last complete advertisement
               lastLine |-> [k \in 1..run.nkeys |-> 0],       \* trace line of its last record
               mergedLine |-> [k \in 1..run.nkeys |-> 0],     \* trace line at which the key's scheduled prefix was last replaced by a shorter one
               batchLine |-> [k \in 1..run.nkeys |-> 0],
               batchTs |-> -1, batch |-> [k \in 1..run.nkeys |-> {}], failed |-> {},
               gaveup |-> {},   \* keys under a prefix whose exploration the library ended early in the current instant
               online |-> TRUE, onlineSince |-> 0, restartAt |-> -1,
               outaged |-> FALSE, restarted |-> FALSE,     \* an outage / a restart has happened in this run
               weak |-> {},    \* keys that are only owed their regular slot (handed over or left unadvertised while the node was offline)
               failing |-> FALSE, healSince |-> 0,   \* provider records cannot be delivered / when that ended
               onceLast |-> [k \in 1..run.nkeys |-> -1],   \* when a provide-once was the latest call for the key (-1: it is not)
               viol |-> {}]
Init == \E i \in ResetLines : l = i + 1 /\ s = Fresh(Trace[i])
Step(ns) == /\ s' = ns /\ l' = l + 1
            /\ (ns.viol = s.viol \/ PrintT("VIOL " \o ToString(s.c.t) \o " " \o ToString(l) \o " " \o ToString(ns.viol \ s.viol)))

\* the advertisements of the instant that has just ended are judged: each went to exactly the r nearest
\* peers (keys whose sends failed because the node or a peer was unreachable are not judged)
Judged(st) == {k \in 1..st.c.nkeys : st.batch[k] # {} /\ k \notin st.failed}
\* the keys advertised in that instant: the records that arrived went to exactly the r nearest peers (an attempt
\* that failed and one that succeeded may fall into the same instant: the delivered one counts)
\* (in an instant in which the exploration gave up the recipients are reported under the known finding)
Done(st) == {k \in 1..st.c.nkeys : st.batch[k] # {} /\ (st.batch[k] = Range(st.nearest[k]) \/ k \in st.gaveup)}
CloseBatch(st) ==
  [st EXCEPT !.batchTs = -1, !.batch = [k \in 1..st.c.nkeys |-> {}], !.failed = {},
             !.gaveup = {},
             !.last = [k \in 1..st.c.nkeys |-> IF k \in Done(st) THEN st.batchTs ELSE @[k]],
             !.lastLine = [k \in 1..st.c.nkeys |-> IF k \in Done(st) THEN st.batchLine[k] ELSE @[k]],
             !.once = @ \ Done(st),
             \* The library ends the exploration of a prefix after two closest-peers lookups in a row without a new
             \* peer (it says so through the verif hook, with the prefix); wrong recipients of the keys under such a
             \* prefix in that instant are reported separately (known finding).
             !.viol = @ \cup Flag(\A k \in Judged(st) \cap st.gaveup : st.batch[k] = Range(st.nearest[k]), "a_wrong_recipients_after_two_lookups_without_new_peers")
                        \cup Flag(\A k \in Judged(st) \ st.gaveup : st.batch[k] \subseteq Range(st.nearest[k]), "a_advertised_to_a_peer_that_is_not_among_the_r_nearest")
                        \cup Flag(\A k \in Judged(st) \ st.gaveup : Range(st.nearest[k]) \subseteq st.batch[k], "a_not_advertised_to_all_r_nearest_peers")]
\* the state to continue from when an event at instant ts arrives
At(ts) == IF s.batchTs # -1 /\ s.batchTs # ts THEN CloseBatch(s) ELSE s
\* events logged at quiescent points end the current instant's advertisements
Quiet == IF s.batchTs # -1 THEN CloseBatch(s) ELSE s

Send ==
  /\ Is("Send")
  /\ LET st == At(Ev.ts) IN
     Step([st EXCEPT !.batchTs = Ev.ts, !.batch[Ev.k] = @ \cup {Ev.p}, !.batchLine[Ev.k] = l,
        !.viol = @ \cup Flag(Ev.k \in 1..st.c.nkeys, "x_unknown_key_advertised")
                   \cup Flag(Ev.typ = "ADD_PROVIDER" /\ Ev.addrsok, "a_not_advertised_with_the_current_addresses")
                   \* a stopped key is not advertised in later cycles
                   \cup Flag((Ev.k \in 1..st.c.nkeys /\ st.stopped[Ev.k] # -1) => Ev.ts <= st.stopped[Ev.k] + st.c.interval + st.c.maxdelay,
                             "c_stopped_key_advertised_in_a_later_cycle")])
\* a closest-peers lookup answered by the router
Route == /\ Is("Route") /\ LET st == At(Ev.ts) IN Step([st EXCEPT !.batchTs = Ev.ts])
\* the library ended the exploration of a prefix early (hook point explore:gaveup); keys: the keys under it
GaveUp == /\ Is("GaveUp") /\ LET st == At(Ev.ts) IN Step([st EXCEPT !.batchTs = Ev.ts, !.gaveup = @ \cup Range(Ev.keys)])
\* A prefix that was not just reprovided enters the schedule (hook point schedule:subsume; keys: the keys under
\* it): longer prefixes under it lose their slot.  Kept keys under it that were advertised before are the ones a
\* lost slot can delay (known finding).
Merged == /\ Is("Merged")
          /\ LET st == At(Ev.ts) IN
             Step([st EXCEPT !.batchTs = Ev.ts,
                             !.mergedLine = [k \in 1..st.c.nkeys |-> IF k \in Range(Ev.keys) /\ k \in st.kept /\ (st.last[k] # -1 \/ st.batch[k] # {}) THEN l ELSE @[k]]])
SendFail == /\ Is("SendFail") /\ LET st == At(Ev.ts) IN Step([st EXCEPT !.batchTs = Ev.ts, !.failed = @ \cup {Ev.k}])

\* Behind the buffered wrapper a start that follows a stop of the same key in the same batch cancels the stop
\* (the key stays on its schedule, nothing is advertised for it now); otherwise a key that is not kept is new.
Start == /\ Is("Start")
         /\ LET st == At(Ev.ts)
                undo == {k \in Range(Ev.keys) : st.c.buffered /\ st.stopped[k] = Ev.ts /\ st.saved[k].kept}
                new == (Range(Ev.keys) \ st.kept) \ undo IN
            Step([st EXCEPT !.kept = @ \cup Range(Ev.keys),
                            !.since = [k \in 1..st.c.nkeys |-> IF k \in new THEN Ev.ts ELSE IF k \in undo THEN st.saved[k].since ELSE @[k]],
                            !.last = [k \in 1..st.c.nkeys |-> IF k \in new THEN -1 ELSE IF k \in undo THEN st.saved[k].last ELSE @[k]],
                            !.onceLast = [k \in 1..st.c.nkeys |-> IF k \in Range(Ev.keys) THEN -1 ELSE @[k]],
                           !.stopped = [k \in 1..st.c.nkeys |-> IF k \in Range(Ev.keys) THEN -1 ELSE @[k]]])
\* a one-off advertisement is asked for explicitly, also for a key that was stopped before
Once == /\ Is("Once")
        /\ LET st == At(Ev.ts) IN
           Step([st EXCEPT !.once = @ \cup Range(Ev.keys),
                           !.onceLast = [k \in 1..st.c.nkeys |-> IF k \in Range(Ev.keys) THEN Ev.ts ELSE @[k]],
                           !.since = [k \in 1..st.c.nkeys |-> IF k \in Range(Ev.keys) \ st.kept THEN Ev.ts ELSE @[k]],
                           !.last = [k \in 1..st.c.nkeys |-> IF k \in Range(Ev.keys) \ st.kept THEN -1 ELSE @[k]],
                           !.stopped = [k \in 1..st.c.nkeys |-> IF k \in Range(Ev.keys) THEN -1 ELSE @[k]]])
Stop == /\ Is("Stop")
        /\ LET st == At(Ev.ts) IN
           Step([st EXCEPT !.kept = @ \ Range(Ev.keys), !.once = @ \ Range(Ev.keys),
                           !.onceLast = [k \in 1..st.c.nkeys |-> IF k \in Range(Ev.keys) THEN -1 ELSE @[k]],
                           \* (a second stop of the key at the same instant - the same batch behind the buffered wrapper - keeps
                           \* what the first one replaced)
                           !.saved = [k \in 1..st.c.nkeys |-> IF k \in Range(Ev.keys) /\ st.stopped[k] # Ev.ts THEN [kept |-> k \in st.kept, since |-> st.since[k], last |-> st.last[k]] ELSE @[k]],
                           !.stopped = [k \in 1..st.c.nkeys |-> IF k \in Range(Ev.keys) THEN Ev.ts ELSE @[k]]])
Swarm == /\ Is("Swarm") /\ LET st == Quiet IN Step([st EXCEPT !.nearest = Ev.nearest])
Offline == /\ Is("Offline") /\ LET st == Quiet IN Step([st EXCEPT !.online = FALSE, !.outaged = TRUE])
\* Connectivity returns; state is what the provider reported just before.  After more than the offline delay the
\* provider has declared itself offline and emptied its provide queue: provide-once requests that were still
\* waiting are gone, kept keys that were still waiting are advertised at their regular slot.
Online == /\ Is("Online")
          /\ LET st == Quiet
                 off == Ev.state = "offline" IN
             Step([st EXCEPT !.online = TRUE, !.onlineSince = Ev.ts,
                             !.once = IF off THEN {} ELSE @,
                             !.onceLast = IF off THEN [k \in 1..st.c.nkeys |-> -1] ELSE @,
                             !.weak = IF off THEN @ \cup {k \in st.kept : st.last[k] < st.since[k]} ELSE @])
\* the node's addresses change (the sender compares every record with the addresses current at that instant)
Addrs == /\ Is("Addrs") /\ Step(Quiet)
FailSend == /\ Is("FailSend") /\ LET st == Quiet IN Step([st EXCEPT !.failing = TRUE])
HealSend == /\ Is("HealSend") /\ LET st == Quiet IN Step([st EXCEPT !.failing = FALSE, !.healSince = Ev.ts])
\* The property promises that work queued at Close is resumed after a restart; it does not promise reprovide
\* deadlines across a restart, so the deadline clock of every key starts again at the restart.
\* The provide queue is persisted at Close and read back at start: a provide-once that was waiting is carried
\* out after the restart.  The queue of regions whose reprovide failed is not persisted, and a reprovide takes
\* the waiting keys of its region out of the provide queue: a kept key that was not yet advertised at Close is
\* owed its regular slot after the restart, not more.
Restart == /\ Is("Restart")
           /\ LET st == Quiet IN
              Step([st EXCEPT !.onlineSince = IF st.online THEN Ev.ts ELSE @, !.restartAt = Ev.ts, !.restarted = TRUE,
                              !.weak = @ \cup {k \in st.kept : st.last[k] < st.since[k]}])

\* Quiescent: what is due has been done.  The timing clauses are decided for steady runs only (the provider
\* used directly, no outage and no restart so far): what exactly is owed after an outage, after a restart and
\* through the buffered wrapper's batches could not be pinned down soundly and is left undecided (DESIGN.md).
Settle ==
  /\ Is("Settle")
  /\ LET st == Quiet
         steady == st.online /\ ~st.failing
         \* (records that could not be delivered are sent again once delivery works; the node retries every 5 minutes;
         \* after an outage the node is given the same time from the moment connectivity returns)
         from(k) == Max(Max(st.since[k], st.healSince), st.onlineSince)
         due(k) == from(k) + Grace + (IF k \in st.weak THEN st.c.interval + st.c.maxdelay ELSE 0) <= Ev.ts
         bound == st.c.interval + st.c.maxdelay + 60
         gap(k) == Ev.ts - st.last[k]
         \* the key's scheduled prefix was replaced by a shorter one after its last advertisement
         shifted(k) == st.mergedLine[k] > st.lastLine[k]
     IN Step([st EXCEPT !.viol = @
          \* every key handed over has been advertised since
          \cup Flag(steady => \A k \in st.kept \cup st.once : due(k) => st.last[k] >= st.since[k], "b_key_not_advertised")
          \* and is re-advertised within interval + allowed delay; when regions are merged into a wider prefix the
          \* library reschedules them a cycle later (known finding), but never later than that
          \cup Flag(steady => \A k \in st.kept : (due(k) /\ st.last[k] # -1 /\ ~shifted(k)) => gap(k) <= bound, "b_key_not_readvertised_in_time")
          \cup Flag(steady => \A k \in st.kept : (due(k) /\ st.last[k] # -1 /\ shifted(k)) => gap(k) <= bound, "b_key_readvertised_late_after_its_region_was_merged_into_a_new_one")
          \* (also after an outage of connectivity or of delivery: what was missed is caught up within the ten minutes)
          \cup Flag(steady => \A k \in st.kept : (due(k) /\ st.last[k] # -1) => gap(k) <= bound + st.c.interval, "b_key_not_readvertised_within_two_intervals")
          \* behind the buffered wrapper: a provide-once that is the latest call for its key is carried out
          \cup Flag((st.c.buffered /\ ~st.outaged /\ ~st.restarted /\ st.online) =>
                      \A k \in 1..st.c.nkeys : (st.onceLast[k] # -1 /\ st.onceLast[k] + Grace <= Ev.ts) => st.last[k] >= st.onceLast[k],
                    "b_provide_once_behind_the_buffer_not_carried_out")])

\* A call made while the provider reports itself offline: a provide-once is not carried out (the library's own
\* tests pin this down), a start is kept and advertised at its regular slot once connectivity is back.
OpResult == /\ Is("OpResult")
            /\ LET st == At(Ev.ts)
                   off == "state" \in DOMAIN Ev /\ Ev.state = "offline" IN
               Step(IF ~off THEN st
                    ELSE IF Ev.op = "once" THEN [st EXCEPT !.once = @ \ Range(Ev.keys),
                                                          !.onceLast = [k \in 1..st.c.nkeys |-> IF k \in Range(Ev.keys) THEN -1 ELSE @[k]]]
                    ELSE IF Ev.op = "start" THEN [st EXCEPT !.weak = @ \cup {k \in Range(Ev.keys) : st.last[k] < st.since[k]}]
                    ELSE st)
EndEv == Is("End") /\ Step(CloseBatch(s))
Stuck == Is("Stuck") /\ Step([s EXCEPT !.viol = @ \cup {<<"C17", "x_wedged_or_crashed">>}])

Next == Send \/ Route \/ GaveUp \/ Merged \/ Addrs \/ FailSend \/ HealSend \/ SendFail \/ Start \/ Once \/ Stop \/ Swarm \/ Offline \/ Online \/ Restart \/ Settle \/ OpResult \/ EndEv \/ Stuck
TraceSpec == Init /\ [][Next]_vars
TraceAccepted == TLCGet("distinct") = NLines
InvC17 == s.viol = {}
=============================================================================
