SPECIFICATION TraceSpec
INVARIANT InvC17
POSTCONDITION TraceAccepted
CHECK_DEADLOCK FALSE
