---------------------------- MODULE ValueSearch ----------------------------
(***************************************************************************)
(* Value search of go-libp2p-kad-dht (routing.go: SearchValue / getValues /*)
(* searchValueQuorum / processValues / updatePeerValues).                  *)
(* The lookup itself is abstracted to "every responder's answer arrives in *)
(* some order"; what is modelled is what happens to the records:           *)
(*   Arrive(p)    queryFn receives p's answer: a record filed under another*)
(*                key rejects the whole answer (peer failed); an invalid or*)
(*                absent record is dropped; a valid one goes to the value  *)
(*                channel                                                  *)
(*   Process      processValues consumes one value: best / peersWithBest / *)
(*                emit only improvements / abort after quorum+1 responses  *)
(*   Finish       the lookup ended: corrective puts to the closest peers   *)
(*                that did not deliver the best value                      *)
(* Values are <<rank, tag>>; Select prefers the higher rank and keeps the  *)
(* incumbent on ties.                                                      *)
(***************************************************************************)
EXTENDS Integers, Sequences, FiniteSets, TLC

CONSTANTS Resp,      \* responders
          MaxRank, Tags,
          Quorum,    \* 0 = no early stop
          BugEmitAll, BugNoValidate

Valid == {<<"V", r, t>> : r \in 0..MaxRank, t \in Tags}
Recs == Valid \cup {<<"I", 0, "x">>, <<"none", 0, "x">>, <<"miskeyed", 0, "x">>}
IsValid(v) == v[1] = "V"
Rank(v) == v[2]

VARIABLES rec,        \* responder -> record it holds (chosen initially)
          localRec,   \* record in the local store
          pendingNet, \* responders whose answer has not arrived yet
          valCh,      \* values waiting in the value channel (sequence of <<value, from>>)
          best, withBest, emitted, nresp, aborted, failedPeers, processed,
          phase, corrective
vars == <<rec, localRec, pendingNet, valCh, best, withBest, emitted, nresp, aborted,
          failedPeers, processed, phase, corrective>>

None == <<"none", 0, "x">>

Init == /\ rec \in [Resp -> Recs]
        /\ localRec \in (Valid \cup {<<"I", 0, "x">>, None})
        /\ pendingNet = Resp
        \* getValues: the local record is re-validated before it enters the search
        /\ valCh = IF IsValid(localRec) \/ (BugNoValidate /\ localRec # None) THEN <<<<localRec, "self">>>> ELSE <<>>
        /\ best = None /\ withBest = {} /\ emitted = <<>> /\ nresp = 0 /\ aborted = FALSE
        /\ failedPeers = {} /\ processed = {} /\ phase = "search" /\ corrective = {}

Arrive(p) ==
  /\ phase = "search" /\ p \in pendingNet
  /\ pendingNet' = pendingNet \ {p}
  /\ LET v == rec[p] IN
     IF v[1] = "miskeyed" THEN failedPeers' = failedPeers \cup {p} /\ valCh' = valCh
     ELSE IF IsValid(v) \/ (BugNoValidate /\ v[1] = "I")
          \* after the consumer stopped (quorum) the value is dropped, never blocks
          THEN (valCh' = IF aborted THEN valCh ELSE Append(valCh, <<v, p>>)) /\ failedPeers' = failedPeers
          ELSE valCh' = valCh /\ failedPeers' = failedPeers
  /\ UNCHANGED <<rec, localRec, best, withBest, emitted, nresp, aborted, processed, phase, corrective>>

Better(v, b) == b = None \/ Rank(v) > Rank(b)

Process ==
  /\ phase = "search" /\ ~aborted /\ Len(valCh) > 0
  /\ LET v == Head(valCh)[1]
         from == Head(valCh)[2]
     IN /\ valCh' = Tail(valCh)
        /\ processed' = processed \cup {v}
        /\ nresp' = nresp + 1
        /\ aborted' = (Quorum > 0 /\ nresp + 1 > Quorum)
        /\ IF best # None /\ v = best
           THEN withBest' = withBest \cup {from} /\ best' = best
                /\ emitted' = IF BugEmitAll THEN Append(emitted, v) ELSE emitted
           ELSE IF Better(v, best)
                THEN best' = v /\ withBest' = {from} /\ emitted' = Append(emitted, v)
                ELSE best' = best /\ withBest' = withBest
                     /\ emitted' = IF BugEmitAll THEN Append(emitted, v) ELSE emitted
  /\ UNCHANGED <<rec, localRec, pendingNet, failedPeers, phase, corrective>>

\* the lookup is over (every answer arrived, or the quorum stopped it early)
Finish ==
  /\ phase = "search"
  /\ (aborted \/ (pendingNet = {} /\ Len(valCh) = 0))
  /\ phase' = "done"
  /\ corrective' = IF best = None \/ aborted THEN {}
                   ELSE ((Resp \ failedPeers) \ pendingNet) \ withBest
  /\ UNCHANGED <<rec, localRec, pendingNet, valCh, best, withBest, emitted, nresp, aborted, failedPeers, processed>>

Done == phase = "done" /\ UNCHANGED vars
Next == (\E p \in Resp : Arrive(p)) \/ Process \/ Finish \/ Done
Spec == Init /\ [][Next]_vars /\ WF_vars(Next)

Ranks(q) == [i \in DOMAIN q |-> Rank(q[i])]
OnlyValidEmitted == \A i \in DOMAIN emitted : IsValid(emitted[i])
StrictlyImproving == \A i \in 1..(Len(emitted) - 1) : Rank(emitted[i]) < Rank(emitted[i + 1])
EmittedWereSupplied == \A i \in DOMAIN emitted : emitted[i] \in processed
FinalDominatesProcessed ==
  phase = "done" => \A v \in processed : IsValid(v) => (Len(emitted) > 0 /\ Rank(emitted[Len(emitted)]) >= Rank(v))
NotFoundIffNoValid ==
  phase = "done" => ((Len(emitted) = 0) <=> (\A v \in processed : ~IsValid(v)))
CorrectiveExactlyToLaggards ==
  (phase = "done" /\ ~aborted /\ best # None) =>
      corrective = {p \in Resp \ failedPeers : rec[p] # best}
MiskeyedRejected == \A v \in processed : v[1] # "miskeyed"
Termination == <>(phase = "done")
=============================================================================
