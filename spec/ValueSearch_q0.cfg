SPECIFICATION Spec
CONSTANTS
  Resp = {"p1", "p2", "p3"}
  MaxRank = 1
  Tags = {"a", "b"}
  Quorum = 0
  BugEmitAll = FALSE
  BugNoValidate = FALSE
INVARIANTS OnlyValidEmitted StrictlyImproving EmittedWereSupplied FinalDominatesProcessed NotFoundIffNoValid CorrectiveExactlyToLaggards MiskeyedRejected
PROPERTY Termination
CHECK_DEADLOCK TRUE
