SPECIFICATION Spec
CONSTANTS
  Resp = {"p1", "p2", "p3", "p4"}
  MaxRank = 2
  Tags = {"a", "b"}
  Quorum = 2
  BugEmitAll = FALSE
  BugNoValidate = FALSE
INVARIANTS OnlyValidEmitted StrictlyImproving EmittedWereSupplied FinalDominatesProcessed NotFoundIffNoValid CorrectiveExactlyToLaggards MiskeyedRejected
PROPERTY Termination
CHECK_DEADLOCK TRUE
