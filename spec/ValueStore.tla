----------------------------- MODULE ValueStore -----------------------------
(***************************************************************************)
(* The value store of go-libp2p-kad-dht (records/value_store.go).          *)
(* Atomic steps are exactly the datastore accesses and stripe-lock         *)
(* operations of:                                                          *)
(*   Put   validate -> lock stripe -> get existing -> select -> put ->     *)
(*         unlock                                                          *)
(*   Get   get -> (corrupt / misfiled / expired: lock -> get -> compare -> *)
(*         delete -> unlock) -> return                                     *)
(*   sweep query snapshot -> for each expired entry discard-if-unchanged   *)
(* plus a clock.  Records are [cls, rank, t]; a planted corrupt record     *)
(* models anything Get must discard.                                       *)
(***************************************************************************)
EXTENDS Integers, FiniteSets, TLC

CONSTANTS Keys, Stripe,    \* Stripe: key -> stripe id
          Writers,         \* writer -> [k, rank]
          Readers,         \* reader -> key
          MaxAge, MaxT, InitCorrupt,
          UseLock, CompareBeforeDelete, SelectSwapped

None == [cls |-> "none", rank |-> -1, t |-> 0]
VARIABLES disk, lock, now, wpc, wseen, wacked, wt, rpc, rbuf, rres, spc, ssnap, viol
vars == <<disk, lock, now, wpc, wseen, wacked, wt, rpc, rbuf, rres, spc, ssnap, viol>>

W == DOMAIN Writers
R == DOMAIN Readers
Stripes == {Stripe[k] : k \in Keys}
Expired(x) == now - x.t > MaxAge
Good(x) == x.cls = "valid"

Init == /\ disk = [k \in Keys |-> IF k \in InitCorrupt THEN [cls |-> "corrupt", rank |-> -1, t |-> 0] ELSE None]
        /\ lock = [s \in Stripes |-> "free"] /\ now = 0
        /\ wpc = [w \in W |-> "start"] /\ wseen = [w \in W |-> None] /\ wacked = [w \in W |-> FALSE] /\ wt = [w \in W |-> 0]
        /\ rpc = [r \in R |-> "start"] /\ rbuf = [r \in R |-> None] /\ rres = [r \in R |-> None]
        /\ spc = "idle" /\ ssnap = {} /\ viol = {}

Free(k, who) == ~UseLock \/ lock[Stripe[k]] = "free"
Take(k, who) == IF UseLock THEN [lock EXCEPT ![Stripe[k]] = who] ELSE lock
Drop(k) == IF UseLock THEN [lock EXCEPT ![Stripe[k]] = "free"] ELSE lock

\* ---- Put ----------------------------------------------------------------
WLock(w) == /\ wpc[w] = "start" /\ Free(Writers[w].k, w)
            /\ lock' = Take(Writers[w].k, w) /\ wpc' = [wpc EXCEPT ![w] = "locked"]
            /\ UNCHANGED <<disk, now, wseen, wacked, wt, rpc, rbuf, rres, spc, ssnap, viol>>
WRead(w) == /\ wpc[w] = "locked"
            /\ wseen' = [wseen EXCEPT ![w] = IF Good(disk[Writers[w].k]) THEN disk[Writers[w].k] ELSE None]
            /\ wpc' = [wpc EXCEPT ![w] = "read"]
            /\ UNCHANGED <<disk, lock, now, wacked, wt, rpc, rbuf, rres, spc, ssnap, viol>>
Wins(w) == LET e == wseen[w] IN
           e = None \/ (IF SelectSwapped THEN Writers[w].rank <= e.rank ELSE Writers[w].rank >= e.rank)
WWrite(w) ==
  /\ wpc[w] = "read"
  /\ LET k == Writers[w].k
         new == [cls |-> "valid", rank |-> Writers[w].rank, t |-> now]
     IN IF Wins(w)
        THEN /\ disk' = [disk EXCEPT ![k] = new] /\ wacked' = [wacked EXCEPT ![w] = TRUE] /\ wt' = [wt EXCEPT ![w] = now]
             /\ viol' = viol \cup (IF Good(disk[k]) /\ new.rank < disk[k].rank THEN {"downgrade"} ELSE {})
        ELSE UNCHANGED <<disk, wacked, wt, viol>>
  /\ lock' = Drop(Writers[w].k) /\ wpc' = [wpc EXCEPT ![w] = "done"]
  /\ UNCHANGED <<now, wseen, rpc, rbuf, rres, spc, ssnap>>

\* ---- discardIfUnchanged(k, seen), shared by Get and the sweep -------------
\* returns the new disk content
Discard(k, seen) == IF ~CompareBeforeDelete \/ disk[k] = seen THEN [disk EXCEPT ![k] = None] ELSE disk
DeleteViol(k, seen) ==
  IF (~CompareBeforeDelete \/ disk[k] = seen) /\ Good(disk[k]) /\ ~Expired(disk[k]) THEN {"fresh_deleted"} ELSE {}

\* ---- Get ------------------------------------------------------------------
RRead(r) == /\ rpc[r] = "start" /\ rbuf' = [rbuf EXCEPT ![r] = disk[Readers[r]]]
            /\ rpc' = [rpc EXCEPT ![r] = "check"]
            /\ UNCHANGED <<disk, lock, now, wpc, wseen, wacked, wt, rres, spc, ssnap, viol>>
RCheck(r) ==
  /\ rpc[r] = "check"
  /\ LET b == rbuf[r] IN
     IF b = None THEN rpc' = [rpc EXCEPT ![r] = "done"] /\ rres' = rres /\ viol' = viol
     ELSE IF ~Good(b) \/ Expired(b) THEN rpc' = [rpc EXCEPT ![r] = "discard"] /\ rres' = rres /\ viol' = viol
     ELSE /\ rpc' = [rpc EXCEPT ![r] = "done"] /\ rres' = [rres EXCEPT ![r] = b]
          /\ viol' = viol
  /\ UNCHANGED <<disk, lock, now, wpc, wseen, wacked, wt, rbuf, spc, ssnap>>
RDiscard(r) ==
  /\ rpc[r] = "discard" /\ Free(Readers[r], r)
  \* lock, re-read, compare, delete, unlock: one critical section (no other
  \* store operation can interleave while the stripe lock is held)
  /\ disk' = Discard(Readers[r], rbuf[r])
  /\ viol' = viol \cup DeleteViol(Readers[r], rbuf[r])
  /\ rpc' = [rpc EXCEPT ![r] = "done"]
  /\ UNCHANGED <<lock, now, wpc, wseen, wacked, wt, rbuf, rres, spc, ssnap>>

\* ---- sweep ---------------------------------------------------------------
SStart == /\ spc = "idle" /\ ssnap' = {<<k, disk[k]>> : k \in {k \in Keys : disk[k] # None}} /\ spc' = "run"
          /\ UNCHANGED <<disk, lock, now, wpc, wseen, wacked, wt, rpc, rbuf, rres, viol>>
SStep == /\ spc = "run" /\ ssnap # {}
         /\ \E e \in ssnap :
              /\ ssnap' = ssnap \ {e}
              /\ IF Good(e[2]) /\ Expired(e[2]) /\ Free(e[1], "sweeper")
                 THEN disk' = Discard(e[1], e[2]) /\ viol' = viol \cup DeleteViol(e[1], e[2])
                 ELSE IF Good(e[2]) /\ Expired(e[2]) THEN FALSE   \* wait for the stripe lock
                 ELSE disk' = disk /\ viol' = viol
         /\ UNCHANGED <<lock, now, wpc, wseen, wacked, wt, rpc, rbuf, rres, spc>>
SEnd == /\ spc = "run" /\ ssnap = {} /\ spc' = "idle"
        /\ UNCHANGED <<disk, lock, now, wpc, wseen, wacked, wt, rpc, rbuf, rres, ssnap, viol>>

Tick == /\ now < MaxT /\ now' = now + 1
        /\ UNCHANGED <<disk, lock, wpc, wseen, wacked, wt, rpc, rbuf, rres, spc, ssnap, viol>>

Next == \/ \E w \in W : WLock(w) \/ WRead(w) \/ WWrite(w)
        \/ \E r \in R : RRead(r) \/ RCheck(r) \/ RDiscard(r)
        \/ SStart \/ SStep \/ SEnd \/ Tick
        \/ UNCHANGED vars
Spec == Init /\ [][Next]_vars

NoDowngrade == "downgrade" \notin viol
FreshNeverDeleted == "fresh_deleted" \notin viol
StoredAlwaysValid == \A k \in Keys : disk[k] = None \/ disk[k].cls \in {"valid", "corrupt"}
\* an acknowledged put stays readable (same or better record) until it ages out
AckedReadable == \A w \in W : (wacked[w] /\ now - wt[w] <= MaxAge) =>
                    (Good(disk[Writers[w].k]) /\ disk[Writers[w].k].rank >= Writers[w].rank)
\* a record is served only if it was fresh when it was checked
NeverServeExpired == \A r \in R : rres[r] # None => rres[r].t + MaxAge >= 0
LockDiscipline == \A s \in Stripes : lock[s] = "free" \/ lock[s] \in W
=============================================================================
