-------------------------- MODULE ValueStoreTrace --------------------------
(***************************************************************************)
(* Property-level trace specification for the node's value store (C05),    *)
(* validated against traces of the real IpfsDHT (local PutValue, remote    *)
(* PUT_VALUE / GET_VALUE handlers, offline GetValue, value GC) recorded by *)
(* harness/drivers/vs_test.go over a gated datastore.                      *)
(* The oracle is the datastore write log: content[k] is rebuilt from the   *)
(* "DS" put/delete lines; results of reads are judged against the set of   *)
(* contents that were current at some moment of the call.                  *)
(***************************************************************************)
EXTENDS Integers, Sequences, FiniteSets, TLC, Json, IOUtils

Trace == ndJsonDeserialize(IOEnv.VERIF_TRACE)
NLines == Len(Trace)
VARIABLES l, s
vars == <<l, s>>
Range(f) == {f[i] : i \in DOMAIN f}
None == [class |-> "none", rank |-> -1, stamp |-> 0]
Rec(ev) == [class |-> ev.class, rank |-> ev.rank, stamp |-> ev.stamp]

Fresh(run) == [
  c       |-> run,
  content |-> [k \in 0..(run.nkeys - 1) |-> run.init[k + 1]],
  open    |-> <<>>,   \* actor -> [op, k, t0, cands, wrote, rank, class, reckey]
  viol    |-> {} ]

c == s.c
Ev == Trace[l]
Is(e) == l <= NLines /\ Ev.e = e
Flag(b, prop, id) == IF b THEN {} ELSE {<<prop, id>>}
ResetLines == {i \in 1..NLines : Trace[i].e = "Reset"}
Init == \E i \in ResetLines : l = i + 1 /\ s = Fresh(Trace[i])
Step(ns) == /\ s' = ns /\ l' = l + 1
            /\ (ns.viol = s.viol \/ PrintT("VIOL " \o ToString(s.c.t) \o " " \o ToString(l) \o " " \o ToString(ns.viol \ s.viol)))

Expired(x, t) == x.stamp < 0 \/ t - x.stamp > c.maxage
Present(x) == x.class \in {"valid", "invalid"}

Start ==
  /\ Is("Start")
  /\ Step([s EXCEPT !.open = [a \in (DOMAIN @) \cup {Ev.actor} |->
        IF a = Ev.actor
        THEN [op |-> Ev.op, k |-> Ev.k, t0 |-> Ev.ts, cands |-> {s.content[Ev.k]}, wrote |-> {},
              rank |-> Ev.rank, class |-> Ev.class, reckey |-> Ev.reckey]
        ELSE @[a]]])

\* every call that is open on key k sees the new content as a candidate
Touch(o, k, x) == [a \in DOMAIN o |-> IF o[a].k = k THEN [o[a] EXCEPT !.cands = @ \cup {x}] ELSE o[a]]
MarkWrote(o, a, x) == IF a \in DOMAIN o THEN [o EXCEPT ![a].wrote = @ \cup {x}] ELSE o

DS ==
  /\ Is("DS")
  /\ IF Ev.op = "put" THEN
        IF Ev.k < 0 THEN Step([s EXCEPT !.viol = @ \cup {<<"C05", "a_record_stored_under_foreign_key">>}])
        ELSE LET cur == s.content[Ev.k]
                 new == Rec(Ev)
             IN Step([s EXCEPT
                  !.content[Ev.k] = new,
                  !.open = MarkWrote(Touch(@, Ev.k, new), Ev.actor, new),
                  \* the record is stamped with the local time at which it was received (between the start of the
                  \* call and this write), whatever the sender had put into that field
                  !.viol = @ \cup Flag(Ev.actor \in DOMAIN s.open => (new.stamp >= s.open[Ev.actor].t0 /\ new.stamp <= Ev.ts),
                                       "C05", "d_record_not_stamped_with_the_local_receive_time")
                             \cup Flag(new.class = "valid", "C05", "a_invalid_or_misfiled_record_stored")
                             \cup Flag(cur.class = "valid" => new.rank >= cur.rank, "C05", "b_record_downgraded")])
     ELSE IF Ev.op = "delete" /\ Ev.k >= 0 THEN
        LET cur == s.content[Ev.k] IN
        Step([s EXCEPT
          !.content[Ev.k] = None,
          !.open = Touch(@, Ev.k, None),
          \* only corrupt, misfiled or aged-out records may be discarded
          !.viol = @ \cup Flag(~(cur.class = "valid" /\ ~Expired(cur, Ev.ts)), "C05", "c_fresh_record_deleted")])
     ELSE Step(s)

GetOK(o, r, t, local) ==
  \E x \in o.cands :
     \/ /\ r.class = "none"
        /\ (~Present(x) \/ Expired(x, t) \/ (local /\ x.class = "invalid"))
     \/ /\ r.class # "none" /\ Present(x) /\ r.class = x.class /\ r.rank = x.rank
        /\ (r.stamp >= 0 => r.stamp = x.stamp)
        /\ ~Expired(x, o.t0)

Ret ==
  /\ Is("Ret")
  /\ LET a == Ev.actor
         o == s.open[a]
     IN IF Ev.op = "get" THEN
          LET r == [class |-> Ev.class, rank |-> Ev.rank, stamp |-> Ev.stamp]
              local == o.op = "getlocal"
          IN Step([s EXCEPT
               !.viol = @ \cup Flag(GetOK(o, r, Ev.ts, local), "C05", "c_read_does_not_match_stored_record")
                          \cup Flag(r.class # "none" => (\E x \in o.cands : x.rank = r.rank /\ ~Expired(x, o.t0)), "C05", "d_expired_record_served")
                          \cup Flag((local /\ r.class # "none") => r.class = "valid", "C05", "a_invalid_record_returned_locally")])
        ELSE \* putvalue / putrpc
          LET stored == Ev.err \in {"", "lookupfail"}
              allBetter == \A x \in o.cands : x.class = "valid" /\ ~Expired(x, Ev.ts) /\ x.rank > o.rank
          IN Step([s EXCEPT
               !.viol = @
                 \cup Flag(stored => (\E x \in o.wrote : x.rank = o.rank /\ x.class = "valid"), "C05", "c_acknowledged_put_not_written")
                 \cup Flag((o.op = "putvalue" /\ allBetter) => ~stored, "C05", "e_local_put_accepted_over_better_value")
                 \cup Flag((o.op = "putrpc" /\ o.reckey # o.k) => (~stored /\ o.wrote = {}), "C05", "a_key_mismatch_accepted")
                 \cup Flag(o.class = "invalid" => (~stored /\ o.wrote = {}), "C05", "a_invalid_put_accepted")])

Tick == Is("Tick") /\ Step(s)
Final ==
  /\ Is("Final")
  /\ Step([s EXCEPT !.viol = @ \cup Flag(\A k \in DOMAIN s.content :
        LET f == Ev.content[k + 1] IN f.class = s.content[k].class /\ f.rank = s.content[k].rank,
        "C05", "x_write_log_disagrees_with_final_content")])
Unsettled == Is("Unsettled") /\ Step(s)
Stuck == Is("Stuck") /\ Step([s EXCEPT !.viol = @ \cup {<<"C05", "x_goroutines_blocked_forever">>}])
End == Is("End") /\ Step(s)

Next == Start \/ DS \/ Ret \/ Tick \/ Final \/ Unsettled \/ Stuck \/ End
TraceSpec == Init /\ [][Next]_vars
TraceAccepted == TLCGet("distinct") = NLines
InvC05 == {v \in s.viol : v[1] = "C05"} = {}
=============================================================================
