SPECIFICATION TraceSpec
INVARIANT InvC05
POSTCONDITION TraceAccepted
CHECK_DEADLOCK FALSE
